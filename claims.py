# property id -> claim text (level "other": static analysis deciding a named structural clause)
TB = "Trusted: CPython ast; the external-callee table (numpy/scipy semantics, PreparedConstraint/VectorFunction run user code); frozen tables in sa/tables.py. Nothing numerical is decided."
CLAIMS["C06"] = dict(
    technique="who-may-call / effect analysis on a type-resolved call graph; CFG exclusivity; backward value flow (space typing)",
    text="Decides, for every path and call site of the package, that user code (objective, constraint functions, callback) is reachable only through the evaluation routine, at most once per evaluation per class, and with a build_x (user-space, projected) point. This is the structural content of the property; the scipy cache behaviour ('identical point') is trusted.",
    note=TB)
CLAIMS["C07"] = dict(
    technique="status/trigger table check, (success,status) pair propagation on the CFG of minimize, conjunct must-analysis in the result builder, table exhaustiveness",
    text="Decides on every exit path of minimize that each status constant is issued only in its trigger context, each handler leaves with its documented (success,status), success carries the finiteness/feasibility post-conditions, and enum/message/docstring tables agree. Numerical facts (nfev = maxfev) are not decided.",
    note=TB)
CLAIMS["C08"] = dict(
    technique="interprocedural exception-escape analysis; must-dataflow for the NaN barrier; producer/consumer type agreement; definite field assignment",
    text="Decides that no explicitly raised internal exception has an uncaught path out of minimize (or ZeroDivisionError out of a subsolver), that every value returned to the solver by the evaluation routine is NaN-replaced and clamped on every path, that constraint lists are normalised to one class, and that every return of minimize is a fully assigned result. Termination and exceptions raised inside numpy/scipy are not decided.",
    note=TB)
NA["C04"] = "numerical convergence to a minimiser: no path/ordering/typestate rule is a necessary and checkable condition (DESIGN section 4, C04)"
NA["C14"] = "numerical identity sigma = alpha*beta + tau^2 vs. exact determinant ratios: nothing structural to decide (DESIGN section 4, C14)"
CLAIMS["C02"] = dict(
    technique="reaching definitions + backward value flow (raw-before-barrier, value identity), lock-step list mutation check, index coherence, consumed-parameter analysis, space typing",
    text="Decides on every path that the triple stored in the filter/history is (evaluated point, objective wrapper result, Problem.maxcv of the raw constraint values), that no barrier rewrite reaches those stores, that the filter lists move in lock-step, that best_eval and the result builder return one index-coherent triple (x through build_x), that supplied constraint values are consumed rather than re-evaluated, that violations are computed in the space of their operand, and that all three constraint kinds are aggregated. Equality of the reduced/scaled linear residual with the user's is C10's clause; tolerances are not decided.",
    note=TB)
CLAIMS["C03"] = dict(
    technique="exhaustive finite-domain abstract interpretation (decision table, 1336 states) of the filter update fragment against the documented dominance order; idiom checks on the selection routine",
    text="The filter touches values only through isnan and order comparisons, so its update has a finite abstraction: the checker interprets the update fragment's AST (own evaluator, IEEE semantics, no execution of the repo) over all 36 one-entry and 1296 two-entry abstract states and compares admission/removal/lock-step/FIFO with the reference order. Selection idioms (<= min masks, most-recent index, feasible-first, merit formula, tie-break order) and the forwarding of the penalty in force are checked structurally. The vectorised arithmetic of best_eval on real data is not decided.",
    note=TB + " The reference dominance order D in sa/rules/c03.py is derived from the property statement and the code comments.")
CLAIMS["C05"] = dict(
    technique="CFG dominance of budget guards over every evaluation call site, post-dominance of the counter increment, loop analysis of the iteration cap, lock-step history lists",
    text="Decides that every live call of the evaluation routine is dominated in its loop iteration by `counter >= maxfev -> raise MaxEvalError` (or is provably the first evaluation / dead), that the counter behind nfev has one `+= 1` site executed on every path of an evaluation, that the iteration cap dominates the main loop with one increment per iteration before any evaluation, that history lists are appended raw, in lock-step, under store_history and trimmed FIFO under `len > history_size`, and that the default budget is at least nb_points + 1.",
    note=TB)
CLAIMS["C09"] = dict(
    technique="CFG reachability from stop handlers to user-code-reaching calls; path check that stop tests follow each evaluation; exception-translation and raise-guard checks",
    text="Decides that after TargetSuccess/FeasibleSuccess/CallbackSuccess is caught in minimize no path reaches a call that may run user code, that at every evaluation site the two stopping tests follow the evaluation on every normal path with no user code in between and under the documented guards, that the callback's StopIteration is translated inside the evaluation routine, and that the evaluation is counted before the callback can stop the run. 'nfev equals the index' numerically follows from C05's counter clause.",
    note=TB + " The forced evaluation of best_eval on an empty filter is excluded from 'user code after a stop' by the checked fact that every evaluation leaves the filter non-empty.")
CLAIMS["C20"] = dict(
    technique="CFG path cover / exclusivity of the callback calls, def-chain check of the callback argument, allocation-kind (alias) analysis, value flow of the penalty",
    text="Decides that, with a callback set, every normal path of the evaluation routine passes exactly one callback call placed after the filter update; that its argument is build_x(best_eval(penalty)[0]) with the objective value of the same selection - the chain the result builder uses; that build_x returns a fresh array and the array is not kept by the solver; that every evaluation passes the penalty in force; and that the convention is chosen from the signature's parameter names.",
    note=TB)
CLAIMS["C12"] = dict(
    technique="call-site effect analysis (unconditional execution, loop coverage), CFG ordering (dominance) of old-set/new-set operations, index-coherence check, relational dataflow (step/evaluation/best-index) at the update sites, value flow of recorded values",
    text="Decides the bookkeeping that interpolation rests on: every model group is updated/shifted/rebuilt unconditionally over its full range in each maintenance function; residuals and the copy of the old direction precede the point store and updates follow it; models shift before the base point moves; stores use one index; at each update site in minimize the values come from the last evaluation of x_best + step with the same step and an unchanged best index; recorded values come from the evaluation routine's clamped returns. The size of the interpolation error and poisedness are numerical and not decided.",
    note=TB)
CLAIMS["C19"] = dict(
    technique="guard-table extraction and comparison with a frozen requirement table; message-grammar agreement; must-defined-keys dataflow with branch refinement; affine orientation check of derived partners; constant folding of defaults; docstring cross-check",
    text="The validation code is a finite object: the checker extracts every `if relation: raise ValueError` guard (32 today) and proves that each documented restriction (26 members, 5 ordered pairs) is enforced with exactly its relation and bound on every path on which the member is supplied and before it is used to derive a partner; that each guard negates its own message; that every key is definitely stored at exit; that derived partners are min/max expressions oriented so that the pair relation holds (affine reasoning on the member's domain); that defaults satisfy their guards and match the documentation; and that unknown names only warn. Whether each documented interval is the right one is not decided.",
    note=TB + " The requirement table REQUIRED/PAIRS in sa/rules/c19.py is taken from the property statement, the messages and the docstring.")
