# property id -> claim text (level "other": static analysis deciding a named structural clause)
TB = "Trusted: CPython ast; the external-callee table (numpy/scipy semantics, PreparedConstraint/VectorFunction run user code); frozen tables in sa/tables.py. Nothing numerical is decided."
CLAIMS["C06"] = dict(
    technique="who-may-call / effect analysis on a type-resolved call graph; CFG exclusivity; backward value flow (space typing)",
    text="Decides, for every path and call site of the package, that user code (objective, constraint functions, callback) is reachable only through the evaluation routine, at most once per evaluation per class, and with a build_x (user-space, projected) point. This is the structural content of the property; the scipy cache behaviour ('identical point') is trusted.",
    note=TB)
CLAIMS["C07"] = dict(
    technique="status/trigger table check, (success,status) pair propagation on the CFG of minimize, conjunct must-analysis in the result builder, table exhaustiveness",
    text="Decides on every exit path of minimize that each status constant is issued only in its trigger context, each handler leaves with its documented (success,status), success carries the finiteness/feasibility post-conditions, and enum/message/docstring tables agree. Numerical facts (nfev = maxfev) are not decided.",
    note=TB)
CLAIMS["C08"] = dict(
    technique="interprocedural exception-escape analysis; must-dataflow for the NaN barrier; producer/consumer type agreement; definite field assignment",
    text="Decides that no explicitly raised internal exception has an uncaught path out of minimize (or ZeroDivisionError out of a subsolver), that every value returned to the solver by the evaluation routine is NaN-replaced and clamped on every path, that constraint lists are normalised to one class, and that every return of minimize is a fully assigned result. Termination and exceptions raised inside numpy/scipy are not decided.",
    note=TB)
NA["C04"] = "numerical convergence to a minimiser: no path/ordering/typestate rule is a necessary and checkable condition (DESIGN section 4, C04)"
NA["C14"] = "numerical identity sigma = alpha*beta + tau^2 vs. exact determinant ratios: nothing structural to decide (DESIGN section 4, C14)"
