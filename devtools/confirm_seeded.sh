#!/bin/bash
# usage: confirm_seeded.sh <worktree> <mdir>  -> prints RESULT line
wt=$1; m=$2
cd $wt || exit 9
git checkout -q -- cobyqa
if ! git apply --check $m/patch.diff 2>/dev/null; then echo "RESULT $wt/$m patch-does-not-apply"; exit 0; fi
git apply $m/patch.diff
t=$(PYTHONPATH=$wt /venv/bin/python -m pytest -q -p no:cacheprovider -x --deselect cobyqa/tests/test_main.py::TestMinimize::test_fixed 2>&1 | tail -1)
PYTHONPATH=$wt timeout 600 /venv/bin/python $m/demo.py >/tmp/$(basename $wt)_$m.with.out 2>&1; rc1=$?
git checkout -q -- cobyqa
PYTHONPATH=$wt timeout 600 /venv/bin/python $m/demo.py >/tmp/$(basename $wt)_$m.without.out 2>&1; rc0=$?
echo "RESULT $wt/$m tests=[$t] demo_with=$rc1 demo_without=$rc0"
