#!/venv/bin/python
"""Freeze the vocabulary of the reference tree (functions, module-level names
and local names per function) into sa/vocab.json.  The normaliser
(sa/normalize.py) treats every helper / module constant / local that is *not*
in this table as introduced by a later edit and makes it transparent (inlines
it) before the rules run."""
import ast
import json
import os
import sys

ROOT = sys.argv[1] if len(sys.argv) > 1 else "/repo"
PKG = "cobyqa"
out = {}
for dirpath, dirnames, filenames in os.walk(os.path.join(ROOT, PKG)):
    dirnames[:] = sorted(d for d in dirnames if d not in ("__pycache__", "tests"))
    for fn in sorted(filenames):
        if not fn.endswith(".py"):
            continue
        full = os.path.join(dirpath, fn)
        rel = os.path.relpath(full, ROOT)
        parts = rel[:-3].split("/")
        if parts[-1] == "__init__":
            parts = parts[:-1]
        mod = ".".join(parts)
        tree = ast.parse(open(full).read())
        funcs = {}
        globs = set()
        attr_stored = {}
        first_defs = {}
        idents = {}
        returns = {}
        expanded = {}

        def expanded_defs_of(fn_node):
            """text of the (sole) definition of each single-definition local, with the other
            single-definition locals expanded (a naming-independent signature of the value)"""
            stores = {}
            for n in ast.walk(fn_node):
                if isinstance(n, ast.Name) and isinstance(n.ctx, (ast.Store, ast.Del)):
                    stores[n.id] = stores.get(n.id, 0) + 1
            defs = {}
            for n in ast.walk(fn_node):
                if isinstance(n, ast.Assign) and len(n.targets) == 1:
                    t = n.targets[0]
                    if isinstance(t, ast.Name) and stores.get(t.id) == 1:
                        defs[t.id] = n.value
                    elif isinstance(t, (ast.Tuple, ast.List)) and isinstance(n.value, (ast.Tuple, ast.List)) and len(t.elts) == len(n.value.elts):
                        for a, b in zip(t.elts, n.value.elts):
                            if isinstance(a, ast.Name) and stores.get(a.id) == 1:
                                defs[a.id] = b

            def expand(e, depth):
                if depth <= 0:
                    return e
                class X(ast.NodeTransformer):
                    def visit_Name(self, node):
                        if isinstance(node.ctx, ast.Load) and node.id in defs:
                            import copy
                            return expand(copy.deepcopy(defs[node.id]), depth - 1)
                        return node
                import copy
                return X().visit(copy.deepcopy(e))
            out = {}
            for k, v in defs.items():
                try:
                    out[k] = ast.unparse(expand(v, 4))
                except RecursionError:
                    pass
            return out

        def returns_of(fn_node):
            """element texts of the returned tuple when every return is a tuple of one shape"""
            rs = [n for n in ast.walk(fn_node) if isinstance(n, ast.Return) and n.value is not None]
            shapes = set()
            for r in rs:
                if isinstance(r.value, ast.Tuple) and len(r.value.elts) >= 2:
                    shapes.add(tuple(ast.unparse(e) for e in r.value.elts))
                else:
                    return None
            if len(shapes) == 1:
                sh = list(shapes.pop())
                return sh if len(set(sh)) == len(sh) else None
            return None

        def idents_of(fn_node):
            out = set()
            for n in ast.walk(fn_node):
                if isinstance(n, ast.Name):
                    out.add(n.id)
                elif isinstance(n, ast.Attribute):
                    out.add(n.attr)
                elif isinstance(n, ast.arg):
                    out.add(n.arg)
            return sorted(out)

        def first_defs_of(fn_node):
            out = {}
            for n in ast.walk(fn_node):
                if isinstance(n, ast.Assign) and len(n.targets) == 1:
                    t = n.targets[0]
                    if isinstance(t, ast.Name):
                        out.setdefault(t.id, (n.lineno, ast.unparse(n.value)))
                        if out[t.id][0] > n.lineno:
                            out[t.id] = (n.lineno, ast.unparse(n.value))
                    elif isinstance(t, (ast.Tuple, ast.List)) and isinstance(n.value, (ast.Tuple, ast.List)) and len(t.elts) == len(n.value.elts):
                        for a, b in zip(t.elts, n.value.elts):
                            if isinstance(a, ast.Name) and (a.id not in out or out[a.id][0] > n.lineno):
                                out[a.id] = (n.lineno, ast.unparse(b))
                    elif isinstance(t, (ast.Tuple, ast.List)) and isinstance(n.value, ast.Call):
                        for i, a in enumerate(t.elts):
                            if isinstance(a, ast.Name) and (a.id not in out or out[a.id][0] > n.lineno):
                                out[a.id] = (n.lineno, f"{ast.unparse(n.value)}[{i}]")
            return {k: v[1] for k, v in out.items()}

        def attr_stored_of(fn_node):
            out = set()
            for n in ast.walk(fn_node):
                if isinstance(n, ast.Assign):
                    for t in n.targets:
                        if isinstance(t, ast.Attribute) and isinstance(t.value, ast.Name) and t.value.id not in ("self", "cls"):
                            out.add(t.value.id)
            return sorted(out)

        def locals_of(fn_node):
            names = set(a.arg for a in fn_node.args.posonlyargs + fn_node.args.args + fn_node.args.kwonlyargs)
            if fn_node.args.vararg:
                names.add(fn_node.args.vararg.arg)
            if fn_node.args.kwarg:
                names.add(fn_node.args.kwarg.arg)
            for n in ast.walk(fn_node):
                if isinstance(n, ast.Name) and isinstance(n.ctx, (ast.Store, ast.Del)):
                    names.add(n.id)
                elif isinstance(n, ast.ExceptHandler) and n.name:
                    names.add(n.name)
            return sorted(names)

        def key_of(node):
            k = node.name
            for dec in node.decorator_list:
                if isinstance(dec, ast.Attribute) and dec.attr == "setter":
                    k += ".setter"
            return k

        for node in tree.body:
            if isinstance(node, (ast.FunctionDef, ast.AsyncFunctionDef)):
                funcs[key_of(node)] = locals_of(node)
                first_defs[key_of(node)] = first_defs_of(node)
                idents[key_of(node)] = idents_of(node)
                expanded[key_of(node)] = expanded_defs_of(node)
                if returns_of(node):
                    returns[key_of(node)] = returns_of(node)
                if attr_stored_of(node):
                    attr_stored[key_of(node)] = attr_stored_of(node)
            elif isinstance(node, ast.ClassDef):
                globs.add(node.name)
                for item in node.body:
                    if isinstance(item, (ast.FunctionDef, ast.AsyncFunctionDef)):
                        funcs[f"{node.name}.{key_of(item)}"] = locals_of(item)
                        first_defs[f"{node.name}.{key_of(item)}"] = first_defs_of(item)
                        idents[f"{node.name}.{key_of(item)}"] = idents_of(item)
                        expanded[f"{node.name}.{key_of(item)}"] = expanded_defs_of(item)
                        if returns_of(item):
                            returns[f"{node.name}.{key_of(item)}"] = returns_of(item)
                        if attr_stored_of(item):
                            attr_stored[f"{node.name}.{key_of(item)}"] = attr_stored_of(item)
            elif isinstance(node, (ast.Assign, ast.AnnAssign)):
                tg = node.targets if isinstance(node, ast.Assign) else [node.target]
                for t in tg:
                    for n in ast.walk(t):
                        if isinstance(n, ast.Name):
                            globs.add(n.id)
        out[mod] = {"functions": funcs, "globals": sorted(globs), "attr_stored": attr_stored, "first_defs": first_defs, "idents": idents, "returns": returns, "expanded_defs": expanded}
dst = os.path.join(os.path.dirname(os.path.dirname(os.path.abspath(__file__))), "sa", "vocab.json")
with open(dst, "w") as fh:
    json.dump(out, fh, indent=0, sort_keys=True)
print("wrote", dst, sum(len(v["functions"]) for v in out.values()), "functions")
