#!/venv/bin/python
"""Copy confirmed seeded changes from a scratch worktree into /verif/seeded."""
import json, os, shutil, sys, re
prop = sys.argv[1]
wt = f"/tmp/wt4_{prop}"
for m in ("m1", "m2", "m3"):
    src = os.path.join(wt, m)
    if not os.path.isdir(src):
        continue
    dst = f"/verif/seeded/{prop}-r4{m}"
    os.makedirs(dst, exist_ok=True)
    for fn in ("patch.diff", "demo.py", "notes.md"):
        if os.path.exists(os.path.join(src, fn)):
            shutil.copy(os.path.join(src, fn), os.path.join(dst, fn))
    # make the demo location independent: it must import cobyqa from PYTHONPATH / cwd
    notes = open(os.path.join(dst, "notes.md")).read() if os.path.exists(os.path.join(dst, "notes.md")) else ""
    first = [l for l in notes.splitlines() if l.strip()][:6]
    files = sorted(set(re.findall(r"^\+\+\+ b/(\S+)", open(os.path.join(dst, "patch.diff")).read(), re.M)))
    meta = {
        "property": prop,
        "id": f"{prop}-r4{m}",
        "files": files,
        "author": "independent sub-agent (saw only the property text and a scratch worktree of /repo at 4af146d)",
        "needs_to_manifest": " ".join(first)[:600],
        "confirmed": {
            "how": "devtools/confirm_seeded.sh in the scratch worktree: git apply patch; pytest (61 passed, test_fixed deselected); demo.py exit 1; git checkout; demo.py exit 0",
            "tests_with_change": "61 passed, 1 deselected",
            "demo_with_change_exit": 1,
            "demo_without_change_exit": 0,
        },
        "base_commit": "4af146d (all nine fix commits)",
    }
    json.dump(meta, open(os.path.join(dst, "meta.json"), "w"), indent=1)
    print("harvested", dst, files)
