#!/venv/bin/python
"""Write seeded/MATRIX.md and benign/MATRIX.md from the RESULTS.json files of
the last full runs of run_seeded.py / run_benign.py."""
import json, os
V = "/verif"
r = json.load(open(f"{V}/seeded/RESULTS.json"))
lines = ["# Seeded changes x checks (last full run of devtools/run_seeded.py)", "",
         "| change | written for | file(s) | reported by | analysis errors | summary |", "|---|---|---|---|---|---|"]
own = 0
for k in sorted(r):
    meta = {}
    mp = f"{V}/seeded/{k}/meta.json"
    if os.path.exists(mp):
        meta = json.load(open(mp))
    prop = k.split("-")[0]
    cb = r[k].get("caught_by", [])
    own += prop in cb
    files = ", ".join(meta.get("files", [])) if isinstance(meta.get("files"), list) else str(meta.get("files", ""))
    summ = (meta.get("summary") or meta.get("title") or "").replace("|", "/")[:110]
    lines.append(f"| {k} | {prop} | {files} | {', '.join(cb) or '**none**'} | {', '.join(r[k].get('analysis_errors', []))} | {summ} |")
lines += ["", f"{own} of {len(r)} changes are reported by the check of the property they were written for."]
open(f"{V}/seeded/MATRIX.md", "w").write("\n".join(lines) + "\n")
b = json.load(open(f"{V}/benign/RESULTS.json"))
lines = ["# Behaviour-preserving refactorings x checks (last full run of devtools/run_benign.py)", "",
         "| refactoring | VIOLATION from | ANALYSIS-ERROR from |", "|---|---|---|"]
sil = 0
for k in sorted(b):
    cb, er = b[k].get("caught_by", []), b[k].get("analysis_errors", [])
    sil += not cb and not er
    lines.append(f"| {k} | {', '.join(cb) or '-'} | {', '.join(er) or '-'} |")
lines += ["", f"{sil} of {len(b)} silent."]
open(f"{V}/benign/MATRIX.md", "w").write("\n".join(lines) + "\n")
print(own, len(r), sil, len(b))
