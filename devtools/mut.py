#!/venv/bin/python
"""Development aid: run checks against a scratch copy of /repo with one
textual edit applied.  usage: mut.py <props,comma> <relfile> <old> <new> [count]
The scratch copy lives in a mkdtemp outside /repo and /verif and is removed."""
import os, shutil, subprocess, sys, tempfile

def main():
    props, rel, old, new = sys.argv[1:5]
    d = tempfile.mkdtemp(prefix="sa_mut_")
    try:
        shutil.copytree("/repo/cobyqa", os.path.join(d, "cobyqa"), ignore=shutil.ignore_patterns("__pycache__"))
        p = os.path.join(d, rel)
        s = open(p).read()
        if s.count(old) < 1:
            print("PATTERN NOT FOUND"); return 3
        s = s.replace(old, new, 1)
        open(p, "w").write(s)
        import ast; ast.parse(s)
        rc = 0
        for prop in props.split(","):
            r = subprocess.run(["/verif/check", prop, "--repo", d, "--no-evidence"], capture_output=True, text=True)
            lines = [l for l in r.stdout.splitlines() if l.startswith(("  cobyqa", "VIOLATION", "ANALYSIS", "-- OK", "  ?"))]
            print(f"[{prop}] exit={r.returncode}")
            for l in lines[:6]:
                print("   ", l[:230])
            if r.stderr.strip():
                print(r.stderr[-500:])
            rc = max(rc, r.returncode)
        return rc
    finally:
        shutil.rmtree(d, ignore_errors=True)

sys.exit(main())
