#!/venv/bin/python
"""Re-analyse (all checks) only the surviving silent variants listed by silent_survivors.py."""
import ast, json, os, random, sys, multiprocessing as mp
sys.path.insert(0, "/verif")
sys.argv_saved = sys.argv
from sa import tables as T
from sa.sensitivity import enumerate_edits, apply_edit, _find_func
from sa.loader import Repo, set_parents
sys.path.insert(0, "/verif/devtools")
import union_sens as us

if __name__ == "__main__":
    surv = json.load(open(sys.argv[1]))
    want = {(x["file"], x["function"], x["edit"], x["line"]) for x in surv if x["tests_pass"]}
    repo = Repo("/repo")
    quals = sorted({q for qs in T.SENSITIVITY_FUNCS.values() for q in qs})
    base = us.base_keys()
    jobs = []
    for q in quals:
        f = repo.find_func(q)
        if f is None:
            continue
        for e in enumerate_edits(f.node):
            src = open(os.path.join("/repo", f.relfile)).read()
            tree = ast.parse(src)
            set_parents(tree)
            fn = _find_func(tree, f.local)
            line, desc = apply_edit(fn, e)
            if (f.relfile, f.local, desc, line) in want:
                jobs.append((f.relfile, f.local, e, base))
    sys.stderr.write(f"{len(jobs)} variants\n")
    with mp.Pool(int(os.environ.get("NPROC", "10"))) as pool:
        res = [r for r in pool.imap_unordered(us.worker, jobs, chunksize=2) if r]
    json.dump(res, sys.stdout, indent=0)
    sys.stderr.write(f"now detected {sum(1 for r in res if r['detected'])}, errors-only {sum(1 for r in res if not r['detected'] and r['errors'])}, silent {sum(1 for r in res if not r['detected'] and not r['errors'])}\n")
