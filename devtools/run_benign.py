#!/venv/bin/python
"""Run checks against every seeded change (on scratch copies, 16-way).
usage: run_seeded.py [filter-substring] [--all-props]
Prints, per seeded change, which checks raise a VIOLATION."""
import json, os, shutil, subprocess, sys, tempfile
from concurrent.futures import ThreadPoolExecutor

SEEDED = "/verif/benign"
man = json.load(open("/verif/MANIFEST.json"))
CLAIMED = [c["property_id"] for c in man["checks"]]

def run_one(name):
    d = tempfile.mkdtemp(prefix="sa_seed_")
    try:
        shutil.copytree("/repo", os.path.join(d, "r"), ignore=shutil.ignore_patterns("__pycache__", ".git", "doc", "examples"))
        r = subprocess.run(["git", "apply", "--unsafe-paths", "--directory", os.path.join(d, "r"), os.path.join(SEEDED, name, "patch.diff")], capture_output=True, text=True, cwd=d)
        if r.returncode != 0:
            r = subprocess.run(["patch", "-p1", "-d", os.path.join(d, "r"), "-i", os.path.join(SEEDED, name, "patch.diff")], capture_output=True, text=True)
            if r.returncode != 0:
                return name, {"_apply": "FAILED " + r.stderr[:200]}
        res = {}
        props = CLAIMED
        for p in props:
            rr = subprocess.run(["/verif/check", p, "--repo", os.path.join(d, "r"), "--no-evidence"], capture_output=True, text=True)
            if rr.returncode != 0:
                first = [l for l in rr.stdout.splitlines() if l.startswith("  cobyqa") or l.startswith("ANALYSIS")]
                res[p] = (rr.returncode, first[0][:200] if first else "")
        return name, res
    finally:
        shutil.rmtree(d, ignore_errors=True)

names = sorted(n for n in os.listdir(SEEDED) if os.path.isdir(os.path.join(SEEDED, n)))
flt = [a for a in sys.argv[1:] if not a.startswith("--")]
if flt:
    names = [n for n in names if any(f in n for f in flt)]
out = {}
with ThreadPoolExecutor(8) as ex:
    for name, res in ex.map(run_one, names):
        own = name.split("-")[0]
        caught = [p for p, (rc, _) in res.items() if rc == 1] if "_apply" not in res else []
        err = [p for p, (rc, _) in res.items() if rc == 2] if "_apply" not in res else []
        tag = "FALSE-ALARM" if caught else ("ANALYSIS-ERROR" if err else "silent")
        print(f"{name:10s} {tag:16s} violations={caught} errors={err}")
        for p, v in res.items():
            if p == "_apply":
                print("     ", v)
            else:
                print(f"      {p}: {v[1][:170]}")
        out[name] = {"caught_by": caught, "analysis_errors": err}
json.dump(out, open("/verif/benign/RESULTS.json", "w"), indent=1)
