#!/venv/bin/python
"""show_norm.py <patchdir-or-name> <relfile> [function]  - print the normalised
source of a function of a patched scratch copy (debugging aid)."""
import ast, os, shutil, subprocess, sys, tempfile
sys.path.insert(0, "/verif")
name, rel = sys.argv[1], sys.argv[2]
fn = sys.argv[3] if len(sys.argv) > 3 else None
pd = name if os.path.isdir(name) else (f"/verif/benign/{name}" if os.path.isdir(f"/verif/benign/{name}") else f"/verif/seeded/{name}")
d = tempfile.mkdtemp(prefix="sa_norm_")
try:
    shutil.copytree("/repo", os.path.join(d, "r"), ignore=shutil.ignore_patterns("__pycache__", ".git", "doc", "examples"))
    subprocess.run(["patch", "-s", "-p1", "-d", os.path.join(d, "r"), "-i", os.path.join(pd, "patch.diff")], check=True)
    from sa.loader import Repo
    repo = Repo(os.path.join(d, "r"))
    for m in repo.modules.values():
        if m.relpath == rel:
            print("# stats:", m.normalized)
            for node in ast.walk(m.tree):
                if isinstance(node, ast.FunctionDef) and (fn is None or node.name == fn):
                    print(ast.unparse(node))
                    print()
finally:
    shutil.rmtree(d, ignore_errors=True)
