#!/venv/bin/python
"""Dev tool: of the variants that no check reports (union_sens.py output), which
ones still pass the repository's test-suite?  (Those are the realistic misses.)"""
import ast, json, os, shutil, subprocess, sys, tempfile, random
sys.path.insert(0, "/verif")
from concurrent.futures import ThreadPoolExecutor
from sa import tables as T
from sa.sensitivity import enumerate_edits, apply_edit, _find_func
from sa.loader import Repo, set_parents

src_json, seed, limit = sys.argv[1], int(sys.argv[2]), int(sys.argv[3])
res = json.load(open(src_json))
silent = {(x["file"], x["function"], x["edit"], x["line"]) for x in res if not x["detected"] and not x["errors"]}
repo = Repo("/repo")
quals = sorted({q for qs in T.SENSITIVITY_FUNCS.values() for q in qs})
jobs = []
for q in quals:
    f = repo.find_func(q)
    if f is None:
        continue
    for e in enumerate_edits(f.node):
        jobs.append((f.relfile, f.local, e))
random.Random(seed).shuffle(jobs)
jobs = jobs[:limit]


def run(job):
    relpath, local, edit = job
    src = open(os.path.join("/repo", relpath)).read()
    tree = ast.parse(src)
    set_parents(tree)
    fnode = _find_func(tree, local)
    line, desc = apply_edit(fnode, edit)
    if (relpath, local, desc, line) not in silent:
        return None
    ast.fix_missing_locations(tree)
    d = tempfile.mkdtemp(prefix="sa_surv_")
    try:
        r = os.path.join(d, "r")
        shutil.copytree("/repo", r, ignore=shutil.ignore_patterns("__pycache__", ".git", "doc", "examples"))
        open(os.path.join(r, relpath), "w").write(ast.unparse(tree) + "\n")
        t = subprocess.run(["/venv/bin/python", "-m", "pytest", "-q", "-x", "-p", "no:cacheprovider", "--deselect", "cobyqa/tests/test_main.py::TestMinimize::test_fixed"],
                           capture_output=True, text=True, cwd=r, env=dict(os.environ, PYTHONPATH=r), timeout=600)
        return {"file": relpath, "function": local, "line": line, "edit": desc, "tests_pass": t.returncode == 0}
    except subprocess.TimeoutExpired:
        return {"file": relpath, "function": local, "line": line, "edit": desc, "tests_pass": False, "timeout": True}
    finally:
        shutil.rmtree(d, ignore_errors=True)


with ThreadPoolExecutor(14) as ex:
    out = [x for x in ex.map(run, jobs) if x]
json.dump(out, sys.stdout, indent=0)
sys.stderr.write(f"{sum(1 for x in out if x['tests_pass'])} of {len(out)} silent variants pass the tests\n")
