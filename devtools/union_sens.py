#!/venv/bin/python
"""Dev tool: every single-edit variant (sa/sensitivity.py edit kinds) of every
anchor function is analysed by ALL claimed checks in one process; prints the
edits that no check reports.  usage: union_sens.py [max] [seed] > out.json"""
import ast, importlib, json, os, random, sys, multiprocessing as mp
sys.path.insert(0, "/verif")
from sa import tables as T
from sa.sensitivity import enumerate_edits, apply_edit, _find_func
from sa.loader import Repo, AnalysisError, set_parents

PROPS = [p for p in T.SENSITIVITY_FUNCS]


def base_keys():
    from sa.engine import Context
    from sa.report import Report
    ctx = Context("/repo")
    out = {}
    for p in PROPS:
        rep = Report(p, "quick", 0)
        importlib.import_module(f"sa.rules.{p.lower()}").run(ctx, rep)
        out[p] = {f.key for f in rep.findings}
    return out


def worker(args):
    relpath, local, edit, base = args
    from sa.engine import Context
    from sa.report import Report
    src = open(os.path.join("/repo", relpath)).read()
    tree = ast.parse(src)
    set_parents(tree)
    fnode = _find_func(tree, local)
    if fnode is None:
        return None
    line, desc = apply_edit(fnode, edit)
    ast.fix_missing_locations(tree)
    try:
        new_src = ast.unparse(tree)
        ctx = Context("/repo", overlay={relpath: new_src})
    except Exception as exc:
        return {"file": relpath, "function": local, "line": line, "edit": desc, "detected": [], "errors": ["context:" + repr(exc)[:80]]}
    det, err = [], []
    for p in PROPS:
        try:
            rep = Report(p, "quick", 0)
            importlib.import_module(f"sa.rules.{p.lower()}").run(ctx, rep)
            if any(f.key not in base[p] for f in rep.findings):
                det.append(p)
        except AnalysisError:
            err.append(p)
        except Exception as exc:
            err.append(p + ":CRASH:" + repr(exc)[:60])
    return {"file": relpath, "function": local, "line": line, "edit": desc, "detected": det, "errors": err}


if __name__ == "__main__":
    limit = int(sys.argv[1]) if len(sys.argv) > 1 else 10**9
    seed = int(sys.argv[2]) if len(sys.argv) > 2 else 0
    repo = Repo("/repo")
    quals = sorted({q for qs in T.SENSITIVITY_FUNCS.values() for q in qs})
    base = base_keys()
    jobs = []
    for q in quals:
        f = repo.find_func(q)
        if f is None:
            continue
        for e in enumerate_edits(f.node):
            jobs.append((f.relfile, f.local, e, base))
    random.Random(seed).shuffle(jobs)
    jobs = jobs[:limit]
    sys.stderr.write(f"{len(jobs)} variants\n")
    with mp.Pool(int(os.environ.get("NPROC", "12"))) as pool:
        res = [r for r in pool.imap_unordered(worker, jobs, chunksize=2) if r]
    json.dump(res, sys.stdout, indent=0)
    n_det = sum(1 for r in res if r["detected"])
    n_err = sum(1 for r in res if not r["detected"] and r["errors"])
    sys.stderr.write(f"detected {n_det}, only-errors {n_err}, silent {len(res) - n_det - n_err} of {len(res)}\n")
