#!/venv/bin/python
"""Dev-time differential test of sa/normalize.py (not part of any check): for
every benign / seeded patch, write the *normalised* modules back as source into
a scratch copy and run the repository's test-suite (and the seeded demo, which
must still fail).  A normalisation that changed behaviour shows up here."""
import ast, json, os, shutil, subprocess, sys, tempfile
from concurrent.futures import ThreadPoolExecutor
sys.path.insert(0, "/verif")


def run(args):
    kind, name = args
    pd = f"/verif/{kind}/{name}"
    d = tempfile.mkdtemp(prefix="sa_vn_")
    try:
        r = os.path.join(d, "r")
        shutil.copytree("/repo", r, ignore=shutil.ignore_patterns("__pycache__", ".git", "doc", "examples"))
        subprocess.run(["patch", "-s", "-p1", "-d", r, "-i", os.path.join(pd, "patch.diff")], check=True)
        code = f"""
import sys, ast
sys.path.insert(0, '/verif')
from sa.loader import Repo
repo = Repo({r!r})
n = 0
for m in repo.modules.values():
    if any(m.normalized.values()):
        n += 1
        open({r!r} + '/' + m.relpath, 'w').write(ast.unparse(m.tree) + '\\n')
        print('NORM', m.relpath, {{k: v for k, v in m.normalized.items() if v}})
print('MODULES', n)
"""
        p = subprocess.run(["/venv/bin/python", "-c", code], capture_output=True, text=True)
        if p.returncode != 0:
            return name, "NORMALISER-CRASH", p.stderr[-300:]
        info = [l for l in p.stdout.splitlines() if l.startswith("NORM")]
        if "MODULES 0" in p.stdout:
            return name, "identity", ""
        t = subprocess.run(["/venv/bin/python", "-m", "pytest", "-q", "-x", "-p", "no:cacheprovider", "--deselect", "cobyqa/tests/test_main.py::TestMinimize::test_fixed"],
                           capture_output=True, text=True, cwd=r, env=dict(os.environ, PYTHONPATH=r))
        tail = t.stdout.strip().splitlines()[-1] if t.stdout.strip() else t.stderr[-200:]
        res = "tests-pass" if t.returncode == 0 else "TESTS-FAIL"
        if kind == "seeded" and os.path.exists(os.path.join(pd, "demo.py")):
            dm = subprocess.run(["/venv/bin/python", os.path.join(pd, "demo.py")], capture_output=True, text=True, cwd=r, env=dict(os.environ, PYTHONPATH=r), timeout=900)
            res += " demo-still-fails" if dm.returncode != 0 else " DEMO-PASSES(bug lost)"
        return name, res, "; ".join(info)[:300] + " | " + tail
    finally:
        shutil.rmtree(d, ignore_errors=True)


jobs = []
flt = sys.argv[1:]
for kind in ("benign", "seeded"):
    for n in sorted(os.listdir(f"/verif/{kind}")):
        if os.path.isdir(f"/verif/{kind}/{n}") and (not flt or any(f in n for f in flt)):
            jobs.append((kind, n))
with ThreadPoolExecutor(12) as ex:
    for name, res, info in ex.map(run, jobs):
        if res != "identity":
            print(f"{name:10s} {res:40s} {info}")
