"""Scalar affine normaliser: expression -> {symbol: coeff, "": const}."""
from __future__ import annotations

import ast


class NotAffine(Exception):
    pass


def affine(e, sym_of, const_of=None):
    """sym_of(node) -> symbol name or None; const_of(node) -> float or None."""
    s = sym_of(e)
    if s is not None:
        return {s: 1.0}
    if const_of is not None:
        c = const_of(e)
        if c is not None:
            return {"": float(c)}
    if isinstance(e, ast.Constant) and isinstance(e.value, (int, float)) and not isinstance(e.value, bool):
        return {"": float(e.value)}
    if isinstance(e, ast.UnaryOp) and isinstance(e.op, ast.USub):
        return {k: -v for k, v in affine(e.operand, sym_of, const_of).items()}
    if isinstance(e, ast.UnaryOp) and isinstance(e.op, ast.UAdd):
        return affine(e.operand, sym_of, const_of)
    if isinstance(e, ast.BinOp):
        if isinstance(e.op, (ast.Add, ast.Sub)):
            a = affine(e.left, sym_of, const_of)
            b = affine(e.right, sym_of, const_of)
            out = dict(a)
            sg = 1.0 if isinstance(e.op, ast.Add) else -1.0
            for k, v in b.items():
                out[k] = out.get(k, 0.0) + sg * v
            return out
        if isinstance(e.op, ast.Mult):
            a = affine(e.left, sym_of, const_of)
            b = affine(e.right, sym_of, const_of)
            if set(a) <= {""}:
                c = a.get("", 0.0)
                return {k: c * v for k, v in b.items()}
            if set(b) <= {""}:
                c = b.get("", 0.0)
                return {k: c * v for k, v in a.items()}
            raise NotAffine("product of two symbolic terms")
        if isinstance(e.op, ast.Div):
            a = affine(e.left, sym_of, const_of)
            b = affine(e.right, sym_of, const_of)
            if set(b) <= {""} and b.get("", 0.0) != 0.0:
                c = b[""]
                return {k: v / c for k, v in a.items()}
            raise NotAffine("division by a symbolic term")
    if isinstance(e, ast.Call) and getattr(e.func, "id", None) == "float" and len(e.args) == 1:
        return affine(e.args[0], sym_of, const_of)
    raise NotAffine(type(e).__name__)
