"""Allocation-kind / alias analysis (DESIGN A.6): is an expression a fresh
allocation, or may it alias one of a set of root values?

kind(expr) in {"fresh", "alias"}; alias expressions carry the set of names /
attribute chains they may alias.  Flow-sensitive for locals (reaching
definitions), field-insensitive beyond one level.
"""
from __future__ import annotations

import ast

from .astutil import norm, dotted

FRESH_FUNCS = {
    "array", "copy", "zeros", "ones", "empty", "full", "zeros_like", "ones_like", "empty_like",
    "full_like", "eye", "arange", "linspace", "clip", "minimum", "maximum", "abs", "sqrt", "block",
    "concatenate", "vstack", "hstack", "stack", "outer", "dot", "where", "diag", "isnan", "isfinite",
    "isinf", "flatnonzero", "count_nonzero", "sum", "max", "min", "nanmin", "nanmax", "argmax", "argmin",
    "norm", "float", "int", "bool", "dict", "list", "tuple", "set", "len", "deepcopy", "r_", "c_",
    "exact_1d_array", "exact_2d_array", "nan_to_num", "fmin", "fmax", "sign", "all", "any", "tile",
    "repeat", "cumsum", "sort", "unique", "logical_and", "logical_or", "logical_not", "array_equal",
    "str", "format", "range",
    "enumerate", "zip", "sorted", "reversed", "frozenset", "round", "signature", "getattr", "type",
}
FRESH_METHODS = {"copy", "astype", "tolist", "flatten", "sum", "max", "min", "dot", "item", "mean", "get", "keys", "values", "items", "format", "join"}
VIEW_FUNCS = {"asarray", "atleast_1d", "atleast_2d", "squeeze", "reshape", "ravel", "broadcast_arrays", "broadcast_to", "transpose", "asanyarray", "ascontiguousarray", "real", "expand_dims"}
VIEW_METHODS = {"reshape", "ravel", "view", "squeeze", "transpose", "T"}
# the object is new but it keeps references to (views of) its arguments
WRAP_FUNCS = {"Bounds", "LinearConstraint", "NonlinearConstraint", "OptimizeResult", "PreparedConstraint", "partial"}


def _short(call):
    d = dotted(call.func)
    return d.split(".")[-1] if d else None


class Alias:
    def __init__(self, ctx, f):
        self.ctx = ctx
        self.f = f
        self.cfg = ctx.cfg(f)
        self.rd = self.cfg.reaching_defs()
        self._memo = {}

    def roots(self, e, at=None, depth=0, seen=None):
        """Set of alias roots of expression e: names of parameters / attribute
        chains it may share memory with; empty set = fresh."""
        seen = seen or set()
        if depth > 25:
            return {"?depth"}
        if isinstance(e, ast.Constant):
            return set()
        if isinstance(e, (ast.BinOp, ast.UnaryOp, ast.Compare, ast.BoolOp, ast.JoinedStr, ast.ListComp, ast.GeneratorExp, ast.DictComp, ast.SetComp, ast.Dict, ast.Lambda)):
            if isinstance(e, ast.BoolOp):
                out = set()
                for v in e.values:
                    out |= self.roots(v, at, depth + 1, seen)
                return out
            return set()
        if isinstance(e, (ast.Tuple, ast.List, ast.Set)):
            out = set()
            for v in e.elts:
                out |= self.roots(v, at, depth + 1, seen)
            return out
        if isinstance(e, ast.IfExp):
            return self.roots(e.body, at, depth + 1, seen) | self.roots(e.orelse, at, depth + 1, seen)
        if isinstance(e, ast.Starred):
            return self.roots(e.value, at, depth + 1, seen)
        if isinstance(e, ast.Name):
            return self._name(e, at if at is not None else e, depth, seen)
        if isinstance(e, ast.Attribute):
            if e.attr == "T":
                return self.roots(e.value, at, depth + 1, seen)
            base = self.roots(e.value, at, depth + 1, seen)
            ch = norm(e)
            # attribute of a root: still reachable from that root
            return {f"{b}.{e.attr}" if not b.startswith("?") else b for b in base} | ({ch} if not base and isinstance(e.value, ast.Name) else set())
        if isinstance(e, ast.Subscript):
            base = self.roots(e.value, at, depth + 1, seen)
            if not base:
                return set()
            if self._index_kind(e.slice, at if at is not None else e) == "fancy":
                return set()
            return base
        if isinstance(e, ast.Call):
            s = _short(e)
            fn = e.func
            if isinstance(fn, ast.Attribute) and not _is_module_attr(fn):
                if fn.attr in FRESH_METHODS:
                    return set()
                if fn.attr in VIEW_METHODS:
                    return self.roots(fn.value, at, depth + 1, seen)
            if s in FRESH_FUNCS:
                return set()
            if s in WRAP_FUNCS:
                out = set()
                for a in list(e.args) + [kw.value for kw in e.keywords]:
                    out |= self.roots(a, at, depth + 1, seen)
                return out
            if s in VIEW_FUNCS and e.args:
                out = set()
                for a in (e.args if s == "broadcast_arrays" else e.args[:1]):
                    out |= self.roots(a, at, depth + 1, seen)
                return out
            # repo function: fresh if it returns fresh
            for t in self.ctx.res.call_targets(e, self.f):
                if t.kind == "repo":
                    if t.detail == "ctor":
                        return set()
                    ok, _ = returns_fresh(self.ctx, t.func, seen)
                    if ok:
                        return set()
                    # may return (a view of) an argument or a field
                    rr = return_roots(self.ctx, t.func, seen)
                    g = t.func
                    params = g.params[1:] if t.detail in ("bound", "call") and g.params else g.params
                    out = set()
                    precise = True
                    for r in rr:
                        base = r.split(".")[0].split("[")[0]
                        if base in params and not r.startswith("?"):
                            i = params.index(base)
                            arg = e.args[i] if i < len(e.args) and not any(isinstance(a, ast.Starred) for a in e.args[: i + 1]) else None
                            for kw in e.keywords:
                                if kw.arg == base:
                                    arg = kw.value
                            if arg is None:
                                precise = False
                            else:
                                out |= self.roots(arg, at, depth + 1, seen)
                        else:
                            precise = False
                    if precise:
                        return out
                    for a in e.args:
                        out |= self.roots(a, at, depth + 1, seen)
                    return out | {f"?result-of:{t.func.local}"}
            return {f"?call:{s}"}
        return {"?expr"}

    def _index_kind(self, sl, at):
        if isinstance(sl, ast.Slice):
            return "basic"
        if isinstance(sl, ast.Tuple):
            kinds = [self._index_kind(x, at) for x in sl.elts]
            return "fancy" if "fancy" in kinds else "basic"
        if isinstance(sl, ast.Constant):
            return "basic" if sl.value is not None else "basic"
        if isinstance(sl, (ast.Compare, ast.BoolOp)):
            return "fancy"
        if isinstance(sl, ast.UnaryOp) and isinstance(sl.op, ast.Invert):
            return "fancy"
        if isinstance(sl, ast.UnaryOp):
            return self._index_kind(sl.operand, at)
        if isinstance(sl, ast.Call):
            return "fancy"
        if isinstance(sl, ast.List):
            return "fancy"
        if isinstance(sl, ast.Name):
            # defined by a comparison / mask / array expression -> fancy; int -> basic
            nid = self.cfg.node_containing(at)
            for dn in self.rd.get(nid, {}).get(sl.id, ()) if nid is not None else ():
                if dn == self.cfg.entry:
                    continue
                s = self.cfg.nodes[dn].ast
                if isinstance(s, ast.Assign) and isinstance(s.value, (ast.Compare, ast.BoolOp, ast.BinOp)) and not isinstance(s.value, ast.BinOp):
                    return "fancy"
                if isinstance(s, ast.Assign) and isinstance(s.value, ast.BinOp) and isinstance(s.value.op, (ast.BitAnd, ast.BitOr)):
                    return "fancy"
            return "basic"
        if isinstance(sl, ast.Attribute):
            return "fancy" if "idx" in sl.attr or "mask" in sl.attr else "basic"
        return "basic"

    def _name(self, e, at, depth, seen):
        nid = self.cfg.node_containing(at)
        defs = self.rd.get(nid, {}).get(e.id) if nid is not None else None
        if defs is None:
            if e.id in self.f.params or e.id in self.f.kwonly:
                return {e.id}
            return set()  # module-level name / constant
        key = (e.id, frozenset(defs))
        memo = self._memo
        if key in memo:
            return memo[key] if memo[key] is not None else set()
        memo[key] = None  # in progress: cycles contribute nothing new
        out = set()
        work = list(defs)
        visited = set()
        while work:
            dn = work.pop()
            if dn in visited:
                continue
            visited.add(dn)
            if dn == self.cfg.entry:
                out.add(e.id)
                continue
            node = self.cfg.nodes[dn]
            s = node.ast
            if node.kind == "for":
                out |= {r + "[*]" for r in self.roots(s.iter, s.iter, depth + 1, seen)}
            elif isinstance(s, ast.Assign):
                strong = any(isinstance(t, ast.Name) and t.id == e.id for t in s.targets)
                tup = any(isinstance(t, (ast.Tuple, ast.List)) and any(isinstance(x, ast.Name) and x.id == e.id for x in ast.walk(t)) for t in s.targets)
                if strong or tup:
                    out |= self.roots(s.value, s, depth + 1, seen)
                else:
                    # element store: the container itself is unchanged
                    work.extend(self.rd.get(dn, {}).get(e.id, ()))
            elif isinstance(s, (ast.AugAssign, ast.Expr, ast.Delete)):
                # in-place update / mutating call: same object as before
                work.extend(self.rd.get(dn, {}).get(e.id, ()))
            elif node.kind == "with":
                for it in s.items:
                    if it.optional_vars is not None and any(isinstance(x, ast.Name) and x.id == e.id for x in ast.walk(it.optional_vars)):
                        out |= self.roots(it.context_expr, it.context_expr, depth + 1, seen)
            elif isinstance(s, ast.AnnAssign) and s.value is not None:
                out |= self.roots(s.value, s, depth + 1, seen)
        memo[key] = out
        return out


def _is_module_attr(fn):
    """np.xxx / np.linalg.xxx style callee"""
    base = fn
    while isinstance(base, ast.Attribute):
        base = base.value
    return isinstance(base, ast.Name) and base.id in ("np", "numpy", "scipy", "copy", "math", "warnings", "inspect")


_fresh_cache = {}
_roots_cache = {}


def return_roots(ctx, g, seen=None):
    key = (id(ctx), g.qual)
    if key in _roots_cache:
        return _roots_cache[key]
    seen = set(seen or ())
    _roots_cache[key] = {"?recursive"}
    al = Alias(ctx, g)
    out = set()
    for node in ast.walk(g.node):
        if isinstance(node, ast.Return) and node.value is not None and ctx.res._owner(node) is g.node:
            out |= al.roots(node.value, node.value, 0, set())
    _roots_cache[key] = out
    return out


def returns_fresh(ctx, g, seen=None):
    """Every return expression of g is a fresh allocation (not a parameter,
    not a field, not a view of either)."""
    key = (id(ctx), g.qual)
    if key in _fresh_cache:
        return _fresh_cache[key]
    seen = set(seen or ())
    if g.qual in seen:
        return True, "recursive"
    seen.add(g.qual)
    al = Alias(ctx, g)
    why = []
    ok = True
    n = 0
    for node in ast.walk(g.node):
        if isinstance(node, ast.Return) and node.value is not None and ctx.res._owner(node) is g.node:
            n += 1
            r = al.roots(node.value, node.value, 0, {("fn", q) for q in seen})
            if r:
                ok = False
                why.append(f"`{norm(node.value)[:50]}` may alias {sorted(r)[:3]}")
            else:
                why.append(f"`{norm(node.value)[:40]}` fresh")
    res = (ok and n > 0, "; ".join(why) or "no return")
    _fresh_cache[key] = res
    return res
