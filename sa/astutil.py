"""Small AST helpers shared by the rules."""
from __future__ import annotations

import ast
import copy


def norm(node):
    """Normalised text of a construct (position independent)."""
    if node is None:
        return "None"
    if isinstance(node, str):
        return node
    try:
        s = ast.unparse(node)
    except Exception:  # pragma: no cover
        s = ast.dump(node)
    return " ".join(s.split())


def short(node, n=90):
    s = norm(node)
    return s if len(s) <= n else s[: n - 3] + "..."


def parent(node):
    return getattr(node, "_parent", None)


def ancestors(node):
    p = parent(node)
    while p is not None:
        yield p
        p = parent(p)


def enclosing_stmt(node):
    cur = node
    while cur is not None and not isinstance(cur, ast.stmt):
        cur = parent(cur)
    return cur


def in_lambda(node, stop=None):
    for a in ancestors(node):
        if a is stop:
            return None
        if isinstance(a, ast.Lambda):
            return a
    return None


def is_conditional_subexpr(node):
    """True when `node` is evaluated conditionally *within its own statement*:
    right operand of and/or, branch of a conditional expression, inside a
    comprehension element/condition, or inside a lambda body."""
    cur = node
    p = parent(cur)
    while p is not None and not isinstance(p, ast.stmt):
        if isinstance(p, ast.BoolOp) and p.values and p.values[0] is not cur:
            return True
        if isinstance(p, ast.IfExp) and (p.body is cur or p.orelse is cur):
            return True
        if isinstance(p, (ast.ListComp, ast.SetComp, ast.GeneratorExp, ast.DictComp)):
            # the first iterable is evaluated unconditionally
            if not (p.generators and p.generators[0].iter is cur):
                return True
        if isinstance(p, ast.comprehension):
            gp = parent(p)
            if gp is not None and gp.generators and gp.generators[0] is p and p.iter is cur:
                cur = gp
                p = parent(gp)
                continue
            return True
        if isinstance(p, ast.Lambda):
            return True
        if isinstance(p, ast.Compare) and len(p.ops) > 1 and p.left is not cur and p.comparators[0] is not cur:
            return True
        cur = p
        p = parent(cur)
    return False


def names_in(node):
    return {n.id for n in ast.walk(node) if isinstance(n, ast.Name)}


def attr_chain(node):
    """`a.b.c` -> ["a","b","c"]; None if the expression is not a pure chain."""
    parts = []
    cur = node
    while isinstance(cur, ast.Attribute):
        parts.append(cur.attr)
        cur = cur.value
    if isinstance(cur, ast.Name):
        parts.append(cur.id)
        return list(reversed(parts))
    return None


def dotted(node):
    ch = attr_chain(node)
    return ".".join(ch) if ch else None


def is_self_attr(node, self_name, attr=None):
    return (
        isinstance(node, ast.Attribute)
        and isinstance(node.value, ast.Name)
        and node.value.id == self_name
        and (attr is None or node.attr == attr)
    )


def call_name(call):
    """Dotted name of the callee expression (or None)."""
    if isinstance(call, ast.Call):
        return dotted(call.func)
    return None


def const_value(node):
    if isinstance(node, ast.Constant):
        return node.value
    if isinstance(node, ast.UnaryOp) and isinstance(node.op, ast.USub):
        v = const_value(node.operand)
        if isinstance(v, (int, float)):
            return -v
    return None


def walk_no_nested(node):
    """ast.walk that does not enter nested function definitions / lambdas /
    classes (the root itself may be a def)."""
    todo = [node]
    first = True
    while todo:
        n = todo.pop()
        yield n
        for ch in ast.iter_child_nodes(n):
            if isinstance(ch, (ast.FunctionDef, ast.AsyncFunctionDef, ast.ClassDef)):
                continue
            todo.append(ch)
        first = False


def stmts_in(body):
    """All statements (recursively) in a list of statements, source order."""
    out = []
    for s in body:
        out.append(s)
        for field in ("body", "orelse", "finalbody"):
            sub = getattr(s, field, None)
            if isinstance(sub, list) and sub and isinstance(sub[0], ast.stmt):
                out += stmts_in(sub)
        if isinstance(s, ast.Try):
            for h in s.handlers:
                out += stmts_in(h.body)
    return out


def enclosing_loops(node, stop=None):
    out = []
    for a in ancestors(node):
        if a is stop:
            break
        if isinstance(a, (ast.For, ast.While, ast.AsyncFor)):
            # only if node is in the body (not in orelse / iter)
            out.append(a)
        if isinstance(a, (ast.FunctionDef, ast.AsyncFunctionDef)):
            break
    return out


def in_comprehension(node):
    for a in ancestors(node):
        if isinstance(a, ast.stmt):
            return False
        if isinstance(a, (ast.ListComp, ast.SetComp, ast.GeneratorExp, ast.DictComp)):
            return True
    return False


def clone(tree):
    return copy.deepcopy(tree)


def cmp_op_str(op):
    return {
        ast.Lt: "<", ast.LtE: "<=", ast.Gt: ">", ast.GtE: ">=", ast.Eq: "==",
        ast.NotEq: "!=", ast.Is: "is", ast.IsNot: "is not", ast.In: "in",
        ast.NotIn: "not in",
    }[type(op)]


FLIP = {"<": ">", "<=": ">=", ">": "<", ">=": "<=", "==": "==", "!=": "!="}
NEG = {"<": ">=", "<=": ">", ">": "<=", ">=": "<", "==": "!=", "!=": "=="}


def owner_function(node):
    """the innermost FunctionDef / Lambda that contains node"""
    cur = getattr(node, "_parent", None)
    while cur is not None:
        if isinstance(cur, (ast.FunctionDef, ast.AsyncFunctionDef, ast.Lambda)):
            return cur
        cur = getattr(cur, "_parent", None)
    return None
