"""Resolved call graph (explicit calls, property accesses, lambdas)."""
from __future__ import annotations

import ast
from collections import deque

from .astutil import enclosing_stmt, is_conditional_subexpr, in_lambda, norm


class CallEvent:
    __slots__ = ("func", "node", "targets", "stmt", "conditional", "lam", "kind")

    def __init__(self, func, node, targets, stmt, conditional, lam, kind):
        self.func = func
        self.node = node
        self.targets = targets
        self.stmt = stmt
        self.conditional = conditional
        self.lam = lam
        self.kind = kind  # "call" | "getter" | "setter"

    @property
    def line(self):
        return getattr(self.node, "lineno", 0)

    def text(self):
        return norm(self.node)

    def repo_targets(self):
        return [t.func for t in self.targets if t.kind == "repo"]

    def sink_targets(self):
        return [t for t in self.targets if t.kind == "sink"]

    def __repr__(self):
        return f"<CallEvent {self.func.local}:{self.line} {self.text()[:50]}>"


def lam_key(node):
    return f"<lambda@{id(node)}>"


class CallGraph:
    def __init__(self, repo, resolver):
        self.repo = repo
        self.res = resolver
        self.events = {}
        self.edges = {}
        self.lam_owner = {}
        self.n_calls = 0
        self.n_unknown = 0
        self.unknown = []
        for f in repo.funcs.values():
            self._scan(f)

    def _scan(self, f):
        evs = []
        self.events[f.qual] = evs
        self.edges.setdefault(f.qual, set())
        for node in ast.walk(f.node):
            # do not descend into nested function definitions twice: nested
            # defs are separate Funcs, but ast.walk visits them; skip nodes
            # whose owner is a nested def
            if self._owner_def(node) is not f.node:
                continue
            if isinstance(node, ast.Call):
                targets = self.res.call_targets(node, f)
                lam = in_lambda(node, f.node)
                ev = CallEvent(f, node, targets, enclosing_stmt(node), is_conditional_subexpr(node), lam, "call")
                evs.append(ev)
                self.n_calls += 1
                if any(t.kind == "unknown" for t in targets):
                    self.n_unknown += 1
                    self.unknown.append(ev)
                self._add_edges(f, ev)
            elif isinstance(node, ast.Attribute):
                gs = self.res.attr_targets(node, f)
                if gs:
                    from .types import Target
                    targets = [Target("repo", g.qual, g, g.kind) for g in gs]
                    lam = in_lambda(node, f.node)
                    kind = "getter" if isinstance(node.ctx, ast.Load) else "setter"
                    ev = CallEvent(f, node, targets, enclosing_stmt(node), is_conditional_subexpr(node), lam, kind)
                    evs.append(ev)
                    self._add_edges(f, ev)

    @staticmethod
    def _owner_def(node):
        p = node
        while p is not None:
            p = getattr(p, "_parent", None)
            if isinstance(p, (ast.FunctionDef, ast.AsyncFunctionDef)):
                return p
        return None

    def _add_edges(self, f, ev):
        src = f.qual if ev.lam is None else lam_key(ev.lam)
        if ev.lam is not None:
            self.lam_owner[lam_key(ev.lam)] = f
        es = self.edges.setdefault(src, set())
        for t in ev.targets:
            if t.kind == "repo":
                es.add(t.name)
            elif t.kind == "lambda" and t.detail is not None:
                es.add(lam_key(t.detail))

    # ------------------------------------------------------------------
    def events_of(self, qual, include_lambda=True):
        evs = self.events.get(qual, [])
        if include_lambda:
            return evs
        return [e for e in evs if e.lam is None]

    def lambda_events(self, key):
        owner = self.lam_owner.get(key)
        if owner is None:
            return []
        return [e for e in self.events[owner.qual] if e.lam is not None and lam_key(e.lam) == key]

    def node_events(self, key):
        if key.startswith("<lambda@"):
            return self.lambda_events(key)
        return self.events_of(key, include_lambda=False)

    def reach(self, src, edge_ok=None):
        """BFS; returns dict node -> (pred, event) for every reachable node."""
        pred = {src: None}
        dq = deque([src])
        while dq:
            u = dq.popleft()
            for ev in self.node_events(u):
                if edge_ok is not None and not edge_ok(ev):
                    continue
                for t in ev.targets:
                    if t.kind == "repo":
                        v = t.name
                    elif t.kind == "lambda" and t.detail is not None:
                        v = lam_key(t.detail)
                    else:
                        continue
                    if v not in pred:
                        pred[v] = (u, ev)
                        dq.append(v)
        return pred

    def path_to(self, pred, node):
        chain = []
        cur = node
        while pred.get(cur) is not None:
            u, ev = pred[cur]
            chain.append((u, ev))
            cur = u
        chain.reverse()
        return chain

    def fmt_path(self, pred, node):
        parts = []
        for u, ev in self.path_to(pred, node):
            parts.append(f"{self.short(u)}:{ev.line}")
        parts.append(self.short(node))
        return " -> ".join(parts)

    def short(self, key):
        if key.startswith("<lambda@"):
            owner = self.lam_owner.get(key)
            return f"lambda in {owner.local if owner else '?'}"
        return key.split(":", 1)[1] if ":" in key else key

    def callers_of(self, qual):
        out = []
        for evs in self.events.values():
            for ev in evs:
                for t in ev.targets:
                    if t.kind == "repo" and t.name == qual:
                        out.append(ev)
        return out

    def stats(self):
        return {
            "call_sites": self.n_calls,
            "unresolved": self.n_unknown,
            "resolution": round(1.0 - self.n_unknown / max(1, self.n_calls), 4),
        }
