"""Statement-level control-flow graph with dominators, post-dominators,
reaching definitions and a generic forward dataflow solver.

Node kinds: entry, exit (normal return), raise (exceptional exit), stmt,
test (if/while test), for (loop header), with, handler (except clause).
Edge labels: next, true, false, loop, exit, exc, break, continue, return,
raise.
"""
from __future__ import annotations

import ast

from .astutil import norm


class Node:
    __slots__ = ("id", "kind", "ast", "extra")

    def __init__(self, id_, kind, node, extra=None):
        self.id = id_
        self.kind = kind
        self.ast = node
        self.extra = extra

    @property
    def line(self):
        return getattr(self.ast, "lineno", 0)

    def expr(self):
        """The expression/statement evaluated at this node."""
        if self.kind == "test":
            return self.ast.test
        if self.kind == "for":
            return self.ast.iter
        if self.kind == "with":
            return self.ast.items
        if self.kind == "handler":
            return self.ast.type
        return self.ast

    def text(self):
        if self.kind in ("entry", "exit", "raise"):
            return self.kind
        if self.kind == "test":
            return f"test({norm(self.ast.test)})"
        if self.kind == "for":
            return f"for {norm(self.ast.target)} in {norm(self.ast.iter)}"
        if self.kind == "handler":
            return f"except {norm(self.ast.type) if self.ast.type else ''}"
        if self.kind == "with":
            return "with " + ", ".join(norm(i.context_expr) for i in self.ast.items)
        return norm(self.ast)

    def __repr__(self):
        return f"<N{self.id} {self.kind} L{self.line} {self.text()[:40]}>"


def _is_true_const(e):
    return isinstance(e, ast.Constant) and bool(e.value) is True


class CFG:
    def __init__(self, fnode, body=None):
        self.fnode = fnode
        self.nodes = []
        self.succ = {}
        self.pred = {}
        self.by_ast = {}
        self.entry = self._new("entry", fnode).id
        self.exit = self._new("exit", fnode).id
        self.raise_exit = self._new("raise", fnode).id
        self._loops = []
        self._tries = []
        body = fnode.body if body is None else body
        frontier = self._block(body, [(self.entry, "next")])
        self._connect(frontier, self.exit)
        self._dom = None
        self._pdom = None

    # -- construction -------------------------------------------------------
    def _new(self, kind, node, extra=None):
        n = Node(len(self.nodes), kind, node, extra)
        self.nodes.append(n)
        self.succ[n.id] = []
        self.pred[n.id] = []
        if kind not in ("entry", "exit", "raise"):
            self.by_ast.setdefault(id(node), n.id)
        return n

    def _edge(self, a, b, label):
        if (b, label) not in self.succ[a]:
            self.succ[a].append((b, label))
            self.pred[b].append((a, label))

    def _connect(self, frontier, target):
        for a, label in frontier:
            self._edge(a, target, label)

    def _block(self, stmts, frontier):
        for s in stmts:
            frontier = self._stmt(s, frontier)
        return frontier

    def _stmt(self, s, frontier):
        if isinstance(s, ast.If):
            t = self._new("test", s)
            self._connect(frontier, t.id)
            ft = self._block(s.body, [(t.id, "true")])
            ff = self._block(s.orelse, [(t.id, "false")]) if s.orelse else [(t.id, "false")]
            return ft + ff
        if isinstance(s, ast.While):
            t = self._new("test", s)
            self._connect(frontier, t.id)
            ctx = {"breaks": [], "head": t.id}
            self._loops.append(ctx)
            fb = self._block(s.body, [(t.id, "true")])
            self._loops.pop()
            for a, label in fb:
                self._edge(a, t.id, "next" if label in ("next",) else label)
            out = list(ctx["breaks"])
            if not _is_true_const(s.test):
                if s.orelse:
                    out += self._block(s.orelse, [(t.id, "false")])
                else:
                    out.append((t.id, "false"))
            return out
        if isinstance(s, (ast.For, ast.AsyncFor)):
            h = self._new("for", s)
            self._connect(frontier, h.id)
            ctx = {"breaks": [], "head": h.id}
            self._loops.append(ctx)
            fb = self._block(s.body, [(h.id, "loop")])
            self._loops.pop()
            for a, label in fb:
                self._edge(a, h.id, label)
            out = list(ctx["breaks"])
            if s.orelse:
                out += self._block(s.orelse, [(h.id, "exit")])
            else:
                out.append((h.id, "exit"))
            return out
        if isinstance(s, ast.Try) or s.__class__.__name__ == "TryStar":
            first = len(self.nodes)
            tctx = {"handlers": []}
            self._tries.append(tctx)
            fb = self._block(s.body, frontier)
            self._tries.pop()
            last = len(self.nodes)
            out = []
            handler_nodes = []
            for h in s.handlers:
                hn = self._new("handler", h)
                handler_nodes.append(hn)
            for nid in range(first, last):
                if self.nodes[nid].kind in ("handler",):
                    continue
                for hn in handler_nodes:
                    self._edge(nid, hn.id, "exc")
            # a try body whose first statement raises before any node exists
            for hn, h in zip(handler_nodes, s.handlers):
                out += self._block(h.body, [(hn.id, "next")])
            if s.orelse:
                fb = self._block(s.orelse, fb)
            out += fb
            if s.finalbody:
                out = self._block(s.finalbody, out)
            return out
        if isinstance(s, (ast.With, ast.AsyncWith)):
            w = self._new("with", s)
            self._connect(frontier, w.id)
            return self._block(s.body, [(w.id, "next")])
        if isinstance(s, ast.Return):
            n = self._new("stmt", s)
            self._connect(frontier, n.id)
            self._edge(n.id, self.exit, "return")
            return []
        if isinstance(s, ast.Raise):
            n = self._new("stmt", s)
            self._connect(frontier, n.id)
            if not self._tries:
                self._edge(n.id, self.raise_exit, "raise")
            else:
                # exc edges to the handlers are added by the enclosing try;
                # the exception may also escape them
                self._edge(n.id, self.raise_exit, "raise")
            return []
        if isinstance(s, ast.Break):
            n = self._new("stmt", s)
            self._connect(frontier, n.id)
            if self._loops:
                self._loops[-1]["breaks"].append((n.id, "break"))
            return []
        if isinstance(s, ast.Continue):
            n = self._new("stmt", s)
            self._connect(frontier, n.id)
            if self._loops:
                self._edge(n.id, self._loops[-1]["head"], "continue")
            return []
        if isinstance(s, (ast.FunctionDef, ast.AsyncFunctionDef, ast.ClassDef)):
            n = self._new("stmt", s)
            self._connect(frontier, n.id)
            return [(n.id, "next")]
        if isinstance(s, ast.Match):  # pragma: no cover - not used by the repo
            n = self._new("test", s)
            self._connect(frontier, n.id)
            out = []
            for case in s.cases:
                out += self._block(case.body, [(n.id, "true")])
            out.append((n.id, "false"))
            return out
        n = self._new("stmt", s)
        self._connect(frontier, n.id)
        return [(n.id, "next")]

    # -- queries --------------------------------------------------------------
    def node_of(self, stmt):
        return self.by_ast.get(id(stmt))

    def node_containing(self, astnode):
        """CFG node whose statement/header expression contains `astnode`."""
        cur = astnode
        while cur is not None:
            nid = self.by_ast.get(id(cur))
            if nid is not None:
                n = self.nodes[nid]
                if n.kind in ("test", "for", "with"):
                    # make sure astnode is in the header, not the body
                    hdr = n.expr()
                    hdrs = hdr if isinstance(hdr, list) else [hdr]
                    extra = [n.ast.target] if n.kind == "for" else []
                    for h in hdrs + extra:
                        for sub in ast.walk(h):
                            if sub is astnode:
                                return nid
                    if cur is astnode:
                        return nid
                else:
                    return nid
            cur = getattr(cur, "_parent", None)
        return None

    def succs(self, nid, skip_exc=False):
        return [b for b, l in self.succ[nid] if not (skip_exc and l == "exc")]

    def _compute_dom(self, entry, succ, pred):
        ids = [n.id for n in self.nodes]
        reach = set()
        st = [entry]
        while st:
            u = st.pop()
            if u in reach:
                continue
            reach.add(u)
            st.extend(b for b, _ in succ[u])
        full = set(reach)
        dom = {i: set(full) for i in reach}
        dom[entry] = {entry}
        changed = True
        order = sorted(reach)
        while changed:
            changed = False
            for i in order:
                if i == entry:
                    continue
                ps = [a for a, _ in pred[i] if a in reach]
                if ps:
                    new = set.intersection(*(dom[p] for p in ps)) | {i}
                else:
                    new = {i}
                if new != dom[i]:
                    dom[i] = new
                    changed = True
        return dom

    @property
    def dom(self):
        if self._dom is None:
            self._dom = self._compute_dom(self.entry, self.succ, self.pred)
        return self._dom

    def pdom_for(self, include_raise=False):
        """Post-dominators w.r.t. the normal exit (exceptional exits and exc
        edges are ignored unless include_raise)."""
        key = "_pdom_r" if include_raise else "_pdom_n"
        cached = getattr(self, key, None)
        if cached is not None:
            return cached
        # reverse graph without exc / raise edges
        succ = {i: [] for i in self.succ}
        pred = {i: [] for i in self.succ}
        for a, outs in self.succ.items():
            for b, l in outs:
                if not include_raise and l in ("exc", "raise"):
                    continue
                succ[b].append((a, l))
                pred[a].append((b, l))
        res = self._compute_dom(self.exit, succ, pred)
        setattr(self, key, res)
        return res

    def dominates(self, a, b):
        return b in self.dom and a in self.dom[b]

    def postdominates(self, a, b):
        pd = self.pdom_for()
        return b in pd and a in pd[b]

    def reachable(self, src, avoid=(), skip_exc=False, labels_ok=None):
        """Nodes reachable from src without passing through `avoid` nodes."""
        avoid = set(avoid)
        seen = set()
        st = [src]
        while st:
            u = st.pop()
            if u in seen:
                continue
            seen.add(u)
            for b, l in self.succ[u]:
                if skip_exc and l == "exc":
                    continue
                if labels_ok is not None and not labels_ok(u, b, l):
                    continue
                if b in avoid:
                    continue
                st.append(b)
        return seen

    def reachable_edges(self, starts, avoid=(), skip_exc=False):
        """Nodes reachable starting from a list of (node,label) out-edges."""
        avoid = set(avoid)
        seen = set()
        st = []
        for a, lab in starts:
            for b, l in self.succ[a]:
                if l == lab and b not in avoid:
                    st.append(b)
        while st:
            u = st.pop()
            if u in seen:
                continue
            seen.add(u)
            for b, l in self.succ[u]:
                if skip_exc and l == "exc":
                    continue
                if b in avoid:
                    continue
                st.append(b)
        return seen

    # -- dataflow ---------------------------------------------------------------
    def solve_forward(self, init, transfer, join, equal=None, skip_exc_from=None):
        """Generic forward worklist solver.

        transfer(node, in_state, label) -> out_state along the edge `label`
        (return None to mark the edge infeasible).  join(a, b) -> state.
        Returns dict node id -> in_state.
        """
        eq = equal or (lambda a, b: a == b)
        instate = {self.entry: init}
        work = [self.entry]
        while work:
            u = work.pop()
            s_in = instate[u]
            for b, l in self.succ[u]:
                out = transfer(self.nodes[u], s_in, l)
                if out is None:
                    continue
                if b in instate:
                    new = join(instate[b], out)
                    if eq(new, instate[b]):
                        continue
                    instate[b] = new
                else:
                    instate[b] = out
                work.append(b)
        return instate

    def reaching_defs(self):
        """dict node id -> {var: frozenset(def node ids)} (in-state)."""
        cached = getattr(self, "_rd_cache", None)
        if cached is None:
            cached = self._reaching_defs()
            self._rd_cache = cached
        return cached

    def _reaching_defs(self):
        def transfer(node, state, label):
            ds = defs_of(node)
            if not ds:
                return state
            if label == "exc":
                # the statement may have been interrupted: both old and new
                new = dict(state)
                for v in ds:
                    new[v] = state.get(v, frozenset()) | frozenset({node.id})
                return new
            new = dict(state)
            for v, strong in ds.items():
                if strong:
                    new[v] = frozenset({node.id})
                else:
                    new[v] = state.get(v, frozenset()) | frozenset({node.id})
            return new

        def join(a, b):
            if a is b:
                return a
            out = dict(a)
            for k, v in b.items():
                out[k] = out.get(k, frozenset()) | v
            return out

        init = {}
        a = self.fnode.args
        for p in a.posonlyargs + a.args + a.kwonlyargs:
            init[p.arg] = frozenset({self.entry})
        if a.vararg:
            init[a.vararg.arg] = frozenset({self.entry})
        if a.kwarg:
            init[a.kwarg.arg] = frozenset({self.entry})
        return self.solve_forward(init, transfer, join)

    def dump(self):  # pragma: no cover - debugging aid
        lines = []
        for n in self.nodes:
            lines.append(f"{n.id:3d} {n.kind:7s} L{n.line:<5d} {n.text()[:60]:60s} -> {self.succ[n.id]}")
        return "\n".join(lines)


def _targets_names(t, out, strong=True):
    if isinstance(t, ast.Name):
        out[t.id] = strong
    elif isinstance(t, (ast.Tuple, ast.List)):
        for e in t.elts:
            _targets_names(e, out, strong)
    elif isinstance(t, ast.Starred):
        _targets_names(t.value, out, strong)
    elif isinstance(t, (ast.Subscript, ast.Attribute)):
        # weak update of the base variable (element/field store)
        base = t
        while isinstance(base, (ast.Subscript, ast.Attribute)):
            base = base.value
        if isinstance(base, ast.Name) and isinstance(t, ast.Subscript):
            out.setdefault(base.id, False)


LOCAL_MUTATORS = {"append", "extend", "insert", "add", "update", "setdefault", "pop", "remove", "clear", "sort", "reverse", "fill"}


def defs_of(node):
    """Variables (re)defined at a CFG node: {name: strong?}."""
    out = {}
    s = node.ast
    if node.kind == "stmt":
        if isinstance(s, ast.Assign):
            for t in s.targets:
                _targets_names(t, out)
        elif isinstance(s, ast.AugAssign):
            _targets_names(s.target, out)
        elif isinstance(s, ast.AnnAssign) and s.value is not None:
            _targets_names(s.target, out)
        elif isinstance(s, (ast.Import, ast.ImportFrom)):
            for al in s.names:
                out[(al.asname or al.name).split(".")[0]] = True
        elif isinstance(s, (ast.FunctionDef, ast.AsyncFunctionDef, ast.ClassDef)):
            out[s.name] = True
        elif isinstance(s, ast.Delete):
            for t in s.targets:
                _targets_names(t, out)
        elif isinstance(s, ast.Expr) and isinstance(s.value, ast.Call):
            fn = s.value.func
            if isinstance(fn, ast.Attribute) and fn.attr in LOCAL_MUTATORS and isinstance(fn.value, ast.Name):
                out.setdefault(fn.value.id, False)
        if not isinstance(s, (ast.FunctionDef, ast.AsyncFunctionDef, ast.ClassDef)):
            for sub in ast.walk(s):
                if isinstance(sub, ast.NamedExpr):
                    _targets_names(sub.target, out)
    elif node.kind == "for":
        _targets_names(s.target, out)
    elif node.kind == "with":
        for it in s.items:
            if it.optional_vars is not None:
                _targets_names(it.optional_vars, out)
    elif node.kind == "handler":
        if s.name:
            out[s.name] = True
    elif node.kind == "test":
        for sub in ast.walk(s.test):
            if isinstance(sub, ast.NamedExpr):
                _targets_names(sub.target, out)
    return out
