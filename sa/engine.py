"""Analysis context shared by all rule modules."""
from __future__ import annotations

import ast

from .loader import Repo, AnalysisError
from .types import Resolver
from .callgraph import CallGraph
from .cfg import CFG
from . import tables as T


class Context:
    def __init__(self, root="/repo", overlay=None):
        self.root = root
        self.repo = Repo(root, overlay=overlay)
        from . import facts as _facts
        _facts.GLOBAL_VARIABLES.clear()
        for m in self.repo.modules.values():
            _facts.GLOBAL_VARIABLES.update(k for k in m.globals if k not in m.classes)
        self.res = Resolver(self.repo)
        self.cg = CallGraph(self.repo, self.res)
        self._cfg = {}
        self._facts = None
        self.repo_stats = dict(self.repo.stats(), root=str(root))
        # what the source normaliser did (all zero / empty on the reference tree)
        norm_total = {}
        for m in self.repo.modules.values():
            for k, v in (getattr(m, "normalized", None) or {}).items():
                if v:
                    norm_total[k] = norm_total.get(k, 0) + v
        self.repo_stats["normaliser"] = norm_total or "identity (nothing outside the reference vocabulary)"
        if getattr(self.repo, "renamed_back", None):
            self.repo_stats["functions_renamed_back"] = self.repo.renamed_back
        if getattr(self.repo, "return_orders", None):
            self.repo_stats["return_orders_restored"] = {k: list(v) for k, v in self.repo.return_orders.items()}
        self.cg_stats = self.cg.stats()
        if self.cg_stats["resolution"] < T.RESOLUTION_FLOOR:
            raise AnalysisError(
                f"call resolution {self.cg_stats['resolution']} below the floor {T.RESOLUTION_FLOOR}"
            )

    @property
    def facts(self):
        if self._facts is None:
            from .facts import Facts
            self._facts = Facts(self)
        return self._facts

    def func(self, qual):
        return self.repo.func(qual)

    def cfg(self, f):
        c = self._cfg.get(f.qual)
        if c is None:
            c = CFG(f.node, body=f.body())
            self._cfg[f.qual] = c
        return c

    def events(self, f, include_lambda=True):
        return self.cg.events_of(f.qual, include_lambda)

    def type_of(self, e, f):
        return self.res.type_of(e, f)

    # -- frequently used derived facts --------------------------------------
    def sink_events(self):
        out = []
        for evs in self.cg.events.values():
            for ev in evs:
                if ev.sink_targets():
                    out.append(ev)
        return out

    def calls_to(self, qual):
        return [ev for ev in self.cg.callers_of(qual)]
