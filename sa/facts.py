"""Interprocedural facts shared by several rules: argument nullness, dead
branches (by call-site facts), live call events, exception flow."""
from __future__ import annotations

import ast

from .astutil import norm, stmts_in, enclosing_stmt, ancestors
from .callgraph import lam_key

# class -> base (builtins and numpy); repo classes are added from the source
EXC_BASES = {
    "BaseException": None,
    "Exception": "BaseException",
    "StopIteration": "Exception",
    "ArithmeticError": "Exception",
    "ZeroDivisionError": "ArithmeticError",
    "FloatingPointError": "ArithmeticError",
    "OverflowError": "ArithmeticError",
    "ValueError": "Exception",
    "TypeError": "Exception",
    "AttributeError": "Exception",
    "IndexError": "LookupError",
    "KeyError": "LookupError",
    "LookupError": "Exception",
    "AssertionError": "Exception",
    "RuntimeError": "Exception",
    "NotImplementedError": "RuntimeError",
    "LinAlgError": "ValueError",  # numpy.linalg.LinAlgError(ValueError)
    "Warning": "Exception",
    "RuntimeWarning": "Warning",
    "KeyboardInterrupt": "BaseException",
}


def exc_hierarchy(repo):
    bases = dict(EXC_BASES)
    for c in repo.classes.values():
        for b in c.bases:
            bn = b.split(".")[-1]
            if bn in bases or bn in repo.classes:
                bases[c.name] = bn
                break
    return bases


def is_subclass(cls, sup, bases):
    seen = 0
    while cls is not None and seen < 20:
        if cls == sup:
            return True
        cls = bases.get(cls)
        seen += 1
    return False


def exc_name(node):
    """Class name of a raise / except operand."""
    if node is None:
        return None
    if isinstance(node, ast.Call):
        node = node.func
    if isinstance(node, ast.Name):
        return node.id
    if isinstance(node, ast.Attribute):
        return node.attr
    return None


GLOBAL_VARIABLES = set()     # module-level assigned names of the analysed package


def handler_classes(h):
    """None = bare except (catches everything).  A handler whose type is
    computed at run time cannot be decided statically: AnalysisError."""
    from .loader import AnalysisError
    if h.type is None:
        return None
    if isinstance(h.type, ast.Tuple):
        elts = h.type.elts
    else:
        elts = [h.type]
    out = []
    for e in elts:
        if isinstance(e, ast.Name) and e.id in GLOBAL_VARIABLES:
            raise AnalysisError(f"line {h.lineno}: `except {e.id}` names a module-level variable, not a class; the exception classes are computed at run time and the exception flow cannot be decided statically")
        if isinstance(e, (ast.Name, ast.Attribute)):
            out.append(exc_name(e))
        else:
            raise AnalysisError(f"line {h.lineno}: the exception classes of `except {ast.unparse(h.type)[:60]}` are computed at run time; the exception flow cannot be decided statically")
    return out


# ---------------------------------------------------------------------------
class Nullness:
    """maybe_none[(qual, param)] for parameters with a None default, decided
    from every call site in the package (fixed point)."""

    def __init__(self, ctx):
        self.ctx = ctx
        self.maybe = {}
        self._assign_cache = {}
        self._rd_cache = {}
        self._ret_none = {}
        repo = ctx.repo
        self.sites = {}
        for evs in ctx.cg.events.values():
            for ev in evs:
                if ev.kind != "call":
                    continue
                for t in ev.targets:
                    if t.kind == "repo":
                        self.sites.setdefault(t.name, []).append((ev, t))
        changed = True
        n = 0
        while changed and n < 30:
            changed = False
            n += 1
            for f in repo.funcs.values():
                for p in f.params + f.kwonly:
                    if self.maybe.get((f.qual, p)):
                        continue
                    if self._param_maybe_none(f, p):
                        self.maybe[(f.qual, p)] = True
                        changed = True

    def _param_maybe_none(self, f, p):
        d = f.defaults.get(p)
        default_none = isinstance(d, ast.Constant) and d.value is None
        sites = self.sites.get(f.qual, [])
        if not sites:
            # no caller inside the package: only the default matters for
            # internal reachability (external callers are out of scope)
            return False
        for ev, t in sites:
            arg = self._arg_for(ev.node, f, p, t)
            if arg is None:
                if default_none:
                    return True
                continue
            if arg == "unknown":
                if default_none:
                    return True
                continue
            if self.expr_maybe_none(arg, ev.func):
                return True
        return False

    @staticmethod
    def _arg_for(call, g, p, t):
        from .valueflow import arg_for
        return arg_for(call, g, p, t.detail)

    def expr_maybe_none(self, e, f, depth=0):
        if isinstance(e, ast.Constant):
            return e.value is None
        if isinstance(e, ast.Name):
            if e.id in f.params or e.id in f.kwonly:
                if self.maybe.get((f.qual, e.id)):
                    return True
                # parameter reassigned locally?
            vals = self._assigned_values(f, e.id)
            if depth > 4:
                return False
            return any(self.expr_maybe_none(v, f, depth + 1) for v in vals if v is not None)
        if isinstance(e, ast.IfExp):
            return self.expr_maybe_none(e.body, f, depth + 1) or self.expr_maybe_none(e.orelse, f, depth + 1)
        if isinstance(e, ast.BoolOp):
            return any(self.expr_maybe_none(v, f, depth + 1) for v in e.values)
        if isinstance(e, ast.Call):
            for t in self.ctx.res.call_targets(e, f):
                if t.kind == "repo" and t.detail != "ctor" and self.may_return_none(t.func):
                    return True
            return False
        return False

    def _assigned_values(self, f, name):
        key = (f.qual, name)
        if key in self._assign_cache:
            return self._assign_cache[key]
        vals = []
        for node in ast.walk(f.node):
            if isinstance(node, ast.Assign):
                for t in node.targets:
                    if isinstance(t, ast.Name) and t.id == name:
                        vals.append(node.value)
                    elif isinstance(t, (ast.Tuple, ast.List)):
                        for i, el in enumerate(t.elts):
                            if isinstance(el, ast.Name) and el.id == name:
                                if isinstance(node.value, (ast.Tuple, ast.List)) and len(node.value.elts) == len(t.elts):
                                    vals.append(node.value.elts[i])
                                else:
                                    vals.append(ast.Constant(0))  # element of a tuple result: not None
            elif isinstance(node, ast.AnnAssign) and isinstance(node.target, ast.Name) and node.target.id == name and node.value is not None:
                vals.append(node.value)
        self._assign_cache[key] = vals
        return vals

    def may_return_none(self, g):
        if g.qual in self._ret_none:
            return self._ret_none[g.qual]
        self._ret_none[g.qual] = False
        res = False
        for node in ast.walk(g.node):
            if isinstance(node, ast.Return):
                if node.value is None or (isinstance(node.value, ast.Constant) and node.value.value is None):
                    res = True
        if not res:
            cfg = self.ctx.cfg(g)
            for a, l in cfg.pred[cfg.exit]:
                if l != "return":
                    res = True
        self._ret_none[g.qual] = res
        return res

    # -- test evaluation ---------------------------------------------------
    def _only_param_def(self, f, name, at_stmt):
        """True when the only definition of `name` reaching `at_stmt` is the
        parameter binding."""
        if not self._assigned_values(f, name):
            return True
        if at_stmt is None:
            return False
        cfg = self.ctx.cfg(f)
        rd = self._rd_cache.get(f.qual)
        if rd is None:
            rd = cfg.reaching_defs()
            self._rd_cache[f.qual] = rd
        nid = cfg.node_of(at_stmt)
        if nid is None or nid not in rd:
            return False
        return rd[nid].get(name) == frozenset({cfg.entry})

    def eval_test(self, test, f, at_stmt=None):
        """True / False / None (unknown) using nullness facts only."""
        if isinstance(test, ast.Compare) and len(test.ops) == 1:
            op = test.ops[0]
            left, right = test.left, test.comparators[0]
            if isinstance(right, ast.Constant) and right.value is None and isinstance(op, (ast.Is, ast.IsNot)):
                if isinstance(left, ast.Name) and (left.id in f.params or left.id in f.kwonly):
                    if not self._only_param_def(f, left.id, at_stmt):
                        return None
                    if not self.maybe.get((f.qual, left.id)) and self.sites.get(f.qual):
                        return isinstance(op, ast.IsNot)
                return None
            return None
        if isinstance(test, ast.BoolOp):
            vals = [self.eval_test(v, f, at_stmt) for v in test.values]
            if isinstance(test.op, ast.Or):
                if any(v is True for v in vals):
                    return True
                if all(v is False for v in vals):
                    return False
                return None
            if any(v is False for v in vals):
                return False
            if all(v is True for v in vals):
                return True
            return None
        if isinstance(test, ast.UnaryOp) and isinstance(test.op, ast.Not):
            v = self.eval_test(test.operand, f, at_stmt)
            return None if v is None else (not v)
        return None


def _terminates(body):
    return bool(body) and isinstance(body[-1], (ast.Return, ast.Raise, ast.Continue, ast.Break))


class Liveness:
    """Statements that are dead because a branch test is decided by call-site
    facts (argument nullness)."""

    def __init__(self, ctx, nullness):
        self.ctx = ctx
        self.null = nullness
        self.dead = {}
        for f in ctx.repo.funcs.values():
            self.dead[f.qual] = self._dead_stmts(f)

    def _dead_stmts(self, f):
        dead = set()

        def visit(body):
            kill_rest = False
            for s in body:
                if kill_rest:
                    for d in stmts_in([s]):
                        dead.add(id(d))
                    continue
                if isinstance(s, ast.If):
                    v = self.null.eval_test(s.test, f, s)
                    if v is False:
                        for d in stmts_in(s.body):
                            dead.add(id(d))
                        visit(s.orelse)
                    elif v is True:
                        for d in stmts_in(s.orelse):
                            dead.add(id(d))
                        visit(s.body)
                        if _terminates(s.body):
                            kill_rest = True
                    else:
                        visit(s.body)
                        visit(s.orelse)
                else:
                    for field in ("body", "orelse", "finalbody"):
                        sub = getattr(s, field, None)
                        if isinstance(sub, list) and sub and isinstance(sub[0], ast.stmt):
                            visit(sub)
                    if isinstance(s, ast.Try):
                        for h in s.handlers:
                            visit(h.body)

        visit(f.body())
        return dead

    def is_dead(self, ev):
        d = self.dead.get(ev.func.qual, ())
        if not d:
            return False
        return id(ev.stmt) in d

    def stmt_dead(self, f, stmt):
        return id(stmt) in self.dead.get(f.qual, ())


# ---------------------------------------------------------------------------
SINK_RAISES = {
    "UserCb": {"StopIteration": "the documented way for a callback to stop the run"},
}


class ExcFlow:
    """may-raise sets of the internal exception classes (explicit raises only),
    propagated over the resolved call graph and filtered by handlers."""

    def __init__(self, ctx, live=None, classes=None):
        self.ctx = ctx
        self.live = live
        self.bases = exc_hierarchy(ctx.repo)
        self.raises = {q: {} for q in ctx.repo.funcs}
        self.lam_raises = {}
        self.undecidable = {}
        self._stmt_events = {}
        for q, evs in ctx.cg.events.items():
            m = {}
            for ev in evs:
                m.setdefault(id(ev.stmt), []).append(ev)
            self._stmt_events[q] = m
        changed = True
        rounds = 0
        while changed and rounds < 50:
            rounds += 1
            changed = False
            for f in ctx.repo.funcs.values():
                new = self._block(f.body(), f, None)
                if set(new) != set(self.raises[f.qual]):
                    self.raises[f.qual] = new
                    changed = True
            # lambdas
            for key, owner in list(ctx.cg.lam_owner.items()):
                new = {}
                for ev in ctx.cg.lambda_events(key):
                    self._merge(new, self._event_raises(ev))
                if set(new) != set(self.lam_raises.get(key, {})):
                    self.lam_raises[key] = new
                    changed = True
        self.rounds = rounds

    @staticmethod
    def _merge(dst, src):
        for k, v in src.items():
            dst.setdefault(k, v)

    def _event_raises(self, ev):
        out = {}
        if self.live is not None and self.live.is_dead(ev):
            return out
        for t in ev.targets:
            if t.kind == "repo":
                for cls, w in self.raises.get(t.name, {}).items():
                    out.setdefault(cls, [(ev.func.local, ev.line, ev.text()[:60])] + w)
            elif t.kind == "lambda" and t.detail is not None:
                for cls, w in self.lam_raises.get(lam_key(t.detail), {}).items():
                    out.setdefault(cls, [(ev.func.local, ev.line, ev.text()[:60])] + w)
            elif t.kind == "sink":
                for cls in SINK_RAISES.get(t.name, {}):
                    out.setdefault(cls, [(ev.func.local, ev.line, f"user code {ev.text()[:50]}")])
        return out

    def _stmt_own(self, s, f, handler_ctx):
        """raises of the expressions evaluated by statement s itself (not its
        sub-blocks)."""
        out = {}
        for ev in self._stmt_events[f.qual].get(id(s), []):
            if ev.lam is not None:
                continue
            self._merge(out, self._event_raises(ev))
        if isinstance(s, ast.Raise):
            if s.exc is None:
                # re-raise: the classes caught by the enclosing handler
                if handler_ctx:
                    for cls, w in handler_ctx.items():
                        out.setdefault(cls, w)
                else:
                    out.setdefault("Exception", [(f.local, s.lineno, "bare raise")])
            else:
                cn = exc_name(s.exc)
                if cn is None:
                    cn = "Exception"
                out.setdefault(cn, [(f.local, s.lineno, norm(s)[:60])])
        elif isinstance(s, ast.Assert):
            pass  # debug assertions: not part of the internal protocol
        return out

    def _block(self, stmts, f, handler_ctx):
        out = {}
        for s in stmts:
            if self.live is not None and self.live.stmt_dead(f, s):
                continue
            self._merge(out, self._stmt(s, f, handler_ctx))
        return out

    def suppressed(self, s, f):
        """classes suppressed by `with suppress(...)`."""
        out = []
        for item in s.items:
            ce = item.context_expr
            if isinstance(ce, ast.Call) and exc_name(ce.func) == "suppress":
                out += [exc_name(a) for a in ce.args]
        return out

    def _stmt(self, s, f, handler_ctx):
        if isinstance(s, ast.Try):
            body = self._block(s.body, f, handler_ctx)
            out = {}
            caught_by = [dict() for _ in s.handlers]
            from .loader import AnalysisError
            try:
                for h in s.handlers:
                    handler_classes(h)
            except AnalysisError as exc:
                self.undecidable[f.qual] = str(exc)
                return body
            for cls, w in body.items():
                hit = False
                for i, h in enumerate(s.handlers):
                    hc = handler_classes(h)
                    if hc is None or any(c is not None and is_subclass(cls, c, self.bases) for c in hc):
                        caught_by[i][cls] = w
                        hit = True
                        break
                    # a handler for a *subclass* may catch some instances
                if not hit:
                    out[cls] = w
            for i, h in enumerate(s.handlers):
                hc = handler_classes(h)
                # classes the handler could be entered with
                ctxc = dict(caught_by[i])
                hb = self._block_handler(h, f, ctxc)
                self._merge(out, hb)
            self._merge(out, self._block(s.orelse, f, handler_ctx))
            self._merge(out, self._block(s.finalbody, f, handler_ctx))
            return out
        if isinstance(s, (ast.With, ast.AsyncWith)):
            out = self._stmt_own(s, f, handler_ctx)
            body = self._block(s.body, f, handler_ctx)
            sup = self.suppressed(s, f)
            for cls, w in body.items():
                if any(c is not None and is_subclass(cls, c, self.bases) for c in sup):
                    continue
                out.setdefault(cls, w)
            return out
        out = self._stmt_own(s, f, handler_ctx)
        for field in ("body", "orelse"):
            sub = getattr(s, field, None)
            if isinstance(sub, list) and sub and isinstance(sub[0], ast.stmt):
                if isinstance(s, (ast.FunctionDef, ast.AsyncFunctionDef, ast.ClassDef)):
                    continue
                self._merge(out, self._block(sub, f, handler_ctx))
        return out

    def _block_handler(self, h, f, ctxc):
        if not ctxc:
            # handler never entered by an internal class; still analyse its
            # explicit raises with an empty re-raise context
            return self._block(h.body, f, {})
        return self._block(h.body, f, ctxc)

    def check(self, qual):
        """AnalysisError if the exception flow of `qual` depends on a handler
        whose classes are computed at run time."""
        from .loader import AnalysisError
        seen = set()
        st = [qual]
        while st:
            u = st.pop()
            if u in seen:
                continue
            seen.add(u)
            if u in self.undecidable:
                raise AnalysisError(f"exception flow of {qual.split(':')[-1]} undecidable: " + self.undecidable[u])
            for ev in self.ctx.cg.node_events(u):
                for t in ev.targets:
                    if t.kind == "repo":
                        st.append(t.name)

    def fmt_witness(self, w):
        return " -> ".join(f"{fn}:{ln} `{tx}`" for fn, ln, tx in w)


class Facts:
    """Lazy bundle."""

    def __init__(self, ctx):
        self.ctx = ctx
        self._null = None
        self._live = None
        self._exc = None

    @property
    def null(self):
        if self._null is None:
            self._null = Nullness(self.ctx)
        return self._null

    @property
    def live(self):
        if self._live is None:
            self._live = Liveness(self.ctx, self.null)
        return self._live

    @property
    def exc(self):
        if self._exc is None:
            self._exc = ExcFlow(self.ctx, self.live)
        return self._exc
