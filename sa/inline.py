"""Expression normaliser: expands named locals through their (sole) reaching
definition and inlines single-return private helpers, so that the rule
extractors see the same expression whether or not a maintainer introduced a
temporary variable or extracted a small helper."""
from __future__ import annotations

import ast
import copy


def _clone(node):
    """deep copy of an AST subtree that does not follow the _parent links"""
    if isinstance(node, list):
        return [_clone(x) for x in node]
    if not isinstance(node, ast.AST):
        return node
    new = node.__class__()
    for field, val in ast.iter_fields(node):
        setattr(new, field, _clone(val))
    for attr in ("lineno", "col_offset", "end_lineno", "end_col_offset"):
        if hasattr(node, attr):
            setattr(new, attr, getattr(node, attr))
    return new

from .astutil import norm


def _strip_body(g):
    body = [s for s in g.body() if not isinstance(s, (ast.Assert, ast.Pass))]
    # drop debug blocks `if debug: assert ...`
    out = []
    for s in body:
        if isinstance(s, ast.If) and all(isinstance(x, (ast.Assert, ast.Pass)) for x in s.body) and not s.orelse:
            continue
        out.append(s)
    return out


class Inliner:
    def __init__(self, ctx, f, stop=()):
        self.ctx = ctx
        self.f = f
        self.cfg = ctx.cfg(f)
        self.rd = self.cfg.reaching_defs()
        self.stop = set(stop)

    # -- names ------------------------------------------------------------------
    def _sole_def(self, name, at):
        nid = self.cfg.node_containing(at) if at is not None else None
        if nid is None:
            return None
        defs = self.rd.get(nid, {}).get(name)
        if not defs or len(defs) != 1:
            return None
        dn = next(iter(defs))
        if dn == self.cfg.entry:
            return None
        s = self.cfg.nodes[dn].ast
        if isinstance(s, ast.Assign) and len(s.targets) == 1 and isinstance(s.targets[0], (ast.Tuple, ast.List)) and isinstance(s.value, (ast.Tuple, ast.List)) and len(s.value.elts) == len(s.targets[0].elts):
            for tgt, val in zip(s.targets[0].elts, s.value.elts):
                if isinstance(tgt, ast.Name) and tgt.id == name:
                    fake = ast.Assign(targets=[ast.Name(id=name, ctx=ast.Store())], value=val)
                    ast.copy_location(fake, s)
                    fake._parent = getattr(s, "_parent", None)
                    fake._origin = s
                    s = fake
                    break
        if isinstance(s, ast.Assign) and len(s.targets) == 1 and isinstance(s.targets[0], (ast.Tuple, ast.List)) and isinstance(s.value, ast.Call):
            # a, b = helper(...)  /  a, b = np.broadcast_arrays(x, y)
            names = [t.id if isinstance(t, ast.Name) else None for t in s.targets[0].elts]
            if name in names:
                i = names.index(name)
                val = self._x(s.value, s, 2)
                elt = None
                if isinstance(val, (ast.Tuple, ast.List)) and len(val.elts) == len(names):
                    elt = val.elts[i]
                elif isinstance(val, ast.Call) and ast.unparse(val.func).split(".")[-1] == "broadcast_arrays" and len(val.args) == len(names):
                    elt = val.args[i]
                if elt is not None:
                    fake = ast.Assign(targets=[ast.Name(id=name, ctx=ast.Store())], value=elt)
                    ast.copy_location(fake, s)
                    fake._origin = s
                    fake._expanded = True
                    return fake
            return None
        if isinstance(s, ast.Assign) and len(s.targets) == 1 and isinstance(s.targets[0], ast.Name) and s.targets[0].id == name:
            # the operands of the definition must be unchanged at the use
            for sub in ast.walk(s.value):
                if isinstance(sub, ast.Name) and sub.id != name:
                    if self.rd.get(dn, {}).get(sub.id) != self.rd.get(nid, {}).get(sub.id):
                        # tolerate names that are never locally assigned
                        if self.rd.get(nid, {}).get(sub.id) is not None or self.rd.get(dn, {}).get(sub.id) is not None:
                            return None
            return s
        return None

    def _field_alias(self, name, at):
        """`self.F` when the local `name` (with the same reaching definitions)
        is what the function stores into the field F."""
        sn = self.f.self_name
        if sn is None:
            return None
        nid = self.cfg.node_containing(at) if at is not None else None
        if nid is None:
            return None
        here = self.rd.get(nid, {}).get(name)
        if not here or self.cfg.entry in here:
            return None
        for n in self.cfg.nodes:
            if n.kind == "stmt" and isinstance(n.ast, ast.Assign) and isinstance(n.ast.value, ast.Name) and n.ast.value.id == name:
                for t in n.ast.targets:
                    if isinstance(t, ast.Attribute) and isinstance(t.value, ast.Name) and t.value.id == sn:
                        if self.rd.get(n.id, {}).get(name) == here:
                            return ast.Attribute(value=ast.Name(id=sn, ctx=ast.Load()), attr=t.attr, ctx=ast.Load())
        return None

    def expand(self, e, at=None, depth=4):
        """Return a new expression tree with locals expanded and trivial
        helpers inlined (the original tree is not modified)."""
        if at is None:
            at = e
        return self._x(e, at, depth)

    def _x(self, e, at, depth):
        if depth < 0 or e is None:
            return _clone(e)
        if isinstance(e, ast.Name) and isinstance(e.ctx, ast.Load):
            fld = self._field_alias(e.id, at)
            if fld is not None:
                return fld
            d = self._sole_def(e.id, at) if e.id not in self.stop else None
            if d is not None and getattr(d, "_expanded", False):
                return _clone(d.value)
            if d is not None and not _is_alloc(d.value):
                return self._x(d.value, getattr(d, "_origin", d), depth - 1)
            return _clone(e)
        if isinstance(e, ast.Call):
            inl = self._inline_call(e, at, depth)
            if inl is not None:
                return inl
        new = copy.copy(e)
        for field, val in ast.iter_fields(e):
            if isinstance(val, ast.AST):
                setattr(new, field, self._x(val, at, depth))
            elif isinstance(val, list):
                setattr(new, field, [self._x(v, at, depth) if isinstance(v, ast.AST) else v for v in val])
        return new

    # -- helpers ------------------------------------------------------------------
    def _inline_call(self, call, at, depth):
        try:
            targets = self.ctx.res.call_targets(call, self.f)
        except Exception:
            return None
        repo = [t for t in targets if t.kind == "repo"]
        if len(repo) != 1 or len(targets) != 1:
            return None
        t = repo[0]
        g = t.func
        if t.detail == "ctor" or g.kind in ("getter", "setter"):
            return None
        if not g.name.startswith("_") or g.name.startswith("__"):
            return None
        body = _strip_body(g)
        if not body or not isinstance(body[-1], ast.Return) or body[-1].value is None:
            return None
        if not all(isinstance(x, ast.Assign) for x in body[:-1]) or len(body) > 6:
            return None
        if len(body) > 1:
            # expand the helper's own locals first
            gi = Inliner(self.ctx, g, stop=self.stop)
            ret_expr = gi._x(body[-1].value, body[-1], 3)
            # every remaining free local of the helper must be a parameter
            local_defs = set()
            for x in body[:-1]:
                for tt in x.targets:
                    for nn in ast.walk(tt):
                        if isinstance(nn, ast.Name):
                            local_defs.add(nn.id)
            if any(isinstance(nn, ast.Name) and nn.id in local_defs for nn in ast.walk(ret_expr)):
                return None
            body = [ast.Return(value=ret_expr)]
        if any(isinstance(a, ast.Starred) for a in call.args) or any(k.arg is None for k in call.keywords):
            return None
        params = list(g.params)
        subst = {}
        if t.detail in ("bound", "call") and params:
            recv = call.func.value if isinstance(call.func, ast.Attribute) else None
            if recv is None:
                return None
            subst[params[0]] = recv
            params = params[1:]
        for i, a in enumerate(call.args):
            if i >= len(params):
                return None
            subst[params[i]] = a
        for k in call.keywords:
            subst[k.arg] = k.value
        for p in params:
            if p not in subst:
                if p in g.defaults:
                    subst[p] = g.defaults[p]
                else:
                    return None
        expr = _clone(body[0].value)

        class _S(ast.NodeTransformer):
            def visit_Name(self_, node):
                if isinstance(node.ctx, ast.Load) and node.id in subst:
                    return _clone(subst[node.id])
                return node
        expr = _S().visit(expr)
        return self._x(expr, at, depth - 1)


def _is_alloc(v):
    """do not expand buffers that are filled in afterwards"""
    if isinstance(v, ast.Call):
        d = ast.unparse(v.func).split(".")[-1]
        return d in ("empty", "empty_like")
    return False


def expander(ctx, f, stop=()):
    if stop:
        return Inliner(ctx, f, stop=stop)
    cache = getattr(ctx, "_inliners", None)
    if cache is None:
        cache = ctx._inliners = {}
    inl = cache.get(f.qual)
    if inl is None:
        inl = cache[f.qual] = Inliner(ctx, f)
    return inl
