"""Loader: parses the package under analysis into module / class / function
tables.  Nothing is imported or executed; only ``ast`` is used.

The loader accepts either a directory (default ``/repo``) or an *overlay*
mapping ``relpath -> source`` that replaces the on-disk text of some modules
(used by the in-memory sensitivity variants of the thorough tier).
"""
from __future__ import annotations

import ast
import hashlib
import os
from pathlib import Path


class AnalysisError(Exception):
    """The analysis itself could not be carried out (exit code 2)."""


PKG = "cobyqa"


def set_parents(tree):
    for node in ast.walk(tree):
        for child in ast.iter_child_nodes(node):
            child._parent = node  # type: ignore[attr-defined]
    tree._parent = None


class Func:
    def __init__(self, module, cls, node, outer=None):
        self.module = module
        self.cls = cls
        self.node = node
        self.name = node.name
        self.outer = outer
        if cls is not None:
            self.local = f"{cls.name}.{node.name}"
        elif outer is not None:
            self.local = f"{outer.local}.<locals>.{node.name}"
        else:
            self.local = node.name
        self.kind = "function"
        for dec in node.decorator_list:
            if isinstance(dec, ast.Name) and dec.id == "property":
                self.kind = "getter"
            elif isinstance(dec, ast.Attribute) and dec.attr == "setter":
                self.kind = "setter"
            elif isinstance(dec, ast.Name) and dec.id == "staticmethod":
                self.kind = "static"
            elif isinstance(dec, ast.Name) and dec.id == "classmethod":
                self.kind = "classmethod"
        # setters share the name of the getter: give them a distinct key
        self.qual = f"{module.name}:{self.local}"
        if self.kind == "setter":
            self.qual += ".setter"
            self.local += ".setter"
        a = node.args
        self.params = [x.arg for x in a.posonlyargs + a.args]
        self.kwonly = [x.arg for x in a.kwonlyargs]
        self.vararg = a.vararg.arg if a.vararg else None
        self.kwarg = a.kwarg.arg if a.kwarg else None
        n_def = len(a.defaults)
        self.defaults = {}
        if n_def:
            for p, d in zip(self.params[-n_def:], a.defaults):
                self.defaults[p] = d
        for p, d in zip(self.kwonly, a.kw_defaults):
            if d is not None:
                self.defaults[p] = d

    @property
    def is_method(self):
        return self.cls is not None and self.kind != "static"

    @property
    def self_name(self):
        if self.is_method and self.params:
            return self.params[0]
        return None

    @property
    def relfile(self):
        return self.module.relpath

    def docstring(self):
        return ast.get_docstring(self.node) or ""

    def body(self):
        """Body statements without the docstring."""
        body = self.node.body
        if (
            body
            and isinstance(body[0], ast.Expr)
            and isinstance(body[0].value, ast.Constant)
            and isinstance(body[0].value.value, str)
        ):
            return body[1:]
        return body

    def __repr__(self):
        return f"<Func {self.qual}>"


class Class:
    def __init__(self, module, node):
        self.module = module
        self.node = node
        self.name = node.name
        self.bases = [ast.unparse(b) for b in node.bases]
        self.methods = {}
        self.getters = {}
        self.setters = {}
        self.class_attrs = {}

    def lookup(self, name):
        return self.methods.get(name)

    def __repr__(self):
        return f"<Class {self.name}>"


class Module:
    def __init__(self, name, relpath, source):
        self.name = name
        self.relpath = relpath
        self.source = source
        try:
            self.tree = ast.parse(source, filename=relpath)
        except SyntaxError as exc:  # pragma: no cover
            raise AnalysisError(f"syntax error in {relpath}: {exc}") from exc
        # make helpers / constants / locals that the reference tree does not
        # have transparent (see sa/normalize.py); identity on the reference tree
        self.normalized = {}
        self.functions = {}
        self.classes = {}
        self.imports = {}  # local name -> ("module", modname)|("symbol", modname, sym)
        self.globals = {}  # module-level assigned names -> value node

    @property
    def is_pkg(self):
        return self.relpath.endswith("__init__.py")


class Repo:
    def __init__(self, root="/repo", overlay=None, include_tests=False):
        self.root = Path(root)
        self.overlay = overlay or {}
        self.modules = {}
        self.funcs = {}
        self.classes = {}
        self.include_tests = include_tests
        self._load()

    # ------------------------------------------------------------------
    def _iter_files(self):
        base = self.root / PKG
        if not base.is_dir():
            raise AnalysisError(f"package directory {base} not found")
        for dirpath, dirnames, filenames in os.walk(base):
            dirnames[:] = sorted(
                d for d in dirnames
                if d != "__pycache__" and (self.include_tests or d != "tests")
            )
            for fn in sorted(filenames):
                if fn.endswith(".py"):
                    full = Path(dirpath) / fn
                    yield full.relative_to(self.root).as_posix(), full

    def _load(self):
        seen = set()
        for rel, full in self._iter_files():
            seen.add(rel)
            if rel in self.overlay:
                src = self.overlay[rel]
            else:
                src = full.read_text(encoding="utf-8")
            self._add_module(rel, src)
        for rel, src in self.overlay.items():
            if rel not in seen:
                self._add_module(rel, src)
        # make helpers / constants / locals that the reference tree does not
        # have transparent (see sa/normalize.py); identity on the reference tree
        from .normalize import normalize_module, compute_pure_names, compute_tuple_sizes, restore_function_names
        self.renamed_back = restore_function_names({m.name: m.tree for m in self.modules.values()})
        from .normalize import restore_return_order
        self.return_orders = restore_return_order({m.name: m.tree for m in self.modules.values()})
        compute_pure_names([m.tree for m in self.modules.values()])
        compute_tuple_sizes([m.tree for m in self.modules.values()])
        from .normalize import compute_stable_attrs, compute_param_mutation
        compute_stable_attrs([m.tree for m in self.modules.values()])
        compute_param_mutation([m.tree for m in self.modules.values()])
        for mod in self.modules.values():
            mod.normalized = normalize_module(mod.tree, mod.name)
            set_parents(mod.tree)
        for mod in self.modules.values():
            self._index_module(mod)
        self._resolve_reexports()

    def _add_module(self, rel, src):
        parts = rel[:-3].split("/")
        if parts[-1] == "__init__":
            parts = parts[:-1]
        name = ".".join(parts)
        self.modules[name] = Module(name, rel, src)

    def _index_module(self, mod):
        pkg_parts = mod.name.split(".")
        if not mod.is_pkg:
            pkg_parts = pkg_parts[:-1]
        for node in mod.tree.body:
            self._index_stmt(mod, node, pkg_parts)

    def _index_stmt(self, mod, node, pkg_parts):
        if isinstance(node, ast.ImportFrom):
            if node.level:
                base = pkg_parts[: len(pkg_parts) - (node.level - 1)]
                target = ".".join(base + (node.module.split(".") if node.module else []))
            else:
                target = node.module or ""
            for alias in node.names:
                local = alias.asname or alias.name
                mod.imports[local] = ("symbol", target, alias.name)
        elif isinstance(node, ast.Import):
            for alias in node.names:
                local = alias.asname or alias.name.split(".")[0]
                mod.imports[local] = ("module", alias.name if alias.asname else alias.name.split(".")[0])
        elif isinstance(node, (ast.FunctionDef, ast.AsyncFunctionDef)):
            f = Func(mod, None, node)
            mod.functions[node.name] = f
            self.funcs[f.qual] = f
            self._index_nested(mod, f)
        elif isinstance(node, ast.ClassDef):
            c = Class(mod, node)
            mod.classes[node.name] = c
            if node.name in self.classes:
                raise AnalysisError(f"duplicate class name {node.name}")
            self.classes[node.name] = c
            for item in node.body:
                if isinstance(item, (ast.FunctionDef, ast.AsyncFunctionDef)):
                    f = Func(mod, c, item)
                    if f.kind == "getter":
                        c.getters[item.name] = f
                    elif f.kind == "setter":
                        c.setters[item.name] = f
                    else:
                        c.methods[item.name] = f
                    self.funcs[f.qual] = f
                    self._index_nested(mod, f)
                elif isinstance(item, ast.Assign):
                    for t in item.targets:
                        if isinstance(t, ast.Name):
                            c.class_attrs[t.id] = item.value
                elif isinstance(item, ast.AnnAssign) and isinstance(item.target, ast.Name):
                    c.class_attrs[item.target.id] = item.value
        elif isinstance(node, ast.Assign):
            for t in node.targets:
                for n in ast.walk(t):
                    if isinstance(n, ast.Name):
                        mod.globals[n.id] = node.value
        elif isinstance(node, ast.AnnAssign) and isinstance(node.target, ast.Name):
            mod.globals[node.target.id] = node.value
        elif isinstance(node, (ast.If, ast.Try)):
            for sub in ast.iter_child_nodes(node):
                if isinstance(sub, ast.stmt):
                    self._index_stmt(mod, sub, pkg_parts)

    def _index_nested(self, mod, outer):
        for node in ast.walk(outer.node):
            if node is outer.node:
                continue
            if isinstance(node, (ast.FunctionDef, ast.AsyncFunctionDef)):
                # only direct nesting level is registered; deeper ones too
                f = Func(mod, None, node, outer=outer)
                if f.qual not in self.funcs:
                    self.funcs[f.qual] = f

    def _resolve_reexports(self):
        """Follow ``from .x import y`` chains through package __init__ files."""
        self._symbol_cache = {}

    def resolve_symbol(self, modname, sym, depth=0):
        """Return ("func", Func) | ("class", Class) | ("global", Module, name)
        | ("module", Module) | ("ext", dotted)."""
        key = (modname, sym)
        if key in self._symbol_cache:
            return self._symbol_cache[key]
        res = ("ext", f"{modname}.{sym}")
        mod = self.modules.get(modname)
        if mod is not None and depth < 8:
            if sym in mod.functions:
                res = ("func", mod.functions[sym])
            elif sym in mod.classes:
                res = ("class", mod.classes[sym])
            elif sym in mod.imports:
                imp = mod.imports[sym]
                if imp[0] == "symbol":
                    res = self.resolve_symbol(imp[1], imp[2], depth + 1)
                else:
                    res = ("extmodule", imp[1])
            elif sym in mod.globals:
                res = ("global", mod, sym)
            elif f"{modname}.{sym}" in self.modules:
                res = ("module", self.modules[f"{modname}.{sym}"])
        elif f"{modname}.{sym}" in self.modules:
            res = ("module", self.modules[f"{modname}.{sym}"])
        self._symbol_cache[key] = res
        return res

    def resolve_name(self, mod, name):
        """Resolve a module-level name used inside ``mod``."""
        if name in mod.functions:
            return ("func", mod.functions[name])
        if name in mod.classes:
            return ("class", mod.classes[name])
        if name in mod.imports:
            imp = mod.imports[name]
            if imp[0] == "module":
                if imp[1] in self.modules:
                    return ("module", self.modules[imp[1]])
                return ("extmodule", imp[1])
            return self.resolve_symbol(imp[1], imp[2])
        if name in mod.globals:
            return ("global", mod, name)
        return None

    # ------------------------------------------------------------------
    def func(self, qual):
        f = self.funcs.get(qual)
        if f is None:
            raise AnalysisError(f"anchor function {qual} not found")
        return f

    def find_func(self, qual):
        return self.funcs.get(qual)

    def cls(self, name):
        c = self.classes.get(name)
        if c is None:
            raise AnalysisError(f"anchor class {name} not found")
        return c

    def digest(self):
        h = hashlib.sha256()
        for name in sorted(self.modules):
            h.update(name.encode())
            h.update(self.modules[name].source.encode())
        return h.hexdigest()[:16]

    def stats(self):
        return {
            "modules": len(self.modules),
            "functions": len(self.funcs),
            "classes": len(self.classes),
            "digest": self.digest(),
        }
