"""Driver: ./check <id> [--tier quick|thorough] [--repo DIR] [--replay FILE]

exit 0: every obligation of the property discharged (KNOWN-FINDING lines allowed)
exit 1: VIOLATION property=<id> replay=<path>
exit 2: ANALYSIS-ERROR (the analysis itself could not be carried out)
"""
from __future__ import annotations

import argparse
import importlib
import json
import os
import sys
import traceback

from .loader import AnalysisError
from .report import Report, finish


def main(argv=None):
    ap = argparse.ArgumentParser()
    ap.add_argument("prop")
    ap.add_argument("--tier", default=os.environ.get("VERIF_TIER", "quick"), choices=["quick", "thorough"])
    ap.add_argument("--repo", default=os.environ.get("VERIF_REPO", "/repo"))
    ap.add_argument("--replay", default=None)
    ap.add_argument("--no-evidence", action="store_true")
    ap.add_argument("--evidence-dir", default=None)
    args = ap.parse_args(argv)
    prop = args.prop.upper()
    seed = int(os.environ.get("VERIF_SEED", "0") or 0)
    try:
        from .engine import Context
        try:
            mod = importlib.import_module(f"sa.rules.{prop.lower()}")
        except ModuleNotFoundError:
            print(f"ANALYSIS-ERROR property={prop}: no rule module")
            return 2
        rep = Report(prop, args.tier, seed)
        ctx = Context(args.repo)
        mod.run(ctx, rep)
        if args.tier == "thorough":
            if hasattr(mod, "run_thorough"):
                mod.run_thorough(ctx, rep)
            from . import sensitivity
            sensitivity.run(ctx, rep, prop, seed=seed)
        if args.replay:
            with open(args.replay) as fh:
                old = json.load(fh)
            cur = {f.key for f in rep.findings}
            for f in old.get("findings", []):
                state = "STILL PRESENT" if f["key"] in cur else "no longer present"
                print(f"replay: {state}: {f['key']}")
        return finish(rep, ctx.repo_stats, ctx.cg_stats, write_evidence=not args.no_evidence,
                      evidence_dir=args.evidence_dir)
    except AnalysisError as exc:
        print(f"ANALYSIS-ERROR property={prop}: {exc}")
        return 2
    except Exception:  # a traceback must not look like a violation
        traceback.print_exc()
        print(f"ANALYSIS-ERROR property={prop}: internal error in the checker")
        return 2


if __name__ == "__main__":
    sys.exit(main())
