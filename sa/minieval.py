"""A tiny evaluator for *predicate fragments* of the analysed source over a
finite set of abstract states (used for the 36-state decision table of the
filter, C03).  Only a whitelisted expression / statement subset is
understood; anything else raises Unsupported (-> ANALYSIS-ERROR).  The
analysed program itself is never imported or run: the fragment's AST is
interpreted by this file with IEEE comparison semantics."""
from __future__ import annotations

import ast
import math


class Unsupported(Exception):
    pass


class Env:
    def __init__(self, names=None, attrs=None, user=None, on_call=None):
        self.names = dict(names or {})
        self.attrs = dict(attrs or {})  # "self._fun_filter" -> python list
        # user(call) -> (FunctionDef node, bound self name or None) for calls
        # of small helpers of the analysed code; their body is interpreted
        self.user = user
        self.on_call = on_call


class _Return(Exception):
    def __init__(self, value):
        self.value = value


def call_user(fnode, self_name, call, env, depth=0):
    """Interpret a call of a helper of the analysed code: parameters are
    bound to the evaluated arguments, attribute state is shared."""
    if depth > 6:
        raise Unsupported("helper recursion")
    a = fnode.args
    if a.vararg or a.kwarg or a.posonlyargs or a.kwonlyargs:
        raise Unsupported(f"signature of helper {fnode.name}")
    params = [x.arg for x in a.args]
    if self_name is not None:
        params = params[1:]
    vals = {}
    if any(isinstance(x, ast.Starred) for x in call.args) or any(k.arg is None for k in call.keywords):
        raise Unsupported("star arguments")
    for pn, av in zip(params, call.args):
        vals[pn] = ev(av, env)
    for k in call.keywords:
        if k.arg not in params or k.arg in vals:
            raise Unsupported(f"keyword {k.arg}")
        vals[k.arg] = ev(k.value, env)
    ndef = len(a.defaults)
    for pn, d in zip([x.arg for x in a.args][len(a.args) - ndef:], a.defaults):
        if pn not in vals:
            vals[pn] = ev(d, env)
    if set(vals) != set(params):
        raise Unsupported(f"arguments of helper {fnode.name}")
    sub = Env(vals, None, env.user, env.on_call)
    sub.attrs = env.attrs          # shared object state
    if self_name is not None and self_name != "self":
        raise Unsupported("receiver name")
    body = fnode.body
    try:
        run_block(body, sub, env.on_call, depth + 1)
    except _Return as r:
        return r.value
    return None


def ev(e, env):
    if isinstance(e, ast.Constant):
        return e.value
    if isinstance(e, ast.Name):
        if e.id in env.names:
            return env.names[e.id]
        if e.id in ("True", "False"):
            return e.id == "True"
        raise Unsupported(f"unbound name {e.id}")
    if isinstance(e, ast.Attribute):
        key = ast.unparse(e)
        if key in env.attrs:
            return env.attrs[key]
        if e.attr in ("inf",):
            return math.inf
        if e.attr in ("nan",):
            return math.nan
        raise Unsupported(f"attribute {key}")
    if isinstance(e, ast.BoolOp):
        if isinstance(e.op, ast.And):
            v = True
            for x in e.values:
                v = ev(x, env)
                if not v:
                    return v
            return v
        v = False
        for x in e.values:
            v = ev(x, env)
            if v:
                return v
        return v
    if isinstance(e, ast.UnaryOp):
        v = ev(e.operand, env)
        if isinstance(e.op, ast.Not):
            return not v
        if isinstance(e.op, ast.USub):
            return -v
        raise Unsupported("unary op")
    if isinstance(e, ast.BinOp):
        a, b = ev(e.left, env), ev(e.right, env)
        if isinstance(e.op, ast.Add):
            return a + b
        if isinstance(e.op, ast.Sub):
            return a - b
        if isinstance(e.op, ast.Mult):
            return a * b
        try:
            if isinstance(e.op, ast.Pow):
                return a ** b
            if isinstance(e.op, ast.FloorDiv):
                return a // b
            if isinstance(e.op, ast.Div):
                return a / b
        except (OverflowError, ZeroDivisionError) as exc:
            raise Unsupported(f"arithmetic error: {exc}")
        raise Unsupported("binary op")
    if isinstance(e, ast.Compare):
        left = ev(e.left, env)
        for op, c in zip(e.ops, e.comparators):
            right = ev(c, env)
            if isinstance(op, ast.Lt):
                r = left < right
            elif isinstance(op, ast.LtE):
                r = left <= right
            elif isinstance(op, ast.Gt):
                r = left > right
            elif isinstance(op, ast.GtE):
                r = left >= right
            elif isinstance(op, ast.Eq):
                r = left == right
            elif isinstance(op, ast.NotEq):
                r = left != right
            else:
                raise Unsupported("comparison operator")
            if not r:
                return False
            left = right
        return True
    if isinstance(e, ast.IfExp):
        return ev(e.body, env) if ev(e.test, env) else ev(e.orelse, env)
    if isinstance(e, ast.Subscript):
        base = ev(e.value, env)
        if isinstance(base, list):
            idx = ev(e.slice, env)
            if not isinstance(idx, int):
                raise Unsupported("non-integer index")
            try:
                return base[idx]
            except IndexError:
                raise Unsupported("index out of range in fragment")
        raise Unsupported("subscript")
    if isinstance(e, ast.Call):
        name = ast.unparse(e.func).split(".")[-1]
        if name == "isnan" and len(e.args) == 1:
            v = ev(e.args[0], env)
            return isinstance(v, float) and math.isnan(v)
        if name == "isfinite" and len(e.args) == 1:
            v = ev(e.args[0], env)
            return isinstance(v, (int, float)) and math.isfinite(v)
        if name == "len" and len(e.args) == 1:
            return len(ev(e.args[0], env))
        if name in ("all", "any") and len(e.args) == 1:
            a = e.args[0]
            if isinstance(a, (ast.GeneratorExp, ast.ListComp)):
                vals = list(comp(a, env))
            else:
                vals = list(ev(a, env))
            return all(vals) if name == "all" else any(vals)
        if name == "zip":
            return list(zip(*[ev(a, env) for a in e.args]))
        if name == "range":
            return list(range(*[ev(a, env) for a in e.args]))
        if name in ("list", "tuple", "reversed", "sorted") and len(e.args) == 1:
            v = list(ev(e.args[0], env))
            return list(reversed(v)) if name == "reversed" else (sorted(v) if name == "sorted" else v)
        if name in ("bool", "float", "int"):
            return {"bool": bool, "float": float, "int": int}[name](ev(e.args[0], env))
        if name == "enumerate":
            return list(enumerate(ev(e.args[0], env)))
        if name in ("min", "max") and e.args:
            vals = [ev(a, env) for a in e.args]
            return min(vals) if name == "min" else max(vals)
        if env.user is not None:
            hit = env.user(e)
            if hit is not None:
                return call_user(hit[0], hit[1], e, env)
        raise Unsupported(f"call {ast.unparse(e.func)}")
    if isinstance(e, ast.Tuple):
        return tuple(ev(x, env) for x in e.elts)
    if isinstance(e, ast.List):
        return [ev(x, env) for x in e.elts]
    raise Unsupported(type(e).__name__)


def comp(c, env):
    if len(c.generators) != 1:
        raise Unsupported("nested comprehension")
    g = c.generators[0]
    it = ev(g.iter, env)
    for item in it:
        sub = Env(env.names, None, env.user, env.on_call)
        sub.attrs = env.attrs
        bind(g.target, item, sub)
        if all(ev(cond, sub) for cond in g.ifs):
            yield ev(c.elt, sub)


def bind(target, value, env):
    if isinstance(target, ast.Name):
        env.names[target.id] = value
    elif isinstance(target, (ast.Tuple, ast.List)):
        vals = list(value)
        if len(vals) != len(target.elts):
            raise Unsupported("unpack length")
        for t, v in zip(target.elts, vals):
            bind(t, v, env)
    else:
        raise Unsupported("bind target")


class Stop(Exception):
    pass


def run_block(stmts, env, on_call=None, depth=0):
    """Interpret If / Assign / For / Expr(call) statements.  `on_call(call,
    env)` handles expression statements (list mutations)."""
    for s in stmts:
        if isinstance(s, ast.If):
            if ev(s.test, env):
                run_block(s.body, env, on_call, depth + 1)
            else:
                run_block(s.orelse, env, on_call, depth + 1)
        elif isinstance(s, ast.Assign):
            v = ev(s.value, env)
            for t in s.targets:
                bind(t, v, env)
        elif isinstance(s, ast.For):
            for item in ev(s.iter, env):
                bind(s.target, item, env)
                run_block(s.body, env, on_call, depth + 1)
        elif isinstance(s, ast.Expr) and isinstance(s.value, ast.Call):
            hit = env.user(s.value) if getattr(env, "user", None) is not None else None
            if hit is not None:
                call_user(hit[0], hit[1], s.value, env, depth)
                continue
            if on_call is None:
                raise Unsupported("call statement")
            on_call(s.value, env)
        elif isinstance(s, ast.Return):
            raise _Return(ev(s.value, env) if s.value is not None else None)
        elif isinstance(s, ast.AugAssign) and isinstance(s.target, ast.Name):
            cur = ev(ast.Name(id=s.target.id, ctx=ast.Load()), env)
            env.names[s.target.id] = ev(ast.BinOp(left=ast.Constant(cur), op=s.op, right=s.value), env)
        elif isinstance(s, ast.While):
            k = 0
            while ev(s.test, env):
                k += 1
                if k > 10000:
                    raise Unsupported("non-terminating while")
                run_block(s.body, env, on_call, depth + 1)
        elif isinstance(s, ast.Pass):
            continue
        elif isinstance(s, ast.Expr) and isinstance(s.value, ast.Constant):
            continue
        else:
            raise Unsupported(f"statement {type(s).__name__} at line {s.lineno}")
