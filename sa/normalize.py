"""Source normaliser, applied to every module right after parsing.

The rules of this checker are anchored on the functions, module constants and
local variables of the reference tree (frozen in sa/vocab.json).  A later edit
may extract a block into a new private helper, hoist a literal to a new module
constant or name a sub-expression with a new local.  None of these changes
what the program does, and none of them should change what the rules see.  So
every function / module constant / local that is *not* in the frozen
vocabulary is made transparent here:

  * calls of unknown same-module helpers are inlined (statement level, with
    early returns lowered to if/else; expression level for single-expression
    helpers);
  * unknown module-level literal constants are substituted at their uses;
  * unknown locals are removed by (T2) sinking the statement that follows an
    if-chain into its branches, (T3) moving `self.F = u` up to the definition
    of u, and (T1) forward substitution of pure single definitions while the
    operands are unchanged.

Every transformation preserves the meaning of the analysed function (nothing
is executed; this is a syntactic rewriting with conservative side conditions)
and a construct that cannot be handled is simply left alone - the rules then
see an unfamiliar shape and answer ANALYSIS-ERROR, never a verdict.  On the
reference tree nothing is unknown and the pass is the identity.
"""
from __future__ import annotations

import ast
import json
import os

_VOCAB = None


def vocab():
    global _VOCAB
    if _VOCAB is None:
        p = os.path.join(os.path.dirname(os.path.abspath(__file__)), "vocab.json")
        with open(p) as fh:
            _VOCAB = json.load(fh)
    return _VOCAB


class NotInlinable(Exception):
    pass


def clone(node):
    if isinstance(node, list):
        return [clone(x) for x in node]
    if not isinstance(node, ast.AST):
        return node
    new = node.__class__()
    for field, val in ast.iter_fields(node):
        setattr(new, field, clone(val))
    for attr in ("lineno", "col_offset", "end_lineno", "end_col_offset", "_inl"):
        if hasattr(node, attr):
            setattr(new, attr, getattr(node, attr))
    return new


PURE_FUNCS = {
    "len", "min", "max", "abs", "float", "int", "bool", "range", "zip", "enumerate", "sorted", "isinstance", "tuple", "list",
    "callable", "getattr", "hasattr", "any", "all", "sum", "str", "repr",
    "get_arrays_tol",
}
NP_ALLOC = {"copy", "array", "zeros", "empty", "full", "ones", "zeros_like", "empty_like", "full_like", "ones_like", "eye", "asarray", "atleast_1d", "atleast_2d"}
MUTATORS = {"append", "pop", "insert", "extend", "clear", "sort", "fill", "update", "setdefault", "remove", "popitem", "resize", "put"}
BLOCK_FIELDS = ("body", "orelse", "finalbody")


def _stmt_lists(node):
    """all statement lists below node (a function def or a statement)"""
    for f in BLOCK_FIELDS:
        b = getattr(node, f, None)
        if isinstance(b, list) and b and isinstance(b[0], ast.stmt):
            yield b
    for h in getattr(node, "handlers", []) or []:
        yield h.body
    for c in getattr(node, "cases", []) or []:
        yield c.body


def _all_blocks(fnode):
    """every statement list of the function, outermost first (nested function
    definitions are not entered)"""
    out = []

    def rec(node):
        for b in _stmt_lists(node):
            out.append(b)
            for s in b:
                if isinstance(s, (ast.FunctionDef, ast.AsyncFunctionDef, ast.ClassDef)):
                    continue
                rec(s)
    rec(fnode)
    return out


def _own_exprs(s):
    """the expressions evaluated by statement s itself (not by nested blocks)"""
    if isinstance(s, (ast.If, ast.While)):
        return [("test", s.test)]
    if isinstance(s, ast.For):
        return [("iter", s.iter)]
    if isinstance(s, ast.With):
        return [("with", it.context_expr) for it in s.items]
    if isinstance(s, (ast.Try, ast.FunctionDef, ast.AsyncFunctionDef, ast.ClassDef)):
        return []
    out = []
    for f, v in ast.iter_fields(s):
        if isinstance(v, ast.AST):
            out.append((f, v))
        elif isinstance(v, list):
            out.extend((f, x) for x in v if isinstance(x, ast.AST))
    return out


def _names(node, ctx=None):
    out = set()
    for n in ast.walk(node):
        if isinstance(n, ast.Name) and (ctx is None or isinstance(n.ctx, ctx)):
            out.add(n.id)
    return out


def _has(node, types):
    return any(isinstance(n, types) for n in ast.walk(node))


class _Counter:
    def __init__(self):
        self.k = 0
        self.stats = {"helpers_inlined": 0, "expr_helpers_inlined": 0, "globals_substituted": 0, "locals_substituted": 0, "stores_sunk": 0, "field_aliases": 0}

    def fresh(self):
        self.k += 1
        return self.k


class Line(float):
    """line number of an inlined node: the call site's line plus a tiny
    sequence fraction, so that source-order comparisons and sorts keep
    working; prints as the call site's line"""
    def __repr__(self):
        return str(int(self))
    __str__ = __repr__

    def __format__(self, spec):
        return format(int(self), spec)

    def __hash__(self):
        return float.__hash__(self)


def _relocate(nodes, line, cnt, origin):
    """give inlined nodes the position of the call site (ordering keys stay
    monotonic) and remember where they came from"""
    def rec(n):
        if isinstance(n, list):
            for x in n:
                rec(x)
            return
        if not isinstance(n, ast.AST):
            return
        if hasattr(n, "lineno") or isinstance(n, (ast.stmt, ast.expr)):
            if not hasattr(n, "_inl"):
                n._inl = (origin, getattr(n, "lineno", None))
            n.lineno = Line(int(line) + cnt.fresh() * 1e-6)
            n.end_lineno = n.lineno
        for _, v in ast.iter_fields(n):
            rec(v)
    rec(nodes)


# ---------------------------------------------------------------------------
# helper inlining
def _always_exits(stmts):
    if not stmts:
        return False
    last = stmts[-1]
    if isinstance(last, (ast.Return, ast.Raise)):
        return True
    if isinstance(last, ast.If) and last.orelse:
        return _always_exits(last.body) and _always_exits(last.orelse)
    return False


def _returns_inside(s):
    """does statement s contain a Return (not inside a nested function)?"""
    for n in ast.walk(s):
        if isinstance(n, ast.Return):
            return True
    return False


def _is_static(h):
    return len(h.decorator_list) == 1 and isinstance(h.decorator_list[0], ast.Name) and h.decorator_list[0].id == "staticmethod"


def _check_inlinable(h):
    if h.decorator_list and not _is_static(h):
        raise NotInlinable("decorated")
    a = h.args
    if a.vararg or a.kwarg or a.posonlyargs:
        raise NotInlinable("signature")
    for n in ast.walk(h):
        if isinstance(n, (ast.Yield, ast.YieldFrom, ast.Await, ast.Global, ast.Nonlocal, ast.AsyncFunctionDef, ast.ClassDef)):
            raise NotInlinable("construct")
        if isinstance(n, ast.FunctionDef) and n is not h:
            raise NotInlinable("nested def")
    # returns only at tail positions of if-chains
    def tail_ok(stmts, top=True):
        for i, s in enumerate(stmts):
            if isinstance(s, ast.Return):
                continue
            if isinstance(s, ast.If):
                tail_ok(s.body, top)
                tail_ok(s.orelse, top)
            elif isinstance(s, ast.Try) and i == len(stmts) - 1 and not s.finalbody and _returns_inside(s):
                # try: ..; return A  except E: return B   at the very end: every
                # path through it ends in a return (or falls off the end)
                for blk in [s.body, s.orelse] + [hh.body for hh in s.handlers]:
                    for k, x in enumerate(blk):
                        if _returns_inside(x) and not (isinstance(x, ast.Return) and k == len(blk) - 1):
                            raise NotInlinable("return in the middle of a try block")
                if s.orelse and s.body and isinstance(s.body[-1], ast.Return):
                    raise NotInlinable("return before else")
            elif _returns_inside(s):
                raise NotInlinable("return inside loop/try/with")
    tail_ok(h.body)


def _body_wo_doc(h):
    b = h.body
    if b and isinstance(b[0], ast.Expr) and isinstance(b[0].value, ast.Constant) and isinstance(b[0].value.value, str):
        b = b[1:]
    return b


def _lower(stmts, make):
    """statement list with tail returns -> statement list without returns;
    make(value or None) builds the replacement of `return value`"""
    out = []
    for i, s in enumerate(stmts):
        if isinstance(s, ast.Return):
            out.extend(make(s.value))
            return out
        if isinstance(s, ast.If) and _returns_inside(s):
            rest = stmts[i + 1:]
            body = list(s.body) + ([] if _always_exits(s.body) else clone(rest))
            orelse = list(s.orelse) + ([] if _always_exits(s.orelse) else clone(rest))
            nb = _lower(body, make)
            no = _lower(orelse, make)
            new = ast.If(test=s.test, body=nb or [ast.Pass()], orelse=no)
            ast.copy_location(new, s)
            out.append(new)
            return out
        if isinstance(s, ast.Try) and _returns_inside(s):
            # tail try (checked by _check_inlinable): lower each block separately;
            # a block that falls off its end continues with `return None`
            def blk(b):
                return _lower(list(b), make) or [ast.Pass()]
            body = blk(s.body) if not s.orelse else list(s.body)
            new = ast.Try(body=body, handlers=[ast.copy_location(ast.ExceptHandler(type=hh.type, name=hh.name, body=blk(hh.body)), hh) for hh in s.handlers],
                          orelse=blk(s.orelse) if s.orelse else [], finalbody=[])
            ast.copy_location(new, s)
            out.append(new)
            return out
        out.append(s)
    out.extend(make(None))
    return out


def _lower_expr(stmts, subst):
    """single-expression view of a helper body: [simple assigns]* then return /
    if-with-returns -> conditional expression"""
    subst = dict(subst)
    for i, s in enumerate(stmts):
        if isinstance(s, ast.Assign) and len(s.targets) == 1 and isinstance(s.targets[0], ast.Name):
            v = _subst_names(clone(s.value), subst)
            if not _pure(v, allow_alloc=False):
                # a value with side effects may still be moved into its *only* use when that
                # use is the very next thing evaluated (the return expression that follows)
                rest_loads = sum(1 for st2 in stmts[i + 1:] for x in ast.walk(st2) if isinstance(x, ast.Name) and x.id == s.targets[0].id and isinstance(x.ctx, ast.Load))
                if not (rest_loads == 1 and i + 2 == len(stmts) and isinstance(stmts[i + 1], ast.Return)):
                    raise NotInlinable("impure local")
            subst[s.targets[0].id] = v
            continue
        if isinstance(s, ast.Return):
            if s.value is None:
                raise NotInlinable("bare return")
            return _subst_names(clone(s.value), subst)
        if isinstance(s, ast.If) and _returns_inside(s):
            rest = stmts[i + 1:]
            b = _lower_expr(list(s.body) + ([] if _always_exits(s.body) else rest), subst)
            o = _lower_expr(list(s.orelse) + ([] if _always_exits(s.orelse) else rest), subst)
            e = ast.IfExp(test=_subst_names(clone(s.test), subst), body=b, orelse=o)
            return e
        raise NotInlinable("statement in expression helper")
    raise NotInlinable("no return")


def _subst_names(node, subst):
    class _S(ast.NodeTransformer):
        def visit_Name(self, n):
            if isinstance(n.ctx, ast.Load) and n.id in subst:
                return clone(subst[n.id])
            return n

        def visit_Lambda(self, n):
            inner = {k: v for k, v in subst.items() if k not in {a.arg for a in n.args.args}}
            n.body = _subst_names(n.body, inner)
            return n
    return _S().visit(node)


def _rename(node, mapping):
    for n in ast.walk(node) if not isinstance(node, list) else [x for s in node for x in ast.walk(s)]:
        if isinstance(n, ast.Name) and n.id in mapping:
            n.id = mapping[n.id]
        elif isinstance(n, ast.arg) and n.arg in mapping:
            n.arg = mapping[n.arg]
        elif isinstance(n, ast.ExceptHandler) and n.name in mapping:
            n.name = mapping[n.name]


def _simple_arg(e):
    if isinstance(e, (ast.Name, ast.Constant)):
        return True
    if isinstance(e, ast.Attribute):
        return _simple_arg(e.value)
    if isinstance(e, ast.Subscript):
        return _simple_arg(e.value) and all(isinstance(x, (ast.Name, ast.Constant, ast.Attribute, ast.Slice, ast.Tuple, ast.UnaryOp)) for x in ast.walk(e.slice) if isinstance(x, ast.expr))
    if isinstance(e, ast.UnaryOp):
        return _simple_arg(e.operand)
    return False


def _bind(h, call, is_method, recv_name):
    a = h.args
    params = [x.arg for x in a.args]
    subst = {}
    if is_method:
        if not params:
            raise NotInlinable("no self")
        subst[params[0]] = ast.Name(id=recv_name, ctx=ast.Load())
        params = params[1:]
    kwonly = [x.arg for x in a.kwonlyargs]
    if any(isinstance(x, ast.Starred) for x in call.args) or any(k.arg is None for k in call.keywords):
        raise NotInlinable("star args")
    if len(call.args) > len(params):
        raise NotInlinable("too many args")
    for p, v in zip(params, call.args):
        subst[p] = v
    for k in call.keywords:
        if k.arg in subst or k.arg not in params + kwonly:
            raise NotInlinable("keyword")
        subst[k.arg] = k.value
    all_params = [x.arg for x in a.args]
    nd = len(a.defaults)
    for p, d in zip(all_params[len(all_params) - nd:], a.defaults):
        subst.setdefault(p, d)
    for p, d in zip(kwonly, a.kw_defaults):
        if d is not None:
            subst.setdefault(p, d)
    for p in params + kwonly:
        if p not in subst:
            raise NotInlinable(f"missing argument {p}")
    return subst


def _prepare_body(h, call, is_method, recv_name, caller, cnt):
    """-> (prelude assignments, body statements) with parameters bound and
    helper locals renamed away from the caller's names"""
    _check_inlinable(h)
    subst = _bind(h, call, is_method, recv_name)
    body = clone(_body_wo_doc(h))
    assigned = set()
    for s in body:
        assigned |= _names(s, (ast.Store, ast.Del))
        for n in ast.walk(s):
            if isinstance(n, ast.ExceptHandler) and n.name:
                assigned.add(n.name)
    params = set(subst)
    locals_ = assigned - params
    caller_names = _names(caller) | {x.arg for x in caller.args.args + caller.args.kwonlyargs}
    arg_names = set()
    for v in subst.values():
        arg_names |= _names(v)
    own_loads = {n.id for n in ast.walk(caller) if isinstance(n, ast.Name) and isinstance(n.ctx, ast.Load) and not hasattr(n, "_inl")}
    own_loads |= {x.arg for x in caller.args.args + caller.args.kwonlyargs}
    mapping = {}
    for l in sorted(locals_):
        # a helper local is always defined before it is used, so it can keep a
        # name that the caller itself never reads (e.g. a name introduced by an
        # earlier inlining of the same helper)
        if (l in caller_names and l in own_loads) or l in arg_names:
            # the same name on both sides: keep it only when the caller's own
            # variable of that name is the target of this very call
            mapping[l] = f"{l}__{h.name.strip('_')}"
    prelude = []
    for p in sorted(params):
        v = subst[p]
        if p in assigned or not _simple_arg(v):
            # parameter rebound in the helper / complex argument: bind a local
            newp = p if (p not in caller_names and p not in arg_names) else f"{p}__{h.name.strip('_')}"
            mapping_p = newp
            asg = ast.Assign(targets=[ast.Name(id=newp, ctx=ast.Store())], value=clone(v), type_comment=None)
            prelude.append((p, newp, asg))
    if mapping:
        _rename(body, mapping)
    direct = {p: v for p, v in subst.items() if not any(p == q[0] for q in prelude)}
    pre_stmts = []
    for p, newp, asg in prelude:
        pre_stmts.append(asg)
        if newp != p:
            _rename(body, {p: newp})
    body = [_subst_names(s, direct) for s in body]
    # stores to a directly substituted parameter cannot happen (it would be in `assigned`)
    return pre_stmts, body


def _resolve_helper(call, env):
    """env: dict(top=unknown top-level defs, methods=unknown methods of the
    caller's class, self_name)"""
    fn = call.func
    if isinstance(fn, ast.Name) and fn.id in env.get("nested", {}):
        return env["nested"][fn.id], False      # a local closure: its free variables are the caller's own
    if isinstance(fn, ast.Name) and fn.id in env["top"] and fn.id not in env["shadow"]:
        return env["top"][fn.id], False
    if isinstance(fn, ast.Attribute) and isinstance(fn.value, ast.Name) and env["self_name"] and fn.value.id == env["self_name"] and fn.attr in env["methods"]:
        h = env["methods"][fn.attr]
        return h, not _is_static(h)
    if isinstance(fn, ast.Attribute) and isinstance(fn.value, ast.Name) and fn.value.id == env.get("class_name") and fn.attr in env["methods"] and _is_static(env["methods"][fn.attr]):
        return env["methods"][fn.attr], False
    return None, False


def _inline_in_function(caller, env, cnt, depth=0):
    """inline calls of unknown helpers in all blocks of `caller`"""
    changed = False
    if depth > 4:
        return False
    for block in _all_blocks(caller):
        i = 0
        while i < len(block):
            s = block[i]
            repl = None
            try:
                repl = _inline_stmt(s, caller, env, cnt)
            except NotInlinable:
                repl = None
            if repl is not None:
                block[i:i + 1] = repl
                changed = True
                continue   # re-examine the first inlined statement
            i += 1
    if changed:
        _inline_in_function(caller, env, cnt, depth + 1)
    return changed


def _inline_stmt(s, caller, env, cnt):
    line = getattr(s, "lineno", 0)
    # (a) statement-level positions
    call = None
    mode = None
    if isinstance(s, ast.Expr) and isinstance(s.value, ast.Call):
        call, mode = s.value, "expr"
    elif isinstance(s, ast.Assign) and isinstance(s.value, ast.Call):
        call, mode = s.value, "assign"
    elif isinstance(s, ast.Return) and isinstance(s.value, ast.Call):
        call, mode = s.value, "return"
    if call is not None:
        h, is_m = _resolve_helper(call, env)
        if h is not None and h is not caller:
            # single-expression helpers keep the statement shape
            if mode in ("assign", "return") and not _has(h, ast.If):
                try:
                    subst = _bind(h, call, is_m, env["self_name"])
                    _check_inlinable(h)
                    if all(_simple_arg(v) or _pure(v, allow_alloc=True) for v in subst.values()):
                        e = _lower_expr(clone(_body_wo_doc(h)), subst)
                        _relocate(e, line, cnt, h.name)
                        s.value = e
                        s._inl = (h.name, line)
                        cnt.stats["expr_helpers_inlined"] += 1
                        return [s]
                except NotInlinable:
                    pass
            pre, body = _prepare_body(h, call, is_m, env["self_name"], caller, cnt)
            if mode == "assign":
                targets = s.targets

                def make(v):
                    return [ast.Assign(targets=clone(targets), value=v if v is not None else ast.Constant(None), type_comment=None)]
            elif mode == "return":
                def make(v):
                    return [ast.Return(value=v)]
            else:
                def make(v):
                    if v is not None and _has(v, ast.Call):
                        return [ast.Expr(value=v)]
                    return []
            new = pre + _lower(body, make)
            if not new:
                new = [ast.Pass()]
            _relocate(new, line, cnt, h.name)
            cnt.stats["helpers_inlined"] += 1
            return new
    # (b) calls nested in the statement's own expressions
    for field, e in _own_exprs(s):
        for c in [n for n in ast.walk(e) if isinstance(n, ast.Call)]:
            if c is call:
                continue
            h, is_m = _resolve_helper(c, env)
            if h is None or h is caller:
                continue
            try:
                _check_inlinable(h)
                subst = _bind(h, c, is_m, env["self_name"])
                if not all(_simple_arg(v) or _pure(v, allow_alloc=True) for v in subst.values()):
                    raise NotInlinable("complex argument")
                ne = _lower_expr(clone(_body_wo_doc(h)), subst)
            except NotInlinable:
                # hoist an unconditionally evaluated call in front of the statement
                if isinstance(s, ast.While) or not _unconditional(c, e):
                    continue
                tmp = f"__{h.name.strip('_')}_{cnt.fresh()}"
                asg = ast.Assign(targets=[ast.Name(id=tmp, ctx=ast.Store())], value=c, type_comment=None)
                ast.copy_location(asg, s)
                _replace_node(s, c, ast.copy_location(ast.Name(id=tmp, ctx=ast.Load()), c))
                return [asg, s]
            _relocate(ne, line, cnt, h.name)
            _replace_node(s, c, ne)
            cnt.stats["expr_helpers_inlined"] += 1
            return [s]
    return None


def _unconditional(c, root):
    """is call c evaluated whenever root is (not under and/or/ifexp/lambda/comprehension)?"""
    path = _path_to(root, c)
    if path is None:
        return False
    for parent, child in zip(path, path[1:]):
        if isinstance(parent, ast.BoolOp) and parent.values[0] is not child:
            return False
        if isinstance(parent, ast.IfExp) and parent.test is not child:
            return False
        if isinstance(parent, (ast.Lambda, ast.ListComp, ast.SetComp, ast.DictComp, ast.GeneratorExp)):
            return False
    return True


def _path_to(root, target):
    if root is target:
        return [root]
    for ch in ast.iter_child_nodes(root):
        p = _path_to(ch, target)
        if p is not None:
            return [root] + p
    return None


def _replace_node(root, old, new):
    for n in ast.walk(root):
        for f, v in ast.iter_fields(n):
            if v is old:
                setattr(n, f, new)
                return True
            if isinstance(v, list):
                for i, x in enumerate(v):
                    if x is old:
                        v[i] = new
                        return True
    return False


# ---------------------------------------------------------------------------
PURE_METHODS = set()    # names of package functions / methods that are pure (set by the loader)


def compute_pure_names(trees):
    """names n such that every function called n in the package only computes
    and returns a value (no stores to attributes / subscripts, no calls other
    than pure ones)"""
    defs = {}
    for t in trees:
        for n in ast.walk(t):
            if isinstance(n, ast.FunctionDef):
                defs.setdefault(n.name, []).append(n)
    pure = set()

    def fn_pure(fn):
        if any(isinstance(d, ast.Attribute) and d.attr == "setter" for d in fn.decorator_list):
            return False
        for s_ in _body_wo_doc(fn):
            for n in ast.walk(s_):
                if isinstance(n, (ast.Assign, ast.AugAssign, ast.AnnAssign)):
                    tg = n.targets if isinstance(n, ast.Assign) else [n.target]
                    for t_ in tg:
                        for x in ast.walk(t_):
                            if isinstance(x, (ast.Attribute, ast.Subscript)) and isinstance(x.ctx, ast.Store):
                                return False
                if isinstance(n, (ast.Global, ast.Nonlocal, ast.Yield, ast.YieldFrom, ast.Delete, ast.With, ast.Try, ast.Raise, ast.While, ast.For, ast.Import, ast.ImportFrom, ast.FunctionDef)) and n is not fn:
                    if isinstance(n, ast.Raise):
                        continue     # raising on invalid input is not a side effect on the state
                    return False
            for n in ast.walk(s_):
                if isinstance(n, ast.Call) and not _pure(n, allow_alloc=True):
                    return False
        return True
    for _ in range(4):
        PURE_METHODS.clear()
        PURE_METHODS.update(pure)
        new = {name for name, fs in defs.items() if not name.startswith("__") and all(fn_pure(f) for f in fs)}
        if new == pure:
            break
        pure = new
    PURE_METHODS.clear()
    PURE_METHODS.update(pure)
    return pure


def _pure(e, allow_alloc=False):
    """expression without side effects (calls only to a whitelist)"""
    for n in ast.walk(e):
        if isinstance(n, (ast.Lambda, ast.Await, ast.Yield, ast.YieldFrom, ast.NamedExpr)):
            return False
        if isinstance(n, ast.Call):
            fn = n.func
            if isinstance(fn, ast.Name):
                if fn.id not in PURE_FUNCS and fn.id not in PURE_METHODS:
                    return False
            elif isinstance(fn, ast.Attribute):
                root = fn
                while isinstance(root, ast.Attribute):
                    root = root.value
                if isinstance(root, ast.Name) and root.id in ("np", "numpy"):
                    if fn.attr in NP_ALLOC and not allow_alloc:
                        return False
                    if fn.attr in ("seterr", "random"):
                        return False
                elif fn.attr == "get" and len(n.args) in (1, 2):
                    pass      # mapping read
                elif fn.attr in ("values", "keys", "items") and not n.args and not n.keywords:
                    pass      # mapping views
                elif fn.attr in PURE_METHODS and fn.attr not in MUTATORS:
                    pass      # a pure method of the analysed package
                else:
                    return False
            else:
                return False
    return True


def _stores_of(stmt):
    """(names, attribute/subscript base texts) stored anywhere in stmt,
    including in-place mutation through well-known mutator methods"""
    names, texts = set(), set()
    for n in ast.walk(stmt):
        tg = []
        if isinstance(n, ast.Assign):
            tg = n.targets
        elif isinstance(n, (ast.AugAssign, ast.AnnAssign)):
            tg = [n.target]
        elif isinstance(n, ast.For):
            tg = [n.target]
        elif isinstance(n, ast.With):
            tg = [it.optional_vars for it in n.items if it.optional_vars is not None]
        elif isinstance(n, ast.Delete):
            tg = n.targets
        elif isinstance(n, ast.NamedExpr):
            tg = [n.target]
        elif isinstance(n, ast.Call) and isinstance(n.func, ast.Attribute) and n.func.attr in MUTATORS:
            tg = [n.func.value]
        for t in tg:
            for x in ast.walk(t) if isinstance(t, (ast.Tuple, ast.List)) else [t]:
                if isinstance(x, (ast.Tuple, ast.List)):
                    continue
                base = x
                while isinstance(base, (ast.Subscript, ast.Starred)):
                    base = base.value
                if isinstance(base, ast.Name):
                    names.add(base.id)
                elif isinstance(base, ast.Attribute):
                    texts.add(ast.unparse(base))
                    r = base
                    while isinstance(r, ast.Attribute):
                        r = r.value
                    if isinstance(r, ast.Name) and x is not base:
                        pass
    return names, texts


def _operands(e):
    """(names, attribute texts incl. prefixes) read by expression e"""
    names, texts = set(), set()
    for n in ast.walk(e):
        if isinstance(n, ast.Name):
            names.add(n.id)
        elif isinstance(n, ast.Attribute):
            texts.add(ast.unparse(n))
    return names, texts


STABLE_ATTRS = set()      # attribute / property names that are bound once (set by the loader)
INT_NAMES = set()         # loop counters over range(..) of the function being normalised


def compute_stable_attrs(trees):
    """attribute names that are only ever stored inside __init__ (their binding
    never changes afterwards) and properties that merely return such fields:
    reading them commutes with any call"""
    stored_elsewhere, all_attrs = set(), set()
    getters = {}
    for t in trees:
        for fn in ast.walk(t):
            if not isinstance(fn, ast.FunctionDef):
                continue
            is_prop = any(isinstance(d, ast.Name) and d.id == "property" for d in fn.decorator_list)
            if is_prop:
                getters.setdefault(fn.name, []).append(fn)
            for n in ast.walk(fn):
                tg = []
                if isinstance(n, ast.Assign):
                    tg = n.targets
                elif isinstance(n, (ast.AugAssign, ast.AnnAssign)):
                    tg = [n.target]
                elif isinstance(n, ast.Delete):
                    tg = n.targets
                for t_ in tg:
                    for x in ast.walk(t_):
                        if isinstance(x, ast.Attribute) and isinstance(x.ctx, (ast.Store, ast.Del)):
                            all_attrs.add(x.attr)
                            if fn.name != "__init__" or isinstance(n, ast.AugAssign):
                                stored_elsewhere.add(x.attr)
                if isinstance(n, ast.Call) and isinstance(n.func, ast.Name) and n.func.id == "setattr":
                    stored_elsewhere.add("*")
    stable = {a for a in all_attrs if a not in stored_elsewhere}
    for _ in range(4):
        grew = False
        for name, fs in getters.items():
            if name in stable or name in stored_elsewhere:
                continue
            okk = True
            for fn in fs:
                body = _body_wo_doc(fn)
                if not (len(body) == 1 and isinstance(body[0], ast.Return) and body[0].value is not None):
                    okk = False
                    break
                v = body[0].value
                if _has(v, ast.Call):
                    okk = False
                    break
                for x in ast.walk(v):
                    if isinstance(x, ast.Attribute) and x.attr not in stable and x.attr not in ("shape", "size", "ndim", "T"):
                        okk = False
            if okk:
                stable.add(name)
                grew = True
        if not grew:
            break
    STABLE_ATTRS.clear()
    if "*" not in stored_elsewhere:
        STABLE_ATTRS.update(stable)
    return STABLE_ATTRS


MUTATED_PARAMS = {}     # function name -> set of parameter indices (self excluded) / names it may mutate


def compute_param_mutation(trees):
    """name-level mod analysis: which parameters can a function of the package
    change in place (subscript / attribute store, mutator method, or handing
    the parameter on to a parameter that is changed)?"""
    defs = {}
    for t in trees:
        for node in ast.walk(t):
            if isinstance(node, ast.ClassDef):
                for it in node.body:
                    if isinstance(it, ast.FunctionDef):
                        defs.setdefault(it.name, []).append((it, True))
                        if it.name == "__init__":
                            defs.setdefault(node.name, []).append((it, True))     # constructor call
            elif isinstance(node, ast.FunctionDef):
                pass
        for node in t.body:
            if isinstance(node, ast.FunctionDef):
                defs.setdefault(node.name, []).append((node, False))
    mut = {name: set() for name in defs}
    per_def = {}      # id(fn) -> set of mutated parameter indices / names

    def compatible(cname, call):
        """definitions called `cname` that accept this many arguments"""
        n = len(call.args) + len(call.keywords)
        out = []
        for fn, is_m in defs.get(cname, []):
            ps = params_of(fn, is_m)
            req = len(ps) - len(fn.args.defaults)
            if req <= n <= len(ps) or fn.args.vararg or fn.args.kwarg:
                out.append((fn, is_m))
        return out or defs.get(cname, [])

    def params_of(fn, is_method):
        ps = [a.arg for a in fn.args.args]
        return ps[1:] if is_method and ps else ps
    for _ in range(6):
        grew = False
        for name, fs in defs.items():
            for fn, is_m in fs:
                ps = params_of(fn, is_m)
                for n in ast.walk(fn):
                    hit = set()
                    tg = []
                    if isinstance(n, ast.Assign):
                        tg = n.targets
                    elif isinstance(n, (ast.AugAssign, ast.AnnAssign)):
                        tg = [n.target]
                    elif isinstance(n, ast.Delete):
                        tg = n.targets
                    for t_ in tg:
                        for x in ast.walk(t_):
                            if isinstance(x, (ast.Subscript, ast.Attribute)) and isinstance(x.ctx, (ast.Store, ast.Del)):
                                r = x
                                while isinstance(r, (ast.Subscript, ast.Attribute)):
                                    r = r.value
                                if isinstance(r, ast.Name) and r.id in ps:
                                    hit.add(r.id)
                    if isinstance(n, ast.Call):
                        if isinstance(n.func, ast.Attribute) and n.func.attr in MUTATORS:
                            r = n.func.value
                            while isinstance(r, (ast.Subscript, ast.Attribute)):
                                r = r.value
                            if isinstance(r, ast.Name) and r.id in ps:
                                hit.add(r.id)
                        cname = n.func.id if isinstance(n.func, ast.Name) else (n.func.attr if isinstance(n.func, ast.Attribute) else None)
                        if cname in defs:
                            tgt_m = set()
                            for fn2, _m2 in compatible(cname, n):
                                tgt_m |= per_def.get(id(fn2), set())
                            for k, a in enumerate(n.args):
                                if isinstance(a, ast.Name) and a.id in ps:
                                    same = [fn2 for fn2, m2 in compatible(cname, n) if k < len(params_of(fn2, m2)) and params_of(fn2, m2)[k] == a.id]
                                    ms = tgt_m
                                    if same:
                                        ms = set()
                                        for fn2 in same:
                                            ms |= per_def.get(id(fn2), set())
                                    if k in ms:
                                        hit.add(a.id)
                            for kw in n.keywords:
                                if isinstance(kw.value, ast.Name) and kw.value.id in ps and kw.arg in tgt_m:
                                    hit.add(kw.value.id)
                        elif cname is not None and cname not in PURE_FUNCS and not (isinstance(n.func, ast.Attribute) and isinstance(n.func.value, ast.Name) and n.func.value.id in ("np", "numpy")):
                            # unknown callee (library / user code): it may change what it is given
                            for a in list(n.args) + [kw.value for kw in n.keywords]:
                                if isinstance(a, ast.Name) and a.id in ps and cname not in ("isinstance", "len", "print", "dict", "list", "tuple", "float", "int", "bool", "str", "hasattr", "getattr", "callable", "signature"):
                                    hit.add(a.id)
                    for h in hit:
                        k = ps.index(h)
                        pd = per_def.setdefault(id(fn), set())
                        if k not in pd:
                            pd.add(k)
                            pd.add(h)
                            mut[name].add(k)
                            mut[name].add(h)
                            grew = True
        if not grew:
            break
    MUTATED_PARAMS.clear()
    MUTATED_PARAMS.update(mut)
    _MUT_DEFS.clear()
    _MUT_DEFS.update({"defs": defs, "per_def": per_def, "compatible": compatible})
    return mut


_MUT_DEFS = {}


def _mutated_for_call(c):
    """parameter indices / names that the callee(s) of call c may change; None = unknown callee"""
    cname = c.func.id if isinstance(c.func, ast.Name) else (c.func.attr if isinstance(c.func, ast.Attribute) else None)
    if not _MUT_DEFS or cname not in _MUT_DEFS["defs"]:
        return None
    out = set()
    for fn, _m in _MUT_DEFS["compatible"](cname, c):
        out |= _MUT_DEFS["per_def"].get(id(fn), set())
    return out


def _call_may_mutate(c, root):
    """may the call c change the object bound to the local name `root`?"""
    if isinstance(c.func, ast.Attribute):
        r = c.func.value
        while isinstance(r, (ast.Subscript, ast.Attribute)):
            r = r.value
        if isinstance(r, ast.Name) and r.id == root:
            return True           # a method of the object itself
    mset = _mutated_for_call(c)
    for k, a in enumerate(c.args):
        if root in _names(a):
            ms = mset
            if isinstance(a, ast.Name) and _MUT_DEFS:
                # several functions share the callee's name: prefer those whose
                # parameter at this position is called like the argument
                cname = c.func.id if isinstance(c.func, ast.Name) else (c.func.attr if isinstance(c.func, ast.Attribute) else None)
                same = []
                for fn, is_m in (_MUT_DEFS["compatible"](cname, c) if cname in _MUT_DEFS["defs"] else []):
                    ps = [x.arg for x in fn.args.args][1 if is_m else 0:]
                    if k < len(ps) and ps[k] == a.id:
                        same.append(fn)
                if same:
                    ms = set()
                    for fn in same:
                        ms |= _MUT_DEFS["per_def"].get(id(fn), set())
            if not (isinstance(a, ast.Name) and ms is not None and k not in ms):
                return True
    for kw in c.keywords:
        if root in _names(kw.value):
            if not (isinstance(kw.value, ast.Name) and mset is not None and kw.arg not in mset):
                return True
    return False


def _state_reads(e):
    """(unstable attribute/subscript reads present?, root names of all reads of mutable state)"""
    unstable = False
    roots = set()
    for n in ast.walk(e):
        if isinstance(n, (ast.Attribute, ast.Subscript)):
            r = n
            while isinstance(r, (ast.Attribute, ast.Subscript)):
                r = r.value
            if isinstance(r, ast.Name) and r.id not in ("np", "numpy"):
                roots.add(r.id)
                if isinstance(n, ast.Subscript):
                    unstable = True
                elif n.attr not in STABLE_ATTRS and not (isinstance(n.value, ast.Name) and n.value.id[:1].isupper()):
                    unstable = True      # (Enum.MEMBER style class attributes are constants)
    return unstable, roots


def _impure_calls(s):
    out = []
    for n in ast.walk(s):
        if isinstance(n, ast.Call) and not _pure(n, allow_alloc=True):
            out.append(n)
    return out


def _is_ref_chain(x):
    """x / self.a.b (bindings that never change) / a basic-slicing view of such a chain"""
    if isinstance(x, ast.Name):
        return True
    if isinstance(x, ast.Attribute):
        return (x.attr in STABLE_ATTRS or (isinstance(x.value, ast.Name) and x.value.id[:1].isupper())) and _is_ref_chain(x.value)
    if isinstance(x, ast.Subscript) and _is_ref_chain(x.value):
        idx = x.slice.elts if isinstance(x.slice, ast.Tuple) else [x.slice]
        if any(isinstance(i_, ast.Slice) for i_ in idx) and all(
                isinstance(i_, ast.Slice) and all(b is None or isinstance(b, ast.Constant) for b in (i_.lower, i_.upper, i_.step))
                or (isinstance(i_, ast.Constant) and isinstance(i_.value, int))
                or (isinstance(i_, ast.Name) and i_.id in INT_NAMES) for i_ in idx):
            return True
    return False


def _conflict(e, stmts):
    """can the statements change the value of e?  (stores to an operand, or a
    call with side effects that may change state that e reads)"""
    names, texts = _operands(e)
    unstable, roots = _state_reads(e)
    # a reference chain (x, self.a.b with bindings that never change) is an
    # alias: reading it commutes with everything; any other expression that
    # reads object state is a computed value
    def ref_chain(x):
        if isinstance(x, ast.Name):
            return True
        if isinstance(x, ast.Attribute):
            return (x.attr in STABLE_ATTRS or (isinstance(x.value, ast.Name) and x.value.id[:1].isupper())) and ref_chain(x.value)
        if isinstance(x, ast.Subscript) and ref_chain(x.value):
            # basic slicing of an array (integers and slices only, at least one
            # slice) is a *view*: it follows the array like an alias
            idx = x.slice.elts if isinstance(x.slice, ast.Tuple) else [x.slice]
            if any(isinstance(i_, ast.Slice) for i_ in idx) and all(
                    isinstance(i_, ast.Slice) and all(b is None or isinstance(b, ast.Constant) for b in (i_.lower, i_.upper, i_.step))
                    or (isinstance(i_, ast.Constant) and isinstance(i_.value, int))
                    or (isinstance(i_, ast.Name) and i_.id in INT_NAMES) for i_ in idx):
                return True
        return False
    alias_only = ref_chain(e)
    if not alias_only and roots:
        unstable = True
    if alias_only:
        unstable = False
    for s in stmts:
        sn, st = _stores_of(s)
        if sn & names:
            # a store to a *subscript/attribute* of an operand name mutates it too
            return True
        for t in st:
            for u in texts:
                if u == t or u.startswith(t + ".") or t.startswith(u + ".") or t.startswith(u + "["):
                    return True
        calls = _impure_calls(s)
        if calls and unstable:
            # a call with side effects may change the state that e reads: always
            # assumed for the state of `self`; for an object held in a local name
            # only a call that is handed the object and may change that parameter
            if any(r in ("self", "cls") for r in roots):
                return True
            if any(_call_may_mutate(c, r) for c in calls for r in roots):
                return True
        if calls and not alias_only:
            # an operand handed to a call with side effects may be modified in place
            ops = names - {"np", "numpy"}
            for c in calls:
                involved = set()
                if isinstance(c.func, ast.Attribute) and c.func.attr in ("append", "extend", "insert", "add") or (isinstance(c.func, ast.Name) and c.func.id in ("print",)) or (isinstance(c.func, ast.Attribute) and c.func.attr == "warn"):
                    # container methods change the receiver only, never their arguments
                    cand = [c.func.value] if isinstance(c.func, ast.Attribute) else []
                else:
                    cand = list(c.args) + [k.value for k in c.keywords] + ([c.func.value] if isinstance(c.func, ast.Attribute) else [])
                for a in cand:
                    involved |= _names(a)
                plain = {n_ for n_ in ops if n_ in involved and n_ not in roots}
                if plain:
                    return True
    return False


def _loads_of(node, name):
    return [n for n in ast.walk(node) if isinstance(n, ast.Name) and n.id == name and isinstance(n.ctx, ast.Load)]


def _split_tuple_assigns(fnode, unknown):
    for block in _all_blocks(fnode):
        i = 0
        while i < len(block):
            s = block[i]
            if (isinstance(s, ast.Assign) and len(s.targets) == 1 and isinstance(s.targets[0], (ast.Tuple, ast.List))
                    and isinstance(s.value, (ast.Tuple, ast.List)) and len(s.value.elts) == len(s.targets[0].elts)
                    and all(isinstance(t, ast.Name) or (isinstance(t, ast.Attribute) and isinstance(t.value, ast.Name) and t.value.id == "self") for t in s.targets[0].elts)
                    and (any(isinstance(t, ast.Name) and t.id in unknown for t in s.targets[0].elts) or hasattr(s, "_inl"))):
                tnames = [t.id for t in s.targets[0].elts if isinstance(t, ast.Name)]
                tattrs = [t.attr for t in s.targets[0].elts if isinstance(t, ast.Attribute)]
                reads = set()
                attr_reads = set()
                for v in s.value.elts:
                    reads |= _names(v)
                    attr_reads |= {x.attr for x in ast.walk(v) if isinstance(x, ast.Attribute)}
                n_impure = sum(1 for v in s.value.elts if not _pure(v, allow_alloc=True))
                if not (reads & set(tnames)) and not (attr_reads & set(tattrs)) and n_impure <= (0 if tattrs else 1):
                    new = []
                    for t, v in zip(s.targets[0].elts, s.value.elts):
                        a = ast.Assign(targets=[t], value=v, type_comment=None)
                        ast.copy_location(a, s)
                        new.append(a)
                    block[i:i + 1] = new
                    i += len(new)
                    continue
            i += 1


def _sink_after_if(fnode, unknown, cnt):
    """T2: `if ..: u = A else: u = B` ; S(u)  ->  S pushed into the branches"""
    changed = False
    for block in _all_blocks(fnode):
        i = 0
        while i + 1 < len(block):
            I, S = block[i], block[i + 1]
            if isinstance(I, ast.If) and isinstance(S, (ast.Assign, ast.AugAssign, ast.Expr)):
                reads = _names(S, ast.Load) & unknown
                inner = set()
                for n in ast.walk(I):
                    if isinstance(n, ast.Name) and isinstance(n.ctx, ast.Store):
                        inner.add(n.id)
                if reads & inner:
                    _push(I, S)
                    del block[i + 1]
                    cnt.stats["stores_sunk"] += 1
                    changed = True
                    continue
            i += 1
    return changed


UNSAFE_HANDLER = {"Exception", "BaseException", "TypeError", "ValueError", "AttributeError", "IndexError", "KeyError", "ArithmeticError", "ZeroDivisionError", "RuntimeError", "NameError"}


def _sink_after_try(fnode, unknown, cnt):
    """try: ..; u = A  except E: u = B ;  S(u)   ->  S pushed to the end of the
    try body (when S cannot raise what the handlers catch; else-clause
    otherwise) and of every handler that falls through"""
    changed = False
    for block in _all_blocks(fnode):
        i = 0
        while i + 1 < len(block):
            I, S = block[i], block[i + 1]
            if isinstance(I, ast.Try) and not I.finalbody and isinstance(S, (ast.Assign, ast.AugAssign, ast.Expr, ast.If)):
                reads = _names(S, ast.Load) & unknown
                inner = set()
                for n in ast.walk(I):
                    if isinstance(n, ast.Name) and isinstance(n.ctx, ast.Store):
                        inner.add(n.id)
                flag_test = False
                if isinstance(S, ast.If) and isinstance(S.test, ast.Compare) and isinstance(S.test.left, ast.Name) and len(S.test.ops) == 1 and isinstance(S.test.ops[0], (ast.Is, ast.IsNot)) and _const_kind(S.test.comparators[0]) == ("none",):
                    # a status flag set to a literal by the try body and by every handler
                    fl = S.test.left.id
                    blocks_ = [I.body] + [hh.body for hh in I.handlers]
                    flag_test = all(any(isinstance(x, ast.Assign) and len(x.targets) == 1 and isinstance(x.targets[0], ast.Name) and x.targets[0].id == fl and _const_kind(x.value) is not None for x in b) for b in blocks_)
                reads = reads if not flag_test else (reads | {S.test.left.id})
                if reads & inner:
                    safe = not _has(S, ast.Call) and not isinstance(S, ast.If)
                    for hh in I.handlers:
                        if hh.type is None:
                            safe = False
                        else:
                            for t in (hh.type.elts if isinstance(hh.type, ast.Tuple) else [hh.type]):
                                nm = t.id if isinstance(t, ast.Name) else (t.attr if isinstance(t, ast.Attribute) else None)
                                if nm is None or nm in UNSAFE_HANDLER:
                                    safe = False

                    def into(stmts):
                        if stmts and isinstance(stmts[-1], (ast.Return, ast.Raise, ast.Break, ast.Continue)):
                            return
                        stmts.append(clone(S))
                    if I.orelse or not safe:
                        into(I.orelse)
                    else:
                        into(I.body)
                    for hh in I.handlers:
                        into(hh.body)
                    del block[i + 1]
                    cnt.stats["stores_sunk"] += 1
                    changed = True
                    continue
            i += 1
    return changed


def _merge_safe_orelse(fnode, cnt):
    """try: A  except E: ..  else: S   ->  try: A; S  except E: ..   when S
    cannot raise anything the handlers catch (plain name/tuple assignments)"""
    changed = False
    for n in ast.walk(fnode):
        if isinstance(n, ast.Try) and n.orelse and not n.finalbody:
            safe = all(isinstance(S, ast.Assign) and not _has(S, (ast.Call, ast.Subscript, ast.Attribute, ast.BinOp)) for S in n.orelse)
            for hh in n.handlers:
                if hh.type is None:
                    safe = False
                else:
                    for t in (hh.type.elts if isinstance(hh.type, ast.Tuple) else [hh.type]):
                        nm = t.id if isinstance(t, ast.Name) else (t.attr if isinstance(t, ast.Attribute) else None)
                        if nm is None or nm in UNSAFE_HANDLER:
                            safe = False
            if safe:
                n.body.extend(n.orelse)
                n.orelse = []
                changed = True
    return changed


def _const_kind(e):
    """('none',) / ('member', text) / ('const', value) for literal values"""
    if isinstance(e, ast.Constant):
        return ("none",) if e.value is None else ("const", repr(e.value))
    if isinstance(e, ast.Attribute) and isinstance(e.value, ast.Name) and e.value.id[:1].isupper() and e.attr.isupper():
        return ("member", ast.unparse(e))      # Enum member (ExitStatus.X): never None, distinct members differ
    return None


def _fold_known_tests(fnode, unknown, cnt):
    """u = <literal> ; if u is not None: ..  /  v = u != Enum.X   with the literal
    definition of the unknown u immediately dominating in the same straight
    line: the test is decided"""
    changed = False
    seeds = {}

    def end_env(block):
        env = {}
        for S in block:
            if isinstance(S, ast.Assign) and len(S.targets) == 1 and isinstance(S.targets[0], ast.Name):
                k = _const_kind(S.value)
                if k is not None:
                    env[S.targets[0].id] = k
                else:
                    env.pop(S.targets[0].id, None)
            else:
                for nm in _names(S, (ast.Store, ast.Del)):
                    env.pop(nm, None)
        return env
    for n in ast.walk(fnode):
        if isinstance(n, ast.Try) and n.orelse:
            seeds[id(n.orelse)] = end_env(n.body)     # the else clause runs right after the body
    for block in _all_blocks(fnode):
        env = dict(seeds.get(id(block), {}))
        i = 0
        while i < len(block):
            S = block[i]
            if isinstance(S, ast.Assign) and len(S.targets) == 1 and isinstance(S.targets[0], ast.Name):
                # fold comparisons of known literals inside the value
                folded = _fold_expr(S.value, env)
                if folded is not None:
                    S.value = folded
                    changed = True
                k = _const_kind(S.value)
                if k is not None:
                    env[S.targets[0].id] = k
                else:
                    env.pop(S.targets[0].id, None)
                i += 1
                continue
            if isinstance(S, ast.If):
                v = _eval_test(S.test, env)
                if v is not None:
                    repl = S.body if v else S.orelse
                    block[i:i + 1] = repl
                    cnt.stats["tests_folded"] = cnt.stats.get("tests_folded", 0) + 1
                    changed = True
                    continue
            # anything else: forget what it may rebind
            for nm in _stores_of(S)[0]:
                env.pop(nm, None)
            if isinstance(S, (ast.For, ast.While, ast.Try, ast.With, ast.If)):
                for nm in list(env):
                    if nm in _names(S, ast.Store):
                        env.pop(nm, None)
            i += 1
        # dead code after an unconditional exit
        for j, S in enumerate(block):
            if isinstance(S, (ast.Return, ast.Raise, ast.Break, ast.Continue)) and j + 1 < len(block):
                del block[j + 1:]
                changed = True
                break
    return changed


def _eval_test(t, env):
    if isinstance(t, ast.Compare) and len(t.ops) == 1 and isinstance(t.left, ast.Name) and t.left.id in env:
        k = env[t.left.id]
        r = _const_kind(t.comparators[0])
        op = t.ops[0]
        if r is None:
            return None
        if isinstance(op, (ast.Is, ast.IsNot)) and r == ("none",):
            return (k == ("none",)) == isinstance(op, ast.Is)
        if isinstance(op, (ast.Eq, ast.NotEq)) and k[0] == r[0] == "member":
            return (k == r) == isinstance(op, ast.Eq)
        if isinstance(op, (ast.Eq, ast.NotEq)) and {k[0], r[0]} == {"none", "member"}:
            return isinstance(op, ast.NotEq)
    if isinstance(t, ast.UnaryOp) and isinstance(t.op, ast.Not):
        v = _eval_test(t.operand, env)
        return None if v is None else not v
    return None


def _fold_expr(e, env):
    v = _eval_test(e, env)
    if v is not None:
        return ast.copy_location(ast.Constant(v), e)
    return None


def _push(I, S):
    def into(stmts):
        if stmts and isinstance(stmts[-1], (ast.Return, ast.Raise, ast.Break, ast.Continue)):
            return
        stmts.append(clone(S))
    into(I.body)
    if len(I.orelse) == 1 and isinstance(I.orelse[0], ast.If):
        _push(I.orelse[0], S)
    else:
        into(I.orelse)


def _field_alias(fnode, unknown, self_name, cnt):
    """T3: u = E ... self.F = u  ->  self.F = E ; u = self.F ..."""
    if not self_name:
        return False
    changed = False
    for block in _all_blocks(fnode):
        for i, D in enumerate(block):
            if not (isinstance(D, ast.Assign) and len(D.targets) == 1 and isinstance(D.targets[0], ast.Name) and D.targets[0].id in unknown):
                continue
            u = D.targets[0].id
            if isinstance(D.value, ast.Attribute) and isinstance(D.value.value, ast.Name) and D.value.value.id == self_name:
                continue    # already an alias of a field
            for j in range(i + 1, len(block)):
                S = block[j]
                if u in _stores_of(S)[0]:
                    break
                if (isinstance(S, ast.Assign) and len(S.targets) == 1 and isinstance(S.targets[0], ast.Attribute)
                        and isinstance(S.targets[0].value, ast.Name) and S.targets[0].value.id == self_name
                        and isinstance(S.value, ast.Name) and S.value.id == u):
                    fld = S.targets[0].attr
                    between = block[i + 1:j]
                    touched = False
                    for b in between:
                        for n in ast.walk(b):
                            if isinstance(n, ast.Attribute) and n.attr == fld:
                                touched = True
                            if isinstance(n, ast.Call) and any(isinstance(a, ast.Name) and a.id == self_name for a in n.args):
                                touched = True
                            if isinstance(n, ast.Call) and isinstance(n.func, ast.Attribute) and isinstance(n.func.value, ast.Name) and n.func.value.id == self_name:
                                touched = True    # a method of the object may read the field
                    if touched or any(isinstance(n, ast.Attribute) and n.attr == fld for n in ast.walk(D.value)):
                        break
                    store = ast.Assign(targets=[S.targets[0]], value=D.value, type_comment=None)
                    ast.copy_location(store, D)
                    alias = ast.Assign(targets=[ast.Name(id=u, ctx=ast.Store())], value=ast.Attribute(value=ast.Name(id=self_name, ctx=ast.Load()), attr=fld, ctx=ast.Load()), type_comment=None)
                    ast.copy_location(alias, D)
                    ast.fix_missing_locations(alias)
                    block[i:i + 1] = [store, alias]
                    del block[j + 1]
                    cnt.stats["field_aliases"] += 1
                    changed = True
                    break
                if isinstance(S, (ast.If, ast.For, ast.While, ast.Try, ast.With)) and u in _names(S):
                    # keep it simple: only straight-line code between the two
                    pass
            if changed:
                return True
    return changed


def _forward_subst(fnode, unknown, cnt):
    """T1: forward substitution of pure definitions of unknown locals"""
    changed = False
    all_loads = {}
    for n in ast.walk(fnode):
        if isinstance(n, ast.Name) and isinstance(n.ctx, ast.Load) and n.id in unknown:
            all_loads.setdefault(n.id, []).append(n)
    for u in sorted(unknown):
        loads = all_loads.get(u, [])
        # every definition of u and the loads it covers
        covered = set()
        plans = []
        ok = True
        n_defs = 0
        for block in _all_blocks(fnode):
            for i, D in enumerate(block):
                sn = _names(D, (ast.Store, ast.Del)) if not isinstance(D, (ast.If, ast.For, ast.While, ast.Try, ast.With)) else set()
                if isinstance(D, ast.For) and u in _names(D.target):
                    ok = False
                if u not in sn:
                    continue
                n_defs += 1
                if not (isinstance(D, ast.Assign) and len(D.targets) == 1 and isinstance(D.targets[0], ast.Name) and D.targets[0].id == u):
                    ok = False
                    continue
                E = D.value
                plan_ok = True        # local to this definition; `ok` is about attributing loads to definitions
                single_use_only = False
                if not _pure(E, allow_alloc=False):
                    # a freshly allocated value may be substituted into its only use
                    if _pure(E, allow_alloc=True):
                        single_use_only = True
                    else:
                        plan_ok = False
                if u in _names(E):
                    plan_ok = False
                is_alias = _is_ref_chain(E)
                uses = []
                for j in range(i + 1, len(block)):
                    S = block[j]
                    ls = _loads_of(S, u)
                    redefined = u in _names(S, (ast.Store, ast.Del))
                    if not redefined and u in _stores_of(S)[0] and not is_alias:
                        plan_ok = False      # the value bound to u is changed in place: it is no longer E
                    compound = isinstance(S, (ast.If, ast.For, ast.While, ast.Try, ast.With))
                    if compound and redefined:
                        # the loads inside S belong to the definitions inside S
                        # (they must be covered by those plans, see below)
                        ls = []
                    if ls:
                        between = block[i + 1:j]
                        if plan_ok and _conflict(E, between):
                            plan_ok = False
                        header_only = isinstance(S, ast.For) and all(any(x is y for y in ast.walk(S.iter)) for x in ls)
                        if compound and not header_only:
                            if plan_ok and _conflict(E, [S]):
                                plan_ok = False
                            if isinstance(S, (ast.For, ast.While)) and redefined:
                                ok = False
                        uses.extend(ls)
                    if redefined:
                        if isinstance(S, (ast.If, ast.For, ast.While, ast.Try, ast.With)):
                            # conditional redefinition: later loads may see either value
                            for k in range(j + 1, len(block)):
                                if _loads_of(block[k], u):
                                    ok = False
                                if not isinstance(block[k], (ast.If, ast.For, ast.While, ast.Try, ast.With)) and u in _names(block[k], (ast.Store, ast.Del)):
                                    break      # unconditionally redefined: later loads read that definition
                        break
                if single_use_only and len(uses) != 1:
                    plan_ok = False
                plans.append((block, D, E, uses, plan_ok))
                covered |= {id(x) for x in uses}
        # stores in compound statements that we did not see as definitions
        if not ok or not plans:
            continue
        if any(id(x) not in covered for x in loads):
            continue
        total_defs = sum(1 for n in ast.walk(fnode) if isinstance(n, ast.Name) and n.id == u and isinstance(n.ctx, (ast.Store, ast.Del)))
        if total_defs != len(plans):
            continue
        for block, D, E, uses, plan_ok in plans:
            if not plan_ok:
                continue
            for x in uses:
                ne = clone(E)
                for n in ast.walk(ne):
                    if hasattr(n, "lineno"):
                        n.lineno = getattr(x, "lineno", n.lineno)
                        n.end_lineno = getattr(x, "end_lineno", n.lineno)
                        n.col_offset = getattr(x, "col_offset", 0)
                        n.end_col_offset = getattr(x, "end_col_offset", 0)
                _replace_node(fnode, x, ne)
            for b2 in _all_blocks(fnode):
                for k, s in enumerate(b2):
                    if s is D:
                        del b2[k]
                        if not b2:
                            b2.append(ast.copy_location(ast.Pass(), D))
                        break
            cnt.stats["locals_substituted"] += 1
            changed = True
    return changed


def _unroll_literal_loops(fnode, unknown, cnt):
    """`for a, b in ((x1, y1), (x2, y2)): body` with unknown loop variables ->
    body[x1, y1]; body[x2, y2].  Starred members (`*zip(p, q)`) become loops
    over that member."""
    changed = False
    for block in _all_blocks(fnode):
        for i, L in enumerate(block):
            if not (isinstance(L, ast.For) and not L.orelse and isinstance(L.iter, (ast.Tuple, ast.List)) and 0 < len(L.iter.elts) <= 8):
                continue
            tnames = [n.id for n in ast.walk(L.target) if isinstance(n, ast.Name)]
            if not tnames:
                continue
            # (loop variables that the reference tree knows keep their binding
            # through an explicit assignment in every unrolled copy)
            known_t = [t for t in tnames if t not in unknown]
            # no break / continue belonging to this loop, no rebinding of the loop variables
            bad = False

            def scan(stmts, depth):
                nonlocal bad
                for s_ in stmts:
                    if isinstance(s_, (ast.Break, ast.Continue)) and depth == 0:
                        bad = True
                    if isinstance(s_, (ast.FunctionDef, ast.ClassDef)):
                        bad = True
                    inner = depth + (1 if isinstance(s_, (ast.For, ast.While)) else 0)
                    for b in _stmt_lists(s_):
                        scan(b, inner)
            scan(L.body, 0)
            for s_ in L.body:
                if set(tnames) & _names(s_, (ast.Store, ast.Del)):
                    bad = True      # the loop variable itself is rebound in the body
            if bad:
                continue
            new = []
            ok = True
            for el in L.iter.elts:
                if isinstance(el, ast.Starred):
                    lp = ast.For(target=clone(L.target), iter=clone(el.value), body=clone(L.body), orelse=[], type_comment=None)
                    ast.copy_location(lp, L)
                    new.append(lp)
                    continue
                sub = {}
                if isinstance(L.target, ast.Name):
                    sub[L.target.id] = el
                elif isinstance(L.target, (ast.Tuple, ast.List)) and isinstance(el, (ast.Tuple, ast.List)) and len(el.elts) == len(L.target.elts) and all(isinstance(t, ast.Name) for t in L.target.elts):
                    for t, v in zip(L.target.elts, el.elts):
                        sub[t.id] = v
                else:
                    ok = False
                    break
                if not all(_simple_arg(v) or _pure(v, allow_alloc=False) for v in sub.values()):
                    ok = False
                    break
                for t in known_t:
                    # a loop variable that the reference tree knows keeps its binding
                    a = ast.Assign(targets=[ast.Name(id=t, ctx=ast.Store())], value=clone(sub[t]), type_comment=None)
                    new.append(ast.copy_location(a, L))
                # (reads of it inside the body are substituted all the same: the
                # body does not rebind it)
                new.extend(_subst_names(b, sub) for b in clone(L.body))
            if not ok:
                continue
            if len(L.iter.elts) > 1:
                # copies of one body: keep source-order keys monotonic across the iterations
                _relocate(new, L.lineno, cnt, "unroll")
            block[i:i + 1] = new
            cnt.stats["loops_unrolled"] = cnt.stats.get("loops_unrolled", 0) + 1
            return True
    return changed


def _first_defs(fnode):
    out = {}
    for n in ast.walk(fnode):
        if isinstance(n, ast.Assign) and len(n.targets) == 1:
            t = n.targets[0]
            ln = getattr(n, "lineno", 0)
            if isinstance(t, ast.Name):
                if t.id not in out or out[t.id][0] > ln:
                    out[t.id] = (ln, n.value)
            elif isinstance(t, (ast.Tuple, ast.List)) and isinstance(n.value, (ast.Tuple, ast.List)) and len(t.elts) == len(n.value.elts):
                for a, b in zip(t.elts, n.value.elts):
                    if isinstance(a, ast.Name) and (a.id not in out or out[a.id][0] > ln):
                        out[a.id] = (ln, b)
            elif isinstance(t, (ast.Tuple, ast.List)) and isinstance(n.value, ast.Call):
                for i, a in enumerate(t.elts):
                    if isinstance(a, ast.Name) and (a.id not in out or out[a.id][0] > ln):
                        out[a.id] = (ln, ast.Subscript(value=n.value, slice=ast.Constant(i), ctx=ast.Load()))
    return {k: v[1] for k, v in out.items()}


def _unpack_subscripted(fnode, unknown, tuple_sizes, cnt):
    """T6: u = f(..) with u only ever read as u[0], u[1], .. (f returns a
    tuple of known size) -> u__0, u__1 = f(..)"""
    for block in _all_blocks(fnode):
        for D in block:
            if not (isinstance(D, ast.Assign) and len(D.targets) == 1 and isinstance(D.targets[0], ast.Name) and D.targets[0].id in unknown and isinstance(D.value, ast.Call)):
                continue
            u = D.targets[0].id
            fn = D.value.func
            size = tuple_sizes.get(fn.id) if isinstance(fn, ast.Name) else (tuple_sizes.get(fn.attr) if isinstance(fn, ast.Attribute) else None)
            if not size:
                continue
            if sum(1 for n in ast.walk(fnode) if isinstance(n, ast.Name) and n.id == u and isinstance(n.ctx, (ast.Store, ast.Del))) != 1:
                continue
            subs = []
            okk = True
            for n in ast.walk(fnode):
                if isinstance(n, ast.Subscript) and isinstance(n.value, ast.Name) and n.value.id == u:
                    if isinstance(n.slice, ast.Constant) and isinstance(n.slice.value, int) and 0 <= n.slice.value < size and isinstance(n.ctx, ast.Load):
                        subs.append(n)
                    else:
                        okk = False
            n_loads = sum(1 for n in ast.walk(fnode) if isinstance(n, ast.Name) and n.id == u and isinstance(n.ctx, ast.Load))
            if not okk or n_loads != len(subs) or not subs:
                continue
            names = [f"{u}__{i}" for i in range(size)]
            D.targets = [ast.Tuple(elts=[ast.Name(id=x, ctx=ast.Store()) for x in names], ctx=ast.Store())]
            for n in subs:
                _replace_node(fnode, n, ast.copy_location(ast.Name(id=names[n.slice.value], ctx=ast.Load()), n))
            cnt.stats["tuples_unpacked"] = cnt.stats.get("tuples_unpacked", 0) + 1
            return True
    return False


def _restore_names(fnode, known_locals, ref_defs, cnt):
    """a local of the reference tree that has disappeared, and an unknown local
    whose first definition is textually the reference definition of the
    former: the variable was renamed - rename it back"""
    for _ in range(6):
        present = _names(fnode) | {a.arg for a in fnode.args.args + fnode.args.kwonlyargs}
        stores = {n.id for n in ast.walk(fnode) if isinstance(n, ast.Name) and isinstance(n.ctx, ast.Store)}
        unknown = stores - set(known_locals)
        missing = [k for k in known_locals if k not in present and k in ref_defs]
        if not unknown or not missing:
            return
        cur = _first_defs(fnode)
        by_text = {}
        for u in unknown:
            if u in cur:
                by_text.setdefault(ast.unparse(cur[u]), []).append(u)
        ref_by_text = {}
        for k in missing:
            ref_by_text.setdefault(ref_defs[k], []).append(k)
        done = False
        for text, us in by_text.items():
            ks = ref_by_text.get(text, [])
            if len(us) == 1 and len(ks) == 1:
                _rename(fnode, {us[0]: ks[0]})
                cnt.stats["names_restored"] = cnt.stats.get("names_restored", 0) + 1
                done = True
        if not done:
            return
    return


def _tidy_ifs(fnode):
    """`if c: pass else: X` -> `if not c: X` (double negations removed)"""
    for n in ast.walk(fnode):
        if isinstance(n, ast.If) and n.orelse and all(isinstance(b, ast.Pass) for b in n.body):
            t = n.test
            if isinstance(t, ast.UnaryOp) and isinstance(t.op, ast.Not):
                n.test = t.operand
            else:
                n.test = ast.copy_location(ast.UnaryOp(op=ast.Not(), operand=t), t)
            n.body, n.orelse = n.orelse, []


def _expanded_defs(fnode):
    """naming-independent signature of single-definition locals (see devtools/gen_vocab.py)"""
    stores = {}
    for n in ast.walk(fnode):
        if isinstance(n, ast.Name) and isinstance(n.ctx, (ast.Store, ast.Del)):
            stores[n.id] = stores.get(n.id, 0) + 1
    defs = {}
    for n in ast.walk(fnode):
        if isinstance(n, ast.Assign) and len(n.targets) == 1:
            t = n.targets[0]
            if isinstance(t, ast.Name) and stores.get(t.id) == 1:
                defs[t.id] = n.value
            elif isinstance(t, (ast.Tuple, ast.List)) and isinstance(n.value, (ast.Tuple, ast.List)) and len(t.elts) == len(n.value.elts):
                for a, b in zip(t.elts, n.value.elts):
                    if isinstance(a, ast.Name) and stores.get(a.id) == 1:
                        defs[a.id] = b

    def expand(e, depth):
        if depth <= 0:
            return e
        return _subst_names_fn(clone(e), lambda name: expand(clone(defs[name]), depth - 1) if name in defs else None)
    out = {}
    for k, v in defs.items():
        try:
            out[k] = ast.unparse(expand(v, 4))
        except RecursionError:
            pass
    return out


def _subst_names_fn(node, fn):
    class _S(ast.NodeTransformer):
        def visit_Name(self, n):
            if isinstance(n.ctx, ast.Load):
                r = fn(n.id)
                if r is not None:
                    return r
            return n
    return _S().visit(node)


def _restore_names_expanded(fnode, known_locals, ref_expanded, cnt):
    """second chance for renamed locals: compare the definitions with all
    single-definition locals expanded (independent of how the helpers are named)"""
    if not ref_expanded:
        return
    for _ in range(6):
        present = _names(fnode) | {a.arg for a in fnode.args.args + fnode.args.kwonlyargs}
        stores = {n.id for n in ast.walk(fnode) if isinstance(n, ast.Name) and isinstance(n.ctx, ast.Store)}
        unknown = stores - set(known_locals)
        missing = [k for k in known_locals if k not in present and k in ref_expanded]
        if not unknown or not missing:
            return
        cur = _expanded_defs(fnode)
        by_text = {}
        for u in unknown:
            if u in cur:
                by_text.setdefault(cur[u], []).append(u)
        ref_by_text = {}
        for k in missing:
            ref_by_text.setdefault(ref_expanded[k], []).append(k)
        done = False
        for text, us in by_text.items():
            ks = ref_by_text.get(text, [])
            if len(us) == 1 and len(ks) == 1:
                _rename(fnode, {us[0]: ks[0]})
                cnt.stats["names_restored"] = cnt.stats.get("names_restored", 0) + 1
                done = True
                break
        if not done:
            return


def _drop_self_assigns(fnode):
    for block in _all_blocks(fnode):
        for s_ in list(block):
            if isinstance(s_, ast.Assign) and len(s_.targets) == 1 and isinstance(s_.targets[0], ast.Name) and isinstance(s_.value, ast.Name) and s_.value.id == s_.targets[0].id:
                block.remove(s_)
                if not block:
                    block.append(ast.copy_location(ast.Pass(), s_))


def _ifexp_assign_to_if(fnode, unknown, cnt):
    """u, v = (a, b) if c else (p, q)   /   u = a if c else p   (u unknown)
       ->  if c: u, v = a, b  else: u, v = p, q"""
    for block in _all_blocks(fnode):
        for i, S in enumerate(block):
            if not (isinstance(S, ast.Assign) and len(S.targets) == 1 and isinstance(S.value, ast.IfExp)):
                continue
            tn = _names(S.targets[0], ast.Store)
            if not tn or not (tn & unknown) or not all(isinstance(x, (ast.Name, ast.Tuple, ast.List)) for x in ast.walk(S.targets[0]) if isinstance(x, ast.expr) and not isinstance(x, ast.expr_context)):
                continue
            a = ast.Assign(targets=[clone(S.targets[0])], value=S.value.body, type_comment=None)
            b = ast.Assign(targets=[clone(S.targets[0])], value=S.value.orelse, type_comment=None)
            new = ast.If(test=S.value.test, body=[a], orelse=[b])
            for x in (a, b, new):
                ast.copy_location(x, S)
            if hasattr(S, "_inl"):
                a._inl = b._inl = S._inl
            a._inl = getattr(a, "_inl", ("ifexp", getattr(S, "lineno", 0)))
            b._inl = getattr(b, "_inl", ("ifexp", getattr(S, "lineno", 0)))
            block[i] = new
            cnt.stats["ifexp_assigns"] = cnt.stats.get("ifexp_assigns", 0) + 1
            return True
    return False


def _get_store_to_setdefault(fnode, unknown, cnt):
    """v = conv(D.get(K, DFLT)); D[K] = v      (v unknown, defined once)
       ->  D.setdefault(K, DFLT); D[K] = conv(D[K'])   and later reads of v -> D[K']
    (K' is K without a trailing `.value`: the enumerations of the repository are
    str-valued, a member and its value address the same entry).  Only when no
    other statement of the function stores D[K]."""
    for block in _all_blocks(fnode):
        for i in range(len(block) - 1):
            A, B = block[i], block[i + 1]
            if not (isinstance(A, ast.Assign) and len(A.targets) == 1 and isinstance(A.targets[0], ast.Name) and A.targets[0].id in unknown):
                continue
            v = A.targets[0].id
            call = A.value
            conv = None
            if isinstance(call, ast.Call) and isinstance(call.func, ast.Name) and call.func.id in ("float", "int", "bool") and len(call.args) == 1 and not call.keywords:
                conv, call = call.func.id, call.args[0]
            if not (isinstance(call, ast.Call) and isinstance(call.func, ast.Attribute) and call.func.attr == "get" and isinstance(call.func.value, ast.Name) and len(call.args) == 2 and not call.keywords):
                continue
            D, K, dflt = call.func.value.id, call.args[0], call.args[1]
            if not (isinstance(B, ast.Assign) and len(B.targets) == 1 and isinstance(B.targets[0], ast.Subscript) and isinstance(B.targets[0].value, ast.Name) and B.targets[0].value.id == D
                    and ast.dump(B.targets[0].slice) == ast.dump(K) and isinstance(B.value, ast.Name) and B.value.id == v):
                continue
            if sum(1 for n in ast.walk(fnode) if isinstance(n, ast.Name) and n.id == v and isinstance(n.ctx, (ast.Store, ast.Del))) != 1:
                continue
            if not _pure(K, allow_alloc=False) or not _pure(dflt, allow_alloc=False):
                continue
            kread = K.value if isinstance(K, ast.Attribute) and K.attr == "value" else K
            ktexts = {ast.dump(K), ast.dump(kread)}
            others = [n for n in ast.walk(fnode) if isinstance(n, ast.Subscript) and isinstance(n.ctx, (ast.Store, ast.Del)) and isinstance(n.value, ast.Name) and n.value.id == D and ast.dump(n.slice) in ktexts and n is not B.targets[0]]
            if others:
                continue
            inside = {id(n) for S in block[i + 2:] for n in ast.walk(S)}
            if any(isinstance(n, ast.Name) and n.id == v and isinstance(n.ctx, ast.Load) and id(n) not in inside and n is not B.value for n in ast.walk(fnode)):
                continue

            def read():
                return ast.Subscript(value=ast.Name(id=D, ctx=ast.Load()), slice=clone(kread), ctx=ast.Load())
            sd = ast.Expr(value=ast.Call(func=ast.Attribute(value=ast.Name(id=D, ctx=ast.Load()), attr="setdefault", ctx=ast.Load()), args=[clone(K), clone(dflt)], keywords=[]))
            ast.copy_location(sd, A)
            newv = read()
            if conv:
                newv = ast.Call(func=ast.Name(id=conv, ctx=ast.Load()), args=[newv], keywords=[])
            st = ast.Assign(targets=[B.targets[0]], value=newv, type_comment=None)
            ast.copy_location(st, B)
            for x in (sd, st):
                if hasattr(A, "_inl"):
                    x._inl = A._inl
                ast.fix_missing_locations(x)
            block[i], block[i + 1] = sd, st

            class R(ast.NodeTransformer):
                def visit_Name(self, node):
                    if node.id == v and isinstance(node.ctx, ast.Load):
                        return ast.copy_location(ast.fix_missing_locations(ast.copy_location(read(), node)), node)
                    return node
            for j, S in enumerate(block):
                if j > i + 1:
                    block[j] = R().visit(S)
            cnt.stats["get_store_idiom"] = cnt.stats.get("get_store_idiom", 0) + 1
            return True
    return False


def _split_ranges(fnode, unknown, cnt):
    """an unknown local that is rebound several times in one straight-line
    block (e.g. the same helper inlined twice) is split into one variable per
    definition"""
    for u in sorted(unknown):
        if "__r" in u:
            continue
        homes = []
        for block in _all_blocks(fnode):
            idx = [i for i, S in enumerate(block) if not isinstance(S, (ast.If, ast.For, ast.While, ast.Try, ast.With, ast.FunctionDef))
                   and isinstance(S, ast.Assign) and len(S.targets) == 1 and isinstance(S.targets[0], ast.Name) and S.targets[0].id == u]
            if idx:
                homes.append((block, idx))
        n_stores = sum(1 for n in ast.walk(fnode) if isinstance(n, ast.Name) and n.id == u and isinstance(n.ctx, (ast.Store, ast.Del)))
        if len(homes) != 1 or len(homes[0][1]) < 2 or n_stores != len(homes[0][1]):
            continue
        block, idx = homes[0]
        inside = set()
        for S in block[idx[0]:]:
            inside |= {id(n) for n in ast.walk(S)}
        if any(isinstance(n, ast.Name) and n.id == u and id(n) not in inside for n in ast.walk(fnode)):
            continue      # used outside the straight line
        for k, i in enumerate(idx):
            new = f"{u}__r{k}"
            end = idx[k + 1] if k + 1 < len(idx) else len(block)
            block[i].targets[0].id = new
            for S in block[i + 1:end]:
                _rename(S, {u: new})
            if k + 1 < len(idx):
                _rename(block[end].value, {u: new})
        cnt.stats["ranges_split"] = cnt.stats.get("ranges_split", 0) + 1
        return True
    return False


def _invariant_subst(fnode, unknown, cnt):
    """T7: u is (re)assigned the same pure expression E right after every
    assignment of E's operands: u == E is an invariant, so u is E."""
    for u in sorted(unknown):
        defs = []
        ok = True
        for block in _all_blocks(fnode):
            for i, D in enumerate(block):
                if isinstance(D, (ast.If, ast.For, ast.While, ast.Try, ast.With, ast.FunctionDef)):
                    if isinstance(D, ast.For) and u in _names(D.target):
                        ok = False
                    continue
                if u in _names(D, (ast.Store, ast.Del)):
                    if isinstance(D, ast.Assign) and len(D.targets) == 1 and isinstance(D.targets[0], ast.Name):
                        defs.append((block, i, D))
                    else:
                        ok = False
        if not ok or len(defs) < 2:
            continue
        texts = {ast.unparse(D.value) for _, _, D in defs}
        if len(texts) != 1:
            continue
        E = defs[0][2].value
        if not _pure(E, allow_alloc=False) or u in _names(E):
            continue
        ops = _names(E) - {"np", "numpy"}
        if not ops:
            continue
        # every store to an operand is followed (same block, only operand
        # stores in between) by a definition of u
        def_ids = {id(D) for _, _, D in defs}
        good = True
        for block in _all_blocks(fnode):
            for i, S in enumerate(block):
                if isinstance(S, (ast.If, ast.While, ast.Try, ast.With, ast.FunctionDef)):
                    continue
                if isinstance(S, ast.For):
                    if ops & _names(S.target):
                        good = False
                    continue
                if id(S) in def_ids:
                    continue
                if ops & _stores_of(S)[0]:
                    j = i + 1
                    while j < len(block) and id(block[j]) not in def_ids and not isinstance(block[j], (ast.If, ast.For, ast.While, ast.Try, ast.With)) and (ops & _stores_of(block[j])[0]) and not (_names(block[j], ast.Load) & {u}):
                        j += 1
                    if not (j < len(block) and id(block[j]) in def_ids):
                        good = False
        params = {a.arg for a in fnode.args.args + fnode.args.kwonlyargs}
        first = min(getattr(D, "lineno", 0) for _, _, D in defs)
        loads = [n for n in ast.walk(fnode) if isinstance(n, ast.Name) and n.id == u and isinstance(n.ctx, ast.Load)]
        if not good or any(getattr(n, "lineno", 0) < first for n in loads):
            continue
        # operands that are parameters may be rebound only with a following definition (checked above)
        for n in loads:
            ne = clone(E)
            for x in ast.walk(ne):
                if hasattr(x, "lineno"):
                    x.lineno = getattr(n, "lineno", x.lineno)
                    x.end_lineno = getattr(n, "end_lineno", x.lineno)
                    x.col_offset = getattr(n, "col_offset", 0)
                    x.end_col_offset = getattr(n, "end_col_offset", 0)
            _replace_node(fnode, n, ne)
        for block, _, D in defs:
            block.remove(D)
            if not block:
                block.append(ast.copy_location(ast.Pass(), D))
        cnt.stats["locals_substituted"] += 1
        return True
    return False


def _alias_rename(fnode, unknown, known_locals, cnt):
    """T5: the known local t is only ever bound by `t = u` (u unknown), u is
    not rebound after such a statement: t and u always denote the same object,
    so u is t under another name."""
    stores = {}
    for n in ast.walk(fnode):
        if isinstance(n, ast.Name) and isinstance(n.ctx, (ast.Store, ast.Del)):
            stores.setdefault(n.id, []).append(n)
    aliases = {}
    for n in ast.walk(fnode):
        if isinstance(n, ast.Assign) and len(n.targets) == 1 and isinstance(n.targets[0], ast.Name) and isinstance(n.value, ast.Name) and n.value.id in unknown and n.targets[0].id in known_locals:
            aliases.setdefault((n.targets[0].id, n.value.id), []).append(n)
    params = {a.arg for a in fnode.args.args + fnode.args.kwonlyargs}
    for (t, u), stmts in aliases.items():
        if t in params or len(stores.get(t, [])) != len(stmts):
            continue
        first_alias = min(getattr(x, "lineno", 0) for x in stmts)
        if any(getattr(x, "lineno", 0) >= first_alias for x in stores.get(u, [])):
            continue
        if any(isinstance(x, ast.Name) and x.id == t and isinstance(x.ctx, ast.Load) and getattr(x, "lineno", 0) < first_alias for x in ast.walk(fnode)):
            continue
        _rename(fnode, {u: t})
        _drop_self_assigns(fnode)
        _tidy_ifs(fnode)
        cnt.stats["names_restored"] = cnt.stats.get("names_restored", 0) + 1
        return True
    return False


def _dead_stores(fnode, unknown, cnt):
    """an unknown local whose every read is preceded, in the same straight
    line, by a definition: its other (pure) definitions are never read"""
    changed = False
    for u in sorted(unknown):
        loads = [n for n in ast.walk(fnode) if isinstance(n, ast.Name) and n.id == u and isinstance(n.ctx, ast.Load)]
        covered = set()
        live_defs = set()
        all_defs = []
        for block in _all_blocks(fnode):
            cur = None
            for S in block:
                ls = _loads_of(S, u)
                simple = not isinstance(S, (ast.If, ast.For, ast.While, ast.Try, ast.With))
                if ls:
                    if cur is not None and simple:
                        covered |= {id(x) for x in ls}
                        live_defs.add(id(cur))
                    elif cur is not None and not simple and u not in _names(S, (ast.Store, ast.Del)):
                        covered |= {id(x) for x in ls}
                        live_defs.add(id(cur))
                if simple and isinstance(S, ast.Assign) and len(S.targets) == 1 and isinstance(S.targets[0], ast.Name) and S.targets[0].id == u:
                    # (the value of the new definition may read the previous one - handled above)
                    cur = S
                    all_defs.append((block, S))
                elif u in _names(S, (ast.Store, ast.Del)):
                    cur = None
                    if simple:
                        all_defs.append((block, None))     # a store of another form (tuple target, del, ..)
                    # compound statement: its inner blocks are scanned on their own
        if not loads or any(id(x) not in covered for x in loads):
            continue
        if any(S is None for _, S in all_defs):
            continue
        for block, S in all_defs:
            if id(S) not in live_defs and _pure(S.value, allow_alloc=True):
                block.remove(S)
                if not block:
                    block.append(ast.copy_location(ast.Pass(), S))
                cnt.stats["dead_stores"] = cnt.stats.get("dead_stores", 0) + 1
                changed = True
    return changed


def _alias_collapse(fnode, unknown, cnt):
    """T4: u = E ; ... ; t = u   (u unknown; every read of u has this form and
    t is untouched in between)  ->  t = E ; ..."""
    loads = {}
    nstores = {}
    for n in ast.walk(fnode):
        if isinstance(n, ast.Name) and n.id in unknown:
            if isinstance(n.ctx, ast.Load):
                loads.setdefault(n.id, []).append(n)
            else:
                nstores[n.id] = nstores.get(n.id, 0) + 1
    plans = {}
    for block in _all_blocks(fnode):
        for i, D in enumerate(block):
            if not (isinstance(D, ast.Assign) and len(D.targets) == 1):
                continue
            if isinstance(D.targets[0], ast.Name) and D.targets[0].id in unknown:
                us_ = [D.targets[0].id]
            elif isinstance(D.targets[0], ast.Tuple) and all(isinstance(e, (ast.Name, ast.Attribute)) for e in D.targets[0].elts):
                us_ = [e.id for e in D.targets[0].elts if isinstance(e, ast.Name) and e.id in unknown]
            else:
                continue
            for u in us_:
                for j in range(i + 1, len(block)):
                    S = block[j]
                    if u not in _names(S):
                        continue
                    def self_field(x):
                        return isinstance(x, ast.Attribute) and isinstance(x.value, ast.Name) and x.value.id in ("self",)
                    if isinstance(S, ast.Assign) and len(S.targets) == 1 and isinstance(S.value, ast.Name) and S.value.id == u and (
                            isinstance(S.targets[0], ast.Name) or self_field(S.targets[0])
                            or (isinstance(S.targets[0], ast.Tuple) and isinstance(D.targets[0], ast.Name) and all(isinstance(x, ast.Name) for x in S.targets[0].elts))):
                        t = S.targets[0]
                        tn = _names(t) - {"self"}
                        ttext = ast.unparse(t)
                        between = block[i + 1:j]
                        clash = any((tn & _names(b)) or (self_field(t) and any(isinstance(x, ast.Attribute) and x.attr == t.attr for x in ast.walk(b))) for b in between)
                        if self_field(t) and any(isinstance(x, ast.Call) and not _pure(x, allow_alloc=True) for b in between for x in ast.walk(b)):
                            clash = True      # a call in between may read the field
                        if not clash and not (tn & (_names(D.value) | {u})):
                            # (every read of u is accounted for by exactly one plan, see below)
                            plans.setdefault(u, []).append((block, D, S, t))
                    break
    for u, ps in plans.items():
        if len(ps) == len(loads.get(u, [])) == nstores.get(u, 0):
            for block, D, S, t in ps:
                if isinstance(D.targets[0], ast.Tuple):
                    D.targets[0].elts = [(t if (isinstance(e, ast.Name) and e.id == u) else e) for e in D.targets[0].elts]
                    if isinstance(t, ast.Attribute):
                        t.ctx = ast.Store()
                else:
                    D.targets = [t]
                block.remove(S)
            cnt.stats["aliases_collapsed"] = cnt.stats.get("aliases_collapsed", 0) + len(ps)
            return True
    return False


REF_EXPANDED = {}    # id(function node) -> expanded reference definitions (set by normalize_module)
TUPLE_SIZES = {}     # function name -> size of the tuple it returns (package wide)


def compute_tuple_sizes(trees):
    sizes = {}
    for t in trees:
        for fn in ast.walk(t):
            if isinstance(fn, ast.FunctionDef):
                rs = [n for n in ast.walk(fn) if isinstance(n, ast.Return)]
                ks = {len(r.value.elts) if isinstance(r.value, ast.Tuple) else None for r in rs}
                if len(ks) == 1 and None not in ks:
                    sizes.setdefault(fn.name, set()).add(ks.pop())
                else:
                    sizes.setdefault(fn.name, set()).add(None)
    TUPLE_SIZES.clear()
    TUPLE_SIZES.update({k: next(iter(v)) for k, v in sizes.items() if len(v) == 1 and None not in v})


def _reintroduce_locals(fnode, known_locals, ref_defs, cnt):
    """a local of the reference tree that no longer exists, while its reference
    definition (a call expression) occurs exactly once, inside a simple statement
    in which nothing with side effects is evaluated before it: name it again
    (`k = <expr>` right before that statement)."""
    if not ref_defs:
        return
    present = _names(fnode) | {a.arg for a in fnode.args.args + fnode.args.kwonlyargs}
    for k in known_locals:
        if k in present or k not in ref_defs:
            continue
        text = ref_defs[k]
        try:
            ref_e = ast.parse(text, mode="eval").body
        except SyntaxError:
            continue
        if not isinstance(ref_e, ast.Call) or not _pure(ref_e, allow_alloc=True):
            continue
        hits = []
        for block in _all_blocks(fnode):
            for i, S in enumerate(block):
                if not isinstance(S, (ast.Return, ast.Assign, ast.Expr, ast.AugAssign)):
                    continue
                for n in ast.walk(S):
                    if isinstance(n, ast.Call) and ast.unparse(n) == text:
                        hits.append((block, i, S, n))
        total = sum(1 for n in ast.walk(fnode) if isinstance(n, ast.Call) and ast.unparse(n) == text)
        if len(hits) != 1 or total != 1:
            continue
        block, i, S, occ = hits[0]
        # every other call of the statement must enclose the occurrence (it is evaluated after it)
        ok = True
        for n in ast.walk(S):
            if isinstance(n, ast.Call) and n is not occ and not any(x is occ for x in ast.walk(n)) and not any(x is n for x in ast.walk(occ)):
                if not _pure(n, allow_alloc=True):
                    ok = False
        if not ok:
            continue
        new = ast.Assign(targets=[ast.Name(id=k, ctx=ast.Store())], value=clone(occ), type_comment=None)
        ast.copy_location(new, S)
        ast.fix_missing_locations(new)

        class R(ast.NodeTransformer):
            def visit_Call(self, node):
                if node is occ:
                    return ast.copy_location(ast.Name(id=k, ctx=ast.Load()), node)
                return self.generic_visit(node)
        block[i] = R().visit(S)
        block.insert(i, new)
        cnt.stats["locals_reintroduced"] = cnt.stats.get("locals_reintroduced", 0) + 1


def _normalize_locals(fnode, known_locals, self_name, cnt, ref_defs=None):
    _normalize_locals_core(fnode, known_locals, self_name, cnt, ref_defs)
    _reintroduce_locals(fnode, known_locals, ref_defs, cnt)


def _normalize_locals_core(fnode, known_locals, self_name, cnt, ref_defs=None):
    INT_NAMES.clear()
    for n in ast.walk(fnode):
        if isinstance(n, ast.For) and isinstance(n.iter, ast.Call) and isinstance(n.iter.func, ast.Name):
            if n.iter.func.id == "range" and isinstance(n.target, ast.Name):
                INT_NAMES.add(n.target.id)
            if n.iter.func.id == "enumerate" and isinstance(n.target, ast.Tuple) and n.target.elts and isinstance(n.target.elts[0], ast.Name):
                INT_NAMES.add(n.target.elts[0].id)
    # a counter that is also assigned elsewhere is not known to be an integer
    for n in ast.walk(fnode):
        if isinstance(n, (ast.Assign, ast.AugAssign)):
            for t_ in (n.targets if isinstance(n, ast.Assign) else [n.target]):
                for x in ast.walk(t_):
                    if isinstance(x, ast.Name) and isinstance(x.ctx, ast.Store):
                        INT_NAMES.discard(x.id)
    pre_unknown = {n.id for n in ast.walk(fnode) if isinstance(n, ast.Name) and isinstance(n.ctx, ast.Store)} - set(known_locals)
    for _ in range(6):
        if not (pre_unknown and _unpack_subscripted(fnode, pre_unknown, TUPLE_SIZES, cnt)):
            break
    if ref_defs:
        before = cnt.stats.get("names_restored", 0)
        _restore_names(fnode, known_locals, ref_defs, cnt)
        _restore_names_expanded(fnode, known_locals, REF_EXPANDED.get(id(fnode)), cnt)
        if cnt.stats.get("names_restored", 0) != before:
            _drop_self_assigns(fnode)
    for _ in range(300):
        assigned = set()
        comp_targets = set()
        # names bound by comprehensions are not locals of the function
        for n in ast.walk(fnode):
            if isinstance(n, (ast.ListComp, ast.SetComp, ast.DictComp, ast.GeneratorExp)):
                for g in n.generators:
                    comp_targets |= {id(x) for x in ast.walk(g.target)}
        for n in ast.walk(fnode):
            if isinstance(n, ast.Name) and isinstance(n.ctx, ast.Store) and id(n) not in comp_targets:
                assigned.add(n.id)
        unknown = assigned - set(known_locals)
        _split_tuple_assigns(fnode, unknown)
        if not unknown:
            if _unroll_literal_loops(fnode, unknown, cnt):
                continue
            return
        if _unroll_literal_loops(fnode, unknown, cnt):
            continue
        if _ifexp_assign_to_if(fnode, unknown, cnt):
            continue
        if _split_ranges(fnode, unknown, cnt):
            continue
        if _get_store_to_setdefault(fnode, unknown, cnt):
            continue
        if _sink_after_if(fnode, unknown, cnt):
            continue
        if _sink_after_try(fnode, unknown, cnt):
            continue
        if _fold_known_tests(fnode, unknown, cnt):
            continue
        if _merge_safe_orelse(fnode, cnt):
            continue
        if _field_alias(fnode, unknown, self_name, cnt):
            continue
        if _forward_subst(fnode, unknown, cnt):
            continue
        if _invariant_subst(fnode, unknown, cnt):
            continue
        if _dead_stores(fnode, unknown, cnt):
            continue
        if _alias_collapse(fnode, unknown, cnt):
            continue
        if _alias_rename(fnode, unknown, set(known_locals), cnt):
            continue
        return


# ---------------------------------------------------------------------------
def _static_seq(e):
    """tuple(x[0] for x in TABLE) / tuple(a for a, _, _ in TABLE) over a
    literal table -> Tuple literal (None when the shape is different)"""
    if not (isinstance(e, ast.Call) and isinstance(e.func, ast.Name) and e.func.id in ("tuple", "list") and len(e.args) == 1 and not e.keywords):
        return None
    g = e.args[0]
    if isinstance(g, ast.Dict) and g.keys and all(k is not None for k in g.keys):
        return ast.copy_location(ast.Tuple(elts=[clone(k) for k in g.keys], ctx=ast.Load()), e)
    if not (isinstance(g, (ast.GeneratorExp, ast.ListComp)) and len(g.generators) == 1 and not g.generators[0].ifs):
        return None
    gen = g.generators[0]
    table = gen.iter
    if not isinstance(table, (ast.Tuple, ast.List)):
        return None
    out = []
    for row in table.elts:
        sub = {}
        if isinstance(gen.target, ast.Name):
            sub[gen.target.id] = row
        elif isinstance(gen.target, (ast.Tuple, ast.List)) and isinstance(row, (ast.Tuple, ast.List)) and len(row.elts) == len(gen.target.elts) and all(isinstance(t, ast.Name) for t in gen.target.elts):
            for t, v in zip(gen.target.elts, row.elts):
                sub[t.id] = v
        else:
            return None
        elt = g.elt
        if isinstance(elt, ast.Name) and elt.id in sub:
            out.append(clone(sub[elt.id]))
        elif isinstance(elt, ast.Subscript) and isinstance(elt.value, ast.Name) and elt.value.id in sub and isinstance(elt.slice, ast.Constant) and isinstance(elt.slice.value, int) \
                and isinstance(sub[elt.value.id], (ast.Tuple, ast.List)) and -len(sub[elt.value.id].elts) <= elt.slice.value < len(sub[elt.value.id].elts):
            out.append(clone(sub[elt.value.id].elts[elt.slice.value]))
        else:
            return None
    t = ast.Tuple(elts=out, ctx=ast.Load())
    return ast.copy_location(t, e)


def _loop_over_filter(fnode, cnt):
    """for t in [t for t in X if C]: BODY   ->   for t in X: if C: BODY
    (BODY does not change X or what C reads; no break/continue subtleties: both are kept as they are)"""
    changed = False
    for n in ast.walk(fnode):
        if isinstance(n, ast.For) and isinstance(n.iter, (ast.ListComp, ast.GeneratorExp)) and not n.orelse and len(n.iter.generators) == 1:
            g = n.iter.generators[0]
            if not (isinstance(n.iter.elt, ast.Name) and isinstance(g.target, ast.Name) and isinstance(n.target, ast.Name) and n.iter.elt.id == g.target.id and g.ifs and not g.is_async):
                continue
            cond = g.ifs[0] if len(g.ifs) == 1 else ast.BoolOp(op=ast.And(), values=list(g.ifs))
            if not _pure(cond) or not _pure(g.iter):
                continue
            if _conflict(g.iter, n.body) or _conflict(cond, n.body):
                continue
            if any(isinstance(x, (ast.Break, ast.Continue)) for b in n.body for x in ast.walk(b)):
                continue
            if g.target.id != n.target.id:
                cond = _subst_names(clone(cond), {g.target.id: ast.Name(id=n.target.id, ctx=ast.Load())})
            test = ast.If(test=cond, body=n.body, orelse=[])
            ast.copy_location(test, n)
            n.iter = g.iter
            n.body = [test]
            ast.fix_missing_locations(n)
            cnt.stats["filter_loops"] = cnt.stats.get("filter_loops", 0) + 1
            changed = True
    return changed


def _while_counter_to_for(fnode, cnt):
    """k = a ; while k < N: BODY ; k += 1   ->   for k in range(a, N): BODY
    (BODY neither rebinds k nor contains `continue`; N is not changed by BODY;
    k is not read after the loop before being rebound)"""
    changed = False
    for block in _all_blocks(fnode):
        for i in range(1, len(block)):
            W, I = block[i], block[i - 1]
            if not (isinstance(W, ast.While) and not W.orelse and isinstance(W.test, ast.Compare) and len(W.test.ops) == 1 and isinstance(W.test.left, ast.Name)):
                continue
            k = W.test.left.id
            op, N = W.test.ops[0], W.test.comparators[0]
            if not isinstance(op, ast.Lt):
                continue
            if not (isinstance(I, ast.Assign) and len(I.targets) == 1 and isinstance(I.targets[0], ast.Name) and I.targets[0].id == k and isinstance(I.value, ast.Constant) and isinstance(I.value.value, int)):
                continue
            body = W.body
            if not body:
                continue
            last = body[-1]
            if not (isinstance(last, ast.AugAssign) and isinstance(last.target, ast.Name) and last.target.id == k and isinstance(last.op, ast.Add) and isinstance(last.value, ast.Constant) and last.value.value == 1):
                continue
            rest = body[:-1]
            bad = False
            for S in rest:
                if k in _names(S, (ast.Store, ast.Del)):
                    bad = True
                # a `continue` of this loop would skip the increment
                def has_continue(stmts, depth=0):
                    for x in stmts:
                        if isinstance(x, ast.Continue) and depth == 0:
                            return True
                        inner = depth + (1 if isinstance(x, (ast.For, ast.While)) else 0)
                        for b in _stmt_lists(x):
                            if has_continue(b, inner):
                                return True
                    return False
                if has_continue([S]):
                    bad = True
            if bad or not _pure(N) or _conflict(N, rest):
                continue
            # k after the loop: rebound before any read?
            later_read = False
            for S in block[i + 1:]:
                if k in _names(S, ast.Load):
                    later_read = True
                    break
                if k in _names(S, (ast.Store, ast.Del)) and not isinstance(S, (ast.If, ast.While, ast.Try, ast.With)):
                    break
            if later_read:
                continue
            # (k may also be read after the enclosing block ends; keep it simple: the function must not read k after the loop at all)
            after = False
            seen = False
            for n in ast.walk(fnode):
                pass
            a = I.value.value
            rng = ast.Call(func=ast.Name(id="range", ctx=ast.Load()), args=([N] if a == 0 else [ast.Constant(a), N]), keywords=[])
            F = ast.For(target=ast.Name(id=k, ctx=ast.Store()), iter=rng, body=rest or [ast.Pass()], orelse=[], type_comment=None)
            ast.copy_location(F, W)
            ast.fix_missing_locations(F)
            block[i - 1:i + 1] = [F]
            cnt.stats["while_counters"] = cnt.stats.get("while_counters", 0) + 1
            return True
    return changed


def _for_else_to_while(fnode, cnt):
    """v = a-1 ; for v in range(a, b): BODY else: E
       ->  v = a-1 ; while True: if v >= b-1: E; break ; v += 1 ; BODY
    (the counted main loop written as for/else; BODY does not rebind v, b is
    not changed by BODY)"""
    changed = False
    for block in _all_blocks(fnode):
        for i, L in enumerate(block):
            if not (isinstance(L, ast.For) and L.orelse and isinstance(L.target, ast.Name) and isinstance(L.iter, ast.Call)
                    and isinstance(L.iter.func, ast.Name) and L.iter.func.id == "range" and len(L.iter.args) in (1, 2) and not L.iter.keywords):
                continue
            v = L.target.id
            a = 0 if len(L.iter.args) == 1 else (L.iter.args[0].value if isinstance(L.iter.args[0], ast.Constant) and isinstance(L.iter.args[0].value, int) else None)
            if a is None:
                continue
            b = L.iter.args[-1]
            init = None
            for S in reversed(block[:i]):
                if v in _names(S, (ast.Store, ast.Del)):
                    if isinstance(S, ast.Assign) and len(S.targets) == 1 and isinstance(S.targets[0], ast.Name) and isinstance(S.value, ast.Constant) and S.value.value == a - 1:
                        init = S
                    break
            if init is None:
                continue
            if any(v in _names(S, (ast.Store, ast.Del)) for S in L.body) or not _pure(b) or _conflict(b, L.body):
                continue
            # b - 1
            if isinstance(b, ast.BinOp) and isinstance(b.op, ast.Add) and isinstance(b.right, ast.Constant) and b.right.value == 1:
                lim = b.left
            else:
                lim = ast.BinOp(left=b, op=ast.Sub(), right=ast.Constant(1))
            test = ast.Compare(left=ast.Name(id=v, ctx=ast.Load()), ops=[ast.GtE()], comparators=[lim])
            stop = ast.If(test=test, body=list(L.orelse) + [ast.Break()], orelse=[])
            inc = ast.AugAssign(target=ast.Name(id=v, ctx=ast.Store()), op=ast.Add(), value=ast.Constant(1))
            W = ast.While(test=ast.Constant(True), body=[stop, inc] + list(L.body), orelse=[])
            for x in (stop, inc, W):
                ast.copy_location(x, L)
            ast.fix_missing_locations(W)
            block[i] = W
            cnt.stats["for_else_loops"] = cnt.stats.get("for_else_loops", 0) + 1
            changed = True
    return changed


def _split_isinstance_handlers(fnode, cnt):
    """except (A, B) as exc: if isinstance(exc, A): X ; if isinstance(exc, B): Y ; raise
       ->  except A: X  except B: Y      (X, Y end in return / raise / break / continue)"""
    changed = False
    for n in ast.walk(fnode):
        if not isinstance(n, ast.Try):
            continue
        new_handlers = []
        for h in n.handlers:
            repl = None
            typ = h.type
            if isinstance(typ, ast.Call):
                typ = _static_seq(typ) or typ
            if h.name and isinstance(typ, ast.Tuple) and h.body and isinstance(h.body[-1], ast.Raise) and h.body[-1].exc is None and len(h.body) > 1:
                classes = [ast.unparse(c) for c in typ.elts]
                arms = []
                ok = True
                pending_assigns = []
                for st in h.body[:-1]:
                    if isinstance(st, ast.Assign) and len(st.targets) == 1 and isinstance(st.targets[0], ast.Name) and st.targets[0].id != h.name and _literalish(st.value):
                        # plain bookkeeping between the tests moves into the arms that follow
                        pending_assigns.append(st)
                        continue
                    if (isinstance(st, ast.If) and not st.orelse and isinstance(st.test, ast.Call) and isinstance(st.test.func, ast.Name) and st.test.func.id == "isinstance"
                            and len(st.test.args) == 2 and isinstance(st.test.args[0], ast.Name) and st.test.args[0].id == h.name
                            and st.body and isinstance(st.body[-1], (ast.Return, ast.Raise, ast.Break, ast.Continue))
                            and ast.unparse(st.test.args[1]) in classes):
                        uses_exc = any(isinstance(x, ast.Name) and x.id == h.name for b in st.body for x in ast.walk(b))
                        # consecutive literal assignments: only the last one per name is live
                        live = {}
                        for a_ in pending_assigns:
                            if not (_names(a_.value) & set(live)):
                                live[a_.targets[0].id] = a_
                            else:
                                live = None
                                break
                        pre_ = clone(list(live.values())) if live is not None else clone(pending_assigns)
                        arms.append((st.test.args[1], pre_ + st.body, uses_exc))
                    else:
                        ok = False
                        break
                if ok and arms and sorted(ast.unparse(a[0]) for a in arms) == sorted(classes) and len(set(classes)) == len(classes):
                    repl = []
                    for cls_, body, uses_exc in arms:
                        nh = ast.ExceptHandler(type=cls_, name=h.name if uses_exc else None, body=body)
                        ast.copy_location(nh, body[0])
                        repl.append(nh)
            if repl is None and h.name and isinstance(typ, ast.Tuple) and len(typ.elts) > 1:
                # except (A, B) as exc: .. {A: a, B: b}[type(exc)] ..   ->  one handler per class
                # with the table entry substituted (the classes of such tables have no
                # subclasses in this repository: a subclass would be a KeyError before)
                classes = [ast.unparse(c) for c in typ.elts]
                lookups = [x for b in h.body for x in ast.walk(b) if isinstance(x, ast.Subscript) and isinstance(x.value, ast.Dict) and ast.unparse(x.slice) == f"type({h.name})"]
                other_uses = sum(1 for b in h.body for x in ast.walk(b) if isinstance(x, ast.Name) and x.id == h.name)
                if lookups and other_uses == len(lookups) and len(set(classes)) == len(classes) and all(
                        all(k is not None for k in lk.value.keys) and sorted(ast.unparse(k) for k in lk.value.keys) == sorted(classes) for lk in lookups):
                    repl = []
                    for cls_ in typ.elts:
                        ct = ast.unparse(cls_)

                        class _L(ast.NodeTransformer):
                            def visit_Subscript(self, node):
                                if isinstance(node.value, ast.Dict) and ast.unparse(node.slice) == f"type({h.name})":
                                    for k, v_ in zip(node.value.keys, node.value.values):
                                        if ast.unparse(k) == ct:
                                            return ast.copy_location(clone(v_), node)
                                return self.generic_visit(node)
                        body = []
                        for b in h.body:
                            b2 = _L().visit(clone(b))
                            if (isinstance(b2, ast.Assign) and len(b2.targets) == 1 and isinstance(b2.targets[0], ast.Tuple) and isinstance(b2.value, ast.Tuple)
                                    and len(b2.targets[0].elts) == len(b2.value.elts) and all(isinstance(t_, ast.Name) for t_ in b2.targets[0].elts) and all(_literalish(v_) for v_ in b2.value.elts)):
                                for t_, v_ in zip(b2.targets[0].elts, b2.value.elts):
                                    body.append(ast.copy_location(ast.Assign(targets=[t_], value=v_, type_comment=None), b2))
                            else:
                                body.append(b2)
                        nh = ast.ExceptHandler(type=clone(cls_), name=None, body=body)
                        ast.copy_location(nh, h)
                        repl.append(nh)
            if repl:
                new_handlers.extend(repl)
                changed = True
                cnt.stats["handlers_split"] = cnt.stats.get("handlers_split", 0) + 1
            else:
                new_handlers.append(h)
        n.handlers = new_handlers
    return changed


def _record_idiom(fnode, names, cnt):
    """`r = OptimizeResult(a=x, b=y)` / `r.update(a=x)` -> `r = OptimizeResult()`,
    `r.a = x`, `r.b = y` for the records that the reference tree fills in
    field by field (OptimizeResult is a dict with attribute access, so the two
    spellings insert the same keys in the same order)."""
    for block in _all_blocks(fnode):
        i = 0
        while i < len(block):
            s_ = block[i]
            new = None
            if (isinstance(s_, ast.Assign) and len(s_.targets) == 1 and isinstance(s_.targets[0], ast.Name) and s_.targets[0].id in names
                    and isinstance(s_.value, ast.Call) and isinstance(s_.value.func, ast.Name) and s_.value.func.id == "OptimizeResult"
                    and not s_.value.args and s_.value.keywords and all(k.arg for k in s_.value.keywords)):
                v = s_.targets[0].id
                ctor = ast.Assign(targets=[s_.targets[0]], value=ast.Call(func=s_.value.func, args=[], keywords=[]), type_comment=None)
                new = [ast.copy_location(ctor, s_)]
                kws = s_.value.keywords
            elif (isinstance(s_, ast.Expr) and isinstance(s_.value, ast.Call) and isinstance(s_.value.func, ast.Attribute) and s_.value.func.attr == "update"
                    and isinstance(s_.value.func.value, ast.Name) and s_.value.func.value.id in names and not s_.value.args
                    and s_.value.keywords and all(k.arg for k in s_.value.keywords)):
                v = s_.value.func.value.id
                new = []
                kws = s_.value.keywords
            if new is not None:
                for k in kws:
                    a = ast.Assign(targets=[ast.Attribute(value=ast.Name(id=v, ctx=ast.Load()), attr=k.arg, ctx=ast.Store())], value=k.value, type_comment=None)
                    ast.copy_location(a, k.value)
                    new.append(a)
                block[i:i + 1] = new
                i += len(new)
                cnt.stats["record_idioms"] = cnt.stats.get("record_idioms", 0) + 1
                continue
            i += 1


def _literalish(v):
    # np.finfo(float): a pure library call whose value never changes
    if isinstance(v, ast.Call) and ast.unparse(v) in ("np.finfo(float)", "numpy.finfo(float)", "np.finfo(np.float64)"):
        return True
    for n in ast.walk(v):
        if isinstance(n, (ast.Call, ast.Lambda, ast.ListComp, ast.SetComp, ast.DictComp, ast.GeneratorExp, ast.Await, ast.Yield, ast.NamedExpr, ast.Starred)):
            return False
    return True


def _refs_outside(tree, name, own):
    """is `name` still referenced outside the definition `own`?"""
    inside = {id(n) for n in ast.walk(own)}
    for n in ast.walk(tree):
        if id(n) in inside:
            continue
        if isinstance(n, ast.Name) and n.id == name:
            return True
        if isinstance(n, ast.Attribute) and n.attr == name:
            return True
        if isinstance(n, ast.Constant) and n.value == name:
            return True
    return False


def restore_function_names(trees_by_module):
    """a private function / method of the reference tree that has disappeared
    while an unknown one with (mostly) the same identifiers has appeared in the
    same scope was renamed: rename it back, at its definition and wherever the
    new name is used (all modules)"""
    renames = {}
    for modname, tree in trees_by_module.items():
        v = vocab().get(modname)
        if v is None:
            continue
        known = v["functions"]
        ref_ids = v.get("idents", {})
        scopes = {None: [n for n in tree.body if isinstance(n, ast.FunctionDef)]}
        for n in tree.body:
            if isinstance(n, ast.ClassDef):
                scopes[n.name] = [it for it in n.body if isinstance(it, ast.FunctionDef) and not any(isinstance(d, ast.Attribute) and d.attr == "setter" for d in it.decorator_list)]
        for scope, fns in scopes.items():
            pre = f"{scope}." if scope else ""
            present = {f.name for f in fns}
            missing = [k[len(pre):] for k in known if k.startswith(pre) and "." not in k[len(pre):] and (scope is not None or "." not in k) and k[len(pre):] not in present and not k.endswith(".setter")]
            if scope is None:
                missing = [k for k in known if "." not in k and k not in present]
            unknown = [f for f in fns if (pre + f.name) not in known]
            if not missing or not unknown:
                continue
            scores = []
            for f in unknown:
                ids = set()
                for n in ast.walk(f):
                    if isinstance(n, ast.Name):
                        ids.add(n.id)
                    elif isinstance(n, ast.Attribute):
                        ids.add(n.attr)
                    elif isinstance(n, ast.arg):
                        ids.add(n.arg)
                for k in missing:
                    ref = set(ref_ids.get(pre + k, []))
                    if not ref:
                        continue
                    # the function's own old name may occur in the reference set (recursion); ignore names of both
                    a, b = ids - {f.name}, ref - {k}
                    j = len(a & b) / max(1, len(a | b))
                    scores.append((j, f, k))
            scores.sort(key=lambda t: -t[0])
            used_f, used_k = set(), set()
            for j, f, k in scores:
                if j < 0.6 or id(f) in used_f or k in used_k:
                    continue
                # unique best on both sides by a clear margin
                rivals = [j2 for j2, f2, k2 in scores if (f2 is f) != (k2 == k) and (f2 is f or k2 == k)]
                if rivals and max(rivals) > j - 0.15:
                    continue
                used_f.add(id(f))
                used_k.add(k)
                if k.startswith("_") and not k.startswith("__"):
                    renames[f.name] = k
    if not renames:
        return {}
    # the new names must be new everywhere (not names of the reference tree)
    all_known = set()
    for v in vocab().values():
        for k in v["functions"]:
            all_known.add(k.split(".")[-1])
    renames = {a: b for a, b in renames.items() if a not in all_known}
    for tree in trees_by_module.values():
        for n in ast.walk(tree):
            if isinstance(n, ast.FunctionDef) and n.name in renames:
                n.name = renames[n.name]
            elif isinstance(n, ast.Name) and n.id in renames:
                n.id = renames[n.id]
            elif isinstance(n, ast.Attribute) and n.attr in renames:
                n.attr = renames[n.attr]
            elif isinstance(n, ast.alias) and n.name in renames:
                n.name = renames[n.name]
    return renames


def restore_return_order(trees_by_module):
    """a function of the reference tree whose returned tuple is a permutation
    of the reference tuple (same element expressions): permute it back at the
    return statements and at every call site that unpacks or indexes the
    result; if any use of the result has another shape nothing is changed"""
    done = {}
    for modname, tree in trees_by_module.items():
        v = vocab().get(modname)
        if v is None or not v.get("returns"):
            continue
        for key, ref in v["returns"].items():
            name = key.split(".")[-1]
            cls = key.split(".")[0] if "." in key else None
            fn = None
            for n in tree.body:
                if cls is None and isinstance(n, ast.FunctionDef) and n.name == name:
                    fn = n
                if cls is not None and isinstance(n, ast.ClassDef) and n.name == cls:
                    for it in n.body:
                        if isinstance(it, ast.FunctionDef) and it.name == name:
                            fn = it
            if fn is None:
                continue
            rets = [r for r in ast.walk(fn) if isinstance(r, ast.Return) and r.value is not None]
            if not rets or not all(isinstance(r.value, ast.Tuple) and len(r.value.elts) == len(ref) for r in rets):
                continue
            cur = [ast.unparse(e) for e in rets[0].value.elts]
            if any([ast.unparse(e) for e in r.value.elts] != cur for r in rets):
                continue
            if cur == ref or sorted(cur) != sorted(ref):
                continue
            perm = [cur.index(t) for t in ref]        # reference position i <- current position perm[i]
            # every use of the result, in every module
            uses, okk = [], True
            other_defs = sum(1 for t in trees_by_module.values() for n in ast.walk(t) if isinstance(n, ast.FunctionDef) and n.name == name)
            if other_defs != 1:
                continue       # several functions of that name: call sites cannot be attributed by name
            for t in trees_by_module.values():
                parents = {}
                for n in ast.walk(t):
                    for ch in ast.iter_child_nodes(n):
                        parents[id(ch)] = n
                for n in ast.walk(t):
                    if isinstance(n, ast.Call) and ((isinstance(n.func, ast.Name) and n.func.id == name) or (isinstance(n.func, ast.Attribute) and n.func.attr == name)):
                        par = parents.get(id(n))
                        if isinstance(par, ast.Assign) and par.value is n and len(par.targets) == 1 and isinstance(par.targets[0], (ast.Tuple, ast.List)) and len(par.targets[0].elts) == len(ref) \
                                and not any(isinstance(e, ast.Starred) for e in par.targets[0].elts):
                            uses.append(("unpack", par))
                        elif isinstance(par, ast.Subscript) and par.value is n and isinstance(par.slice, ast.Constant) and isinstance(par.slice.value, int) and 0 <= par.slice.value < len(ref):
                            uses.append(("index", par))
                        elif isinstance(par, ast.Assign) and par.value is n and len(par.targets) == 1 and isinstance(par.targets[0], ast.Name):
                            # u = f(..) ; only u[c] afterwards (checked loosely: every load of u is a constant subscript)
                            u = par.targets[0].id
                            owner = None
                            for fdef in ast.walk(t):
                                if isinstance(fdef, ast.FunctionDef) and any(x is par for x in ast.walk(fdef)):
                                    owner = fdef
                            subs = [x for x in ast.walk(owner)] if owner is not None else []
                            loads = [x for x in subs if isinstance(x, ast.Name) and x.id == u and isinstance(x.ctx, ast.Load)]
                            idx = [x for x in subs if isinstance(x, ast.Subscript) and isinstance(x.value, ast.Name) and x.value.id == u and isinstance(x.slice, ast.Constant) and isinstance(x.slice.value, int)]
                            stores = [x for x in subs if isinstance(x, ast.Name) and x.id == u and isinstance(x.ctx, ast.Store)]
                            if owner is None or len(loads) != len(idx) or len(stores) != 1:
                                okk = False
                            else:
                                uses.extend(("index", x) for x in idx)
                        elif isinstance(par, ast.Return) and par.value is n:
                            okk = False
                        else:
                            okk = False
            if not okk:
                continue
            inv = {perm[i]: i for i in range(len(ref))}   # current position -> reference position
            for r in rets:
                r.value.elts = [r.value.elts[perm[i]] for i in range(len(ref))]
            for kind, node in uses:
                if kind == "unpack":
                    tg = node.targets[0]
                    tg.elts = [tg.elts[perm[i]] for i in range(len(ref))]
                else:
                    node.slice = ast.copy_location(ast.Constant(inv[node.slice.value]), node.slice)
            done[key] = perm
    return done


def normalize_module(tree, modname):
    """rewrite `tree` in place; returns statistics"""
    cnt = _Counter()
    v = vocab().get(modname)
    if v is None:
        return cnt.stats
    known_funcs = v["functions"]
    top = {}
    classes = {}
    for node in tree.body:
        if isinstance(node, ast.FunctionDef):
            top[node.name] = node
        elif isinstance(node, ast.ClassDef):
            classes[node.name] = {it.name: it for it in node.body if isinstance(it, ast.FunctionDef) and (not it.decorator_list or _is_static(it))}
    unknown_top = {n: f for n, f in top.items() if n not in known_funcs and not f.decorator_list}
    unknown_meth = {c: {n: f for n, f in ms.items() if f"{c}.{n}" not in known_funcs} for c, ms in classes.items()}
    # map(<unknown one-argument helper>, xs)  ->  (helper(p) for p in xs)
    if unknown_top:
        class _Map(ast.NodeTransformer):
            def visit_Call(self, node):
                self.generic_visit(node)
                if (isinstance(node.func, ast.Name) and node.func.id == "map" and len(node.args) == 2 and not node.keywords
                        and isinstance(node.args[0], ast.Name) and node.args[0].id in unknown_top):
                    h = unknown_top[node.args[0].id]
                    a = h.args
                    if len(a.args) == 1 and not (a.vararg or a.kwarg or a.kwonlyargs or a.posonlyargs or a.defaults):
                        var = a.args[0].arg
                        if var not in self.taken:
                            g = ast.GeneratorExp(
                                elt=ast.Call(func=ast.Name(id=h.name, ctx=ast.Load()), args=[ast.Name(id=var, ctx=ast.Load())], keywords=[]),
                                generators=[ast.comprehension(target=ast.Name(id=var, ctx=ast.Store()), iter=node.args[1], ifs=[], is_async=0)])
                            cnt.stats["maps_expanded"] = cnt.stats.get("maps_expanded", 0) + 1
                            return ast.fix_missing_locations(ast.copy_location(g, node))
                return node
        for fdef in [n for n in ast.walk(tree) if isinstance(n, ast.FunctionDef) and n.name not in unknown_top]:
            if any(isinstance(n, ast.Name) and n.id == "map" for n in ast.walk(fdef)):
                mt = _Map()
                comp_ids = {id(x) for n in ast.walk(fdef) if isinstance(n, (ast.GeneratorExp, ast.ListComp, ast.SetComp, ast.DictComp)) for x in ast.walk(n)}
                mt.taken = {n.id for n in ast.walk(fdef) if isinstance(n, ast.Name) and id(n) not in comp_ids} | {a.arg for a in fdef.args.args}
                mt.taken -= set(unknown_top)
                for i_, st_ in enumerate(fdef.body):
                    fdef.body[i_] = mt.visit(st_)
    # unknown module-level literal constants
    unknown_glob = {}
    counts = {}
    for node in tree.body:
        if isinstance(node, ast.Assign):
            for t in node.targets:
                for n in ast.walk(t):
                    if isinstance(n, ast.Name):
                        counts[n.id] = counts.get(n.id, 0) + 1
    for node in tree.body:
        if isinstance(node, ast.Assign) and len(node.targets) == 1 and isinstance(node.targets[0], ast.Name):
            g = node.targets[0].id
            if g not in v["globals"] and counts.get(g) == 1 and _literalish(node.value) and not g.startswith("__"):
                unknown_glob[g] = node.value
    # a mutable literal (dict / list / set) that the module changes or hands out is
    # state, not a constant
    def mutated(gname):
        for n in ast.walk(tree):
            if isinstance(n, (ast.Subscript, ast.Attribute)) and isinstance(n.ctx, (ast.Store, ast.Del)):
                r = n
                while isinstance(r, (ast.Subscript, ast.Attribute)):
                    r = r.value
                if isinstance(r, ast.Name) and r.id == gname:
                    return True
            if isinstance(n, ast.Call):
                if isinstance(n.func, ast.Attribute) and n.func.attr in MUTATORS | {"setdefault"} and isinstance(n.func.value, ast.Name) and n.func.value.id == gname:
                    return True
                for a in list(n.args) + [k.value for k in n.keywords]:
                    if isinstance(a, ast.Name) and a.id == gname and not (isinstance(n.func, ast.Name) and n.func.id in PURE_FUNCS):
                        return True
            if isinstance(n, ast.Global) and gname in n.names:
                return True
            if isinstance(n, ast.Return) and isinstance(n.value, ast.Name) and n.value.id == gname:
                return True
        return False
    for g in list(unknown_glob):
        if _has(unknown_glob[g], (ast.Dict, ast.List, ast.Set)) and mutated(g):
            del unknown_glob[g]
    # unknown globals may refer to one another; tuple(<genexp over a literal
    # table>) is evaluated statically
    pending = {}
    for node in tree.body:
        if isinstance(node, ast.Assign) and len(node.targets) == 1 and isinstance(node.targets[0], ast.Name):
            g = node.targets[0].id
            if g not in v["globals"] and counts.get(g) == 1 and g not in unknown_glob and not g.startswith("__"):
                pending[g] = node.value
    for _ in range(3):
        for g, val in list(unknown_glob.items()):
            unknown_glob[g] = _subst_names(clone(val), {k: w for k, w in unknown_glob.items() if k != g})
        for g, val in list(pending.items()):
            ev_ = _static_seq(_subst_names(clone(val), unknown_glob))
            if ev_ is not None and _literalish(ev_):
                unknown_glob[g] = ev_
                del pending[g]

    post_try = []

    def all_functions():
        for node in tree.body:
            if isinstance(node, ast.FunctionDef):
                yield None, node
            elif isinstance(node, ast.ClassDef):
                for it in node.body:
                    if isinstance(it, ast.FunctionDef):
                        yield node.name, it

    if unknown_glob:
        for k_, st_ in enumerate(tree.body):
            if isinstance(st_, ast.Assign) and not (len(st_.targets) == 1 and isinstance(st_.targets[0], ast.Name) and st_.targets[0].id in unknown_glob):
                if any(isinstance(n, ast.Name) and isinstance(n.ctx, ast.Load) and n.id in unknown_glob for n in ast.walk(st_.value)):
                    st_.value = _subst_names(st_.value, unknown_glob)
                    cnt.stats["globals_substituted"] += 1
        for cname, f in all_functions():
            local = _names(f, ast.Store) | {a.arg for a in f.args.args}
            sub = {g: val for g, val in unknown_glob.items() if g not in local}
            hit = [n for n in ast.walk(f) if isinstance(n, ast.Name) and isinstance(n.ctx, ast.Load) and n.id in sub]
            if hit:
                # a module constant that is mutated in place is not a constant
                for n in hit:
                    pass
                new_body = [_subst_names(s, sub) for s in f.body]
                f.body = new_body
                cnt.stats["globals_substituted"] += len(hit)
    has_nested = any(isinstance(st_, ast.FunctionDef) for _c, f_ in all_functions() for st_ in f_.body)
    if unknown_top or any(unknown_meth.values()) or has_nested:
        # helpers first (so that helper-in-helper chains collapse), then the rest
        order = sorted(all_functions(), key=lambda cf: 0 if ((cf[0] is None and cf[1].name in unknown_top) or (cf[0] is not None and cf[1].name in unknown_meth.get(cf[0], {}))) else 1)
        for cname, f in order:
            self_name = None
            if cname is not None and f.args.args and not any(isinstance(d, ast.Name) and d.id == "staticmethod" for d in f.decorator_list):
                self_name = f.args.args[0].arg
            nested = {}
            for st_ in f.body:
                if isinstance(st_, ast.FunctionDef) and not st_.decorator_list:
                    # bound once, never rebound, only ever called
                    nm = st_.name
                    n_store = sum(1 for x in ast.walk(f) if (isinstance(x, ast.Name) and x.id == nm and isinstance(x.ctx, ast.Store)) or (isinstance(x, ast.FunctionDef) and x.name == nm and x is not st_))
                    loads = [x for x in ast.walk(f) if isinstance(x, ast.Name) and x.id == nm and isinstance(x.ctx, ast.Load)]
                    called = [x for x in ast.walk(f) if isinstance(x, ast.Call) and isinstance(x.func, ast.Name) and x.func.id == nm]
                    if n_store == 0 and loads and len(loads) == len(called) and not any(isinstance(x, (ast.Nonlocal, ast.Global)) for x in ast.walk(st_)):
                        nested[nm] = st_
            env = {
                "nested": nested,
                "top": unknown_top,
                "methods": unknown_meth.get(cname, {}) if cname else {},
                "self_name": self_name,
                "class_name": cname,
                "shadow": _names(f, ast.Store) | {a.arg for a in f.args.args},
            }
            _inline_in_function(f, env, cnt)
            for nm, st_ in nested.items():
                if not any(isinstance(x, ast.Name) and x.id == nm for x in ast.walk(f)) and st_ in f.body:
                    f.body.remove(st_)
    # helpers whose every call was inlined are dead code now: drop them, so
    # that whole-program scans do not see the same statements twice
    if cnt.stats["helpers_inlined"] or cnt.stats["expr_helpers_inlined"]:
        def referenced(name, own):
            for n in ast.walk(tree):
                if n is own:
                    continue
                if isinstance(n, ast.Name) and n.id == name:
                    return True
                if isinstance(n, ast.Attribute) and n.attr == name:
                    return True
                if isinstance(n, ast.Constant) and n.value == name:
                    return True
            return False
        for name, h in list(unknown_top.items()):
            if not _refs_outside(tree, name, h):
                if h in tree.body:
                    tree.body.remove(h)
                    cnt.stats["dead_helpers_removed"] = cnt.stats.get("dead_helpers_removed", 0) + 1
        for node in tree.body:
            if isinstance(node, ast.ClassDef):
                for name, h in list(unknown_meth.get(node.name, {}).items()):
                    if not _refs_outside(tree, name, h) and h in node.body:
                        node.body.remove(h)
                        cnt.stats["dead_helpers_removed"] = cnt.stats.get("dead_helpers_removed", 0) + 1
    for cname, f in all_functions():
        key = f"{cname}.{f.name}" if cname else f.name
        if any(isinstance(x, ast.Try) for x in ast.walk(f)):
            post_try.append(f)
        for dec in f.decorator_list:
            if isinstance(dec, ast.Attribute) and dec.attr == "setter":
                key += ".setter"
        if key not in known_funcs:
            continue
        self_name = f.args.args[0].arg if (cname is not None and f.args.args) else None
        REF_EXPANDED[id(f)] = v.get("expanded_defs", {}).get(key)
        if key in v.get("attr_stored", {}):
            _record_idiom(f, set(v["attr_stored"][key]), cnt)
        try:
            _normalize_locals(f, known_funcs[key], self_name, cnt, v.get("first_defs", {}).get(key))
        except NotInlinable:
            pass
    for f in post_try:
        _split_isinstance_handlers(f, cnt)
    for cname, f in all_functions():
        if any(isinstance(x, ast.For) and isinstance(x.iter, (ast.ListComp, ast.GeneratorExp)) for x in ast.walk(f)):
            _loop_over_filter(f, cnt)
    for cname, f in all_functions():
        if any(isinstance(x, ast.While) for x in ast.walk(f)):
            for _ in range(8):
                if not _while_counter_to_for(f, cnt):
                    break
    for cname, f in all_functions():
        if any(isinstance(x, ast.For) and x.orelse for x in ast.walk(f)):
            if _for_else_to_while(f, cnt):
                key = f"{cname}.{f.name}" if cname else f.name
                if key in known_funcs:
                    _normalize_locals(f, known_funcs[key], None, cnt, None)
    ast.fix_missing_locations(tree)
    return cnt.stats
