"""Bound-offset analysis (DESIGN A.2).

Abstract values of local variables in the step-producing functions:
  ("box", kind, terms)   equals <reduced bounds>.xl (kind "lo") or .xu ("hi")
                         minus the sum of `terms`
  ("step", terms)        result of a subproblem solver (or a clip) for a box
                         with these terms: it keeps  sum(terms) + step  inside
                         the bounds
Terms are normalised expression texts; `*.x_best` is the symbol "x_best";
parameters of the analysed function are "param:<name>" and are substituted at
call sites.
"""
from __future__ import annotations

import ast

from .astutil import norm, dotted
from .loader import AnalysisError

SOLVERS = {
    "cobyqa.subsolvers.optim:tangential_byrd_omojokun",
    "cobyqa.subsolvers.optim:constrained_tangential_byrd_omojokun",
    "cobyqa.subsolvers.optim:normal_byrd_omojokun",
    "cobyqa.subsolvers.geometry:cauchy_geometry",
    "cobyqa.subsolvers.geometry:spider_geometry",
}


def term_of(e, f):
    t = norm(e)
    if t.endswith(".x_best") or t == "x_best":
        return "x_best"
    if isinstance(e, ast.Name) and e.id in f.params:
        return f"param:{e.id}"
    return t


def bound_kind(e):
    """<...>.bounds.xl / .xl -> 'lo' ; .xu -> 'hi'"""
    if isinstance(e, ast.Attribute) and e.attr in ("xl", "xu") and "bounds" in norm(e.value):
        return "lo" if e.attr == "xl" else "hi"
    return None


class OffsetAnalysis:
    def __init__(self, ctx):
        self.ctx = ctx
        self.problems = []   # (func, node, message)
        self.oks = []
        self.summaries = {}
        self.n_solver_calls = 0

    # -- abstract evaluation of an expression ------------------------------------
    def eval(self, e, f, state):
        """-> set of abstract values (empty = not a tracked value)"""
        if isinstance(e, ast.Name):
            return state.get(e.id, frozenset())
        if isinstance(e, ast.BinOp) and isinstance(e.op, ast.Sub):
            k = bound_kind(e.left)
            if k is not None:
                return frozenset({("box", k, frozenset({term_of(e.right, f)}))})
            left = self.eval(e.left, f, state)
            out = set()
            for v in left:
                if v[0] == "box":
                    out.add(("box", v[1], v[2] | {term_of(e.right, f)}))
            return frozenset(out)
        if isinstance(e, ast.Attribute):
            k = bound_kind(e)
            if k is not None:
                return frozenset({("box", k, frozenset())})
            return frozenset()
        if isinstance(e, ast.BinOp) and isinstance(e.op, ast.Add):
            a = self.eval(e.left, f, state)
            b = self.eval(e.right, f, state)
            sa = [v for v in a if v[0] == "step"]
            sb = [v for v in b if v[0] == "step"]
            if sa and sb:
                out = set()
                for x in sa:
                    for y in sb:
                        r = self.compose(x, term_of(e.left, f), y, term_of(e.right, f))
                        if r is None:
                            self.problems.append((f, e, f"`{norm(e)}` adds two steps whose bounds were not taken relative to each other: "
                                                         f"`{norm(e.left)}` keeps {fmt_terms(x[1])}+s inside the box, `{norm(e.right)}` keeps {fmt_terms(y[1])}+s inside"))
                            out.add(("step", frozenset({"?"})))
                        else:
                            out.add(r)
                return frozenset(out)
            return frozenset()
        if isinstance(e, ast.Call):
            return self.eval_call(e, f, state)
        if isinstance(e, ast.IfExp):
            return self.eval(e.body, f, state) | self.eval(e.orelse, f, state)
        return frozenset()

    @staticmethod
    def compose(x, xname, y, yname):
        """step x (terms Tx) + step y (terms Ty): valid iff Ty = Tx + {x}"""
        tx, ty = x[1], y[1]
        if ty == tx | {xname} and xname not in tx:
            return ("step", tx)
        if tx == ty | {yname} and yname not in ty:
            return ("step", ty)
        return None

    def eval_call(self, call, f, state):
        res = self.ctx.res
        targets = res.call_targets(call, f)
        d = dotted(call.func) or ""
        short = d.split(".")[-1]
        if short == "clip" and len(call.args) >= 3:
            lo = self.eval(call.args[1], f, state)
            hi = self.eval(call.args[2], f, state)
            return self._boxes_to_step(call, f, lo, hi, "np.clip")
        if short in ("copy", "array", "asarray") and call.args:
            return self.eval(call.args[0], f, state)
        for t in targets:
            if t.kind != "repo":
                continue
            g = t.func
            if g.qual in SOLVERS:
                self.n_solver_calls += 1
                from .valueflow import arg_for
                a_lo = arg_for(call, g, "xl", t.detail)
                a_hi = arg_for(call, g, "xu", t.detail)
                if not isinstance(a_lo, ast.AST) or not isinstance(a_hi, ast.AST):
                    self.problems.append((f, call, f"bounds arguments of {g.name} not found"))
                    return frozenset({("step", frozenset({"?"}))})
                lo = self.eval(a_lo, f, state)
                hi = self.eval(a_hi, f, state)
                return self._boxes_to_step(call, f, lo, hi, g.name)
            summ = self.summary(g)
            if summ is not None:
                # substitute parameters by the caller's argument terms
                from .valueflow import arg_for
                out = []
                for pos in summ:
                    vals = set()
                    for v in pos:
                        terms = set()
                        for tm in v[1]:
                            if tm.startswith("param:"):
                                a = arg_for(call, g, tm[6:], t.detail)
                                terms.add(term_of(a, f) if isinstance(a, ast.AST) else "?")
                            else:
                                terms.add(tm)
                        vals.add(("step", frozenset(terms)))
                    out.append(frozenset(vals))
                if len(out) == 1:
                    return out[0]
                return frozenset({("tuple", tuple(out))})
        return frozenset()

    def _boxes_to_step(self, call, f, lo, hi, what):
        lo_b = [v for v in lo if v[0] == "box"]
        hi_b = [v for v in hi if v[0] == "box"]
        if not lo_b or not hi_b:
            self.problems.append((f, call, f"{what}: the bounds handed over are not `<reduced bounds> - <point>` expressions "
                                           f"(lower: {norm(call.args[1]) if what == 'np.clip' else '?'})"))
            return frozenset({("step", frozenset({"?"}))})
        out = set()
        for a in lo_b:
            for b in hi_b:
                if a[1] != "lo" or b[1] != "hi":
                    self.problems.append((f, call, f"{what}: lower/upper bound arguments are swapped or both taken from the same side"))
                if a[2] != b[2]:
                    self.problems.append((f, call, f"{what}: the lower bound is taken relative to {fmt_terms(a[2])} but the upper bound relative to {fmt_terms(b[2])}: "
                                                   f"the returned step can leave the box by the difference"))
                else:
                    self.oks.append((f, call, f"{what}: both bounds relative to {fmt_terms(a[2])}"))
                out.add(("step", a[2]))
        return frozenset(out)

    # -- per-function dataflow ------------------------------------------------------
    def analyse(self, f):
        cfg = self.ctx.cfg(f)

        def transfer(node, state, label):
            if node.kind != "stmt" or label == "exc":
                return state
            s = node.ast
            if isinstance(s, ast.Assign):
                val = self.eval(s.value, f, dict(state))
                new = dict(state)
                for t in s.targets:
                    if isinstance(t, ast.Name):
                        if val:
                            new[t.id] = val
                        else:
                            new.pop(t.id, None)
                    elif isinstance(t, (ast.Tuple, ast.List)):
                        tup = [v for v in val if v[0] == "tuple"]
                        tnames = {f"ret:{i}": el.id for i, el in enumerate(t.elts) if isinstance(el, ast.Name)}
                        for i, el in enumerate(t.elts):
                            if isinstance(el, ast.Name):
                                if tup and i < len(tup[0][1]):
                                    new[el.id] = frozenset((x[0], frozenset(tnames.get(tm, tm) for tm in x[1])) for x in tup[0][1][i])
                                else:
                                    new.pop(el.id, None)
                return frozenset(new.items())
            if isinstance(s, ast.AugAssign) and isinstance(s.target, ast.Name):
                cur = dict(state).get(s.target.id, frozenset())
                new = dict(state)
                if isinstance(s.op, ast.Sub):
                    out = set()
                    for v in cur:
                        if v[0] == "box":
                            out.add(("box", v[1], v[2] | {term_of(s.value, f)}))
                    if out:
                        new[s.target.id] = frozenset(out)
                    else:
                        new.pop(s.target.id, None)
                elif isinstance(s.op, ast.Add):
                    other = self.eval(s.value, f, dict(state))
                    sa = [v for v in cur if v[0] == "step"]
                    sb = [v for v in other if v[0] == "step"]
                    if sa and sb:
                        out = set()
                        for x in sa:
                            for y in sb:
                                if y[1] == x[1] | {s.target.id} or y[1] == x[1] | {f"param:{s.target.id}"}:
                                    out.add(("step", x[1]))
                                    self.oks.append((f, s, f"`{norm(s)}`: the added step was bounded relative to {fmt_terms(y[1])}"))
                                else:
                                    self.problems.append((f, s, f"`{norm(s)}`: `{norm(s.value)}` was computed with bounds relative to {fmt_terms(y[1])} "
                                                                f"but is added to {fmt_terms(x[1] | {s.target.id})}: the sum can leave the box"))
                                    out.add(("step", x[1]))
                        new[s.target.id] = frozenset(out)
                    else:
                        new.pop(s.target.id, None)
                else:
                    new.pop(s.target.id, None)
                return frozenset(new.items())
            return state

        def join(a, b):
            da, db = dict(a), dict(b)
            out = {}
            for k in set(da) | set(db):
                out[k] = da.get(k, frozenset()) | db.get(k, frozenset())
            return frozenset(out.items())

        return cfg, cfg.solve_forward(frozenset(), transfer, join)

    def summary(self, g):
        """Abstract values of the returned step(s) of g, per tuple position;
        None when g does not return a tracked step."""
        if g.qual in self.summaries:
            return self.summaries[g.qual]
        self.summaries[g.qual] = None
        if g.cls is None or g.cls.name != "TrustRegion":
            return None
        cfg, states = self.analyse(g)
        positions = None
        for n in cfg.nodes:
            if n.kind == "stmt" and isinstance(n.ast, ast.Return) and n.ast.value is not None:
                st = dict(states.get(n.id, frozenset()))
                v = n.ast.value
                elts = v.elts if isinstance(v, ast.Tuple) else [v]
                names = {e.id: f"ret:{i}" for i, e in enumerate(elts) if isinstance(e, ast.Name)}
                vals = [frozenset(("step", frozenset(names.get(tm, tm) for tm in x[1])) for x in self.eval(e, g, st) if x[0] == "step") for e in elts]
                if not any(vals):
                    continue
                if positions is None:
                    positions = vals
                else:
                    positions = [a | b for a, b in zip(positions, vals)]
        self.summaries[g.qual] = positions
        return positions


def fmt_terms(t):
    return "{" + ", ".join(sorted(x.replace("param:", "") for x in t)) + "}"
