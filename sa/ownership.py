"""Caller-owned-object analysis (C11 R11.3): which parameters and fields may
alias an object owned by the caller of minimize, and which in-place writes hit
them.  Intraprocedural aliasing comes from sa/alias.py (flow-sensitive
reaching definitions, allocation kinds); this module adds the interprocedural
fixed point over parameters, fields and return values."""
from __future__ import annotations

import ast

from .alias import Alias, return_roots
from .astutil import norm, dotted
from .valueflow import arg_for
from . import tables as T

MUTATING_METHODS = {"fill", "sort", "append", "extend", "insert", "update", "setdefault", "pop", "popitem", "clear",
                    "remove", "resize", "itemset", "put", "setflags", "partition", "byteswap", "add", "discard", "reverse"}
MUTATING_FUNCS = {"copyto": 0, "put": 0, "fill_diagonal": 0, "place": 0, "putmask": 0, "shuffle": 0}


class Ownership:
    def __init__(self, ctx, seeds=None):
        self.ctx = ctx
        m = ctx.func(T.MINIMIZE)
        self.tparams = set(seeds) if seeds is not None else {
            (m.qual, p) for p in m.params if p not in ("fun", "callback")
        }
        self.tfields = set()
        self._alias = {}
        self.unknown = {}
        changed = True
        rounds = 0
        while changed and rounds < 20:
            rounds += 1
            changed = False
            for f in ctx.repo.funcs.values():
                if self._propagate(f):
                    changed = True
        self.rounds = rounds

    def alias(self, f):
        a = self._alias.get(f.qual)
        if a is None:
            a = Alias(self.ctx, f)
            self._alias[f.qual] = a
        return a

    def tainted_root(self, f, root):
        """Is the alias root (a string produced by Alias.roots) user-owned?"""
        if root.startswith("?"):
            self.unknown[root] = self.unknown.get(root, 0) + 1
            return False
        base = root.split(".")[0].split("[")[0]
        if base == f.self_name and f.cls is not None:
            parts = root.split(".")
            if len(parts) >= 2:
                fld = parts[1].split("[")[0]
                return self._field_tainted(f.cls.name, fld)
            return False
        if (f.qual, base) in self.tparams:
            return True
        # attribute chain through another typed object: x.attr where x: inst
        return False

    def _field_tainted(self, cls, fld):
        if (cls, fld) in self.tfields:
            return True
        c = self.ctx.repo.classes.get(cls)
        if c is not None and fld in c.getters:
            g = c.getters[fld]
            for r in return_roots(self.ctx, g):
                if self.tainted_root(g, r):
                    return True
        return False

    def expr_tainted(self, f, e, at=None):
        roots = self.alias(f).roots(e, at if at is not None else e)
        hit = [r for r in roots if self.tainted_root(f, r)]
        # typed receivers: pb.bounds.xl -> field of another class
        if not hit:
            hit = self._typed_chain(f, e)
        return hit

    def _typed_chain(self, f, e):
        """x.attr[...] where x is an instance of a repo class with a tainted field."""
        cur = e
        while isinstance(cur, (ast.Subscript, ast.Call)):
            cur = cur.value if isinstance(cur, ast.Subscript) else cur.func
        if isinstance(cur, ast.Attribute):
            bt = self.ctx.type_of(cur.value, f)
            for a in bt:
                if a[0] == "inst" and self._field_tainted(a[1], cur.attr):
                    return [f"{a[1]}.{cur.attr}"]
        return []

    def _propagate(self, f):
        changed = False
        ctx = self.ctx
        # calls: argument taint -> callee parameter taint
        for ev in ctx.events(f):
            if ev.kind != "call":
                continue
            call = ev.node
            for t in ev.targets:
                if t.kind != "repo":
                    continue
                g = t.func
                for p in g.params + g.kwonly:
                    if p == g.self_name:
                        continue
                    a = arg_for(call, g, p, t.detail)
                    if a is None or a == "unknown":
                        continue
                    if (g.qual, p) in self.tparams:
                        continue
                    if self.expr_tainted(f, a, at=a):
                        self.tparams.add((g.qual, p))
                        changed = True
                if g.vararg:
                    for a in call.args:
                        if isinstance(a, ast.Starred) and (g.qual, g.vararg) not in self.tparams and self.expr_tainted(f, a.value, at=a.value):
                            self.tparams.add((g.qual, g.vararg))
                            changed = True
        # field stores
        if f.cls is not None and f.self_name:
            for node in ast.walk(f.node):
                if isinstance(node, ast.Assign):
                    for tg in node.targets:
                        tl = tg.elts if isinstance(tg, (ast.Tuple, ast.List)) else [tg]
                        for el in tl:
                            if isinstance(el, ast.Attribute) and isinstance(el.value, ast.Name) and el.value.id == f.self_name:
                                key = (f.cls.name, el.attr)
                                if key not in self.tfields and self.expr_tainted(f, node.value, at=node):
                                    self.tfields.add(key)
                                    changed = True
                elif isinstance(node, ast.Call) and isinstance(node.func, ast.Attribute) and node.func.attr in ("append", "extend", "insert") and node.args:
                    base = node.func.value
                    if isinstance(base, ast.Attribute) and isinstance(base.value, ast.Name) and base.value.id == f.self_name:
                        key = (f.cls.name, base.attr)
                        if key not in self.tfields and self.expr_tainted(f, node.args[-1], at=node.args[-1]):
                            self.tfields.add(key)
                            changed = True
        return changed

    # ------------------------------------------------------------------
    def write_sites(self, f):
        """(kind, target base expr, node) for every in-place write in f."""
        out = []
        for node in ast.walk(f.node):
            if ctx_owner(node, f) is False:
                continue
            if isinstance(node, ast.Assign):
                for tg in node.targets:
                    tl = tg.elts if isinstance(tg, (ast.Tuple, ast.List)) else [tg]
                    for el in tl:
                        if isinstance(el, ast.Subscript):
                            out.append(("setitem", el.value, node))
                        elif isinstance(el, ast.Attribute) and not (isinstance(el.value, ast.Name) and el.value.id == f.self_name):
                            out.append(("setattr", el.value, node))
            elif isinstance(node, ast.AugAssign):
                t = node.target
                if isinstance(t, ast.Subscript):
                    out.append(("setitem", t.value, node))
                elif isinstance(t, (ast.Name, ast.Attribute)):
                    out.append(("augassign", t, node))
            elif isinstance(node, ast.Delete):
                for t in node.targets:
                    if isinstance(t, ast.Subscript):
                        out.append(("delitem", t.value, node))
            elif isinstance(node, ast.Call):
                fn = node.func
                if isinstance(fn, ast.Attribute) and fn.attr in MUTATING_METHODS and not _module_call(fn):
                    out.append(("method:" + fn.attr, fn.value, node))
                d = dotted(fn) or ""
                short = d.split(".")[-1]
                if short in MUTATING_FUNCS and _module_call(fn) and node.args:
                    out.append(("func:" + short, node.args[MUTATING_FUNCS[short]], node))
                for kw in node.keywords:
                    if kw.arg == "out":
                        out.append(("out=", kw.value, node))
        return out


def _module_call(fn):
    base = fn
    while isinstance(base, ast.Attribute):
        base = base.value
    return isinstance(base, ast.Name) and base.id in ("np", "numpy", "scipy", "copy", "math", "warnings", "inspect", "sys", "os")


def ctx_owner(node, f):
    return True
