"""Findings, known-findings handling, evidence files and exit codes."""
from __future__ import annotations

import hashlib
import json
import os
import time
from pathlib import Path

VERIF = Path(__file__).resolve().parent.parent
KNOWN_FILE = VERIF / "known_findings.json"


class Finding:
    def __init__(self, prop, rule, file, func, construct, line, message, witness=None):
        self.prop = prop
        self.rule = rule
        self.file = file
        self.func = func
        self.construct = " ".join(str(construct).split())
        self.line = int(line) if isinstance(line, float) else line
        self.message = message
        self.witness = witness

    @property
    def key(self):
        return f"{self.prop}|{self.rule}|{self.file}|{self.func}|{self.construct}"

    def to_json(self):
        return {
            "property": self.prop,
            "rule": self.rule,
            "file": self.file,
            "function": self.func,
            "construct": self.construct,
            "line": self.line,
            "message": self.message,
            "witness": self.witness,
            "key": self.key,
        }

    def fmt(self):
        w = f"\n      witness: {self.witness}" if self.witness else ""
        return (
            f"  {self.file}:{self.line}  [{self.rule}]  {self.func}: {self.message}\n"
            f"      construct: {self.construct[:200]}{w}"
        )


class Obligations:
    """Counter of obligations / discharged ones with samples."""

    def __init__(self):
        self.total = 0
        self.ok = 0
        self.samples = []
        self.by_rule = {}
        self.notes = []

    def add(self, rule, text, ok=True):
        self.total += 1
        r = self.by_rule.setdefault(rule, [0, 0])
        r[0] += 1
        if ok:
            self.ok += 1
            r[1] += 1
        if len([s for s in self.samples if s["rule"] == rule]) < 4:
            self.samples.append({"rule": rule, "obligation": " ".join(str(text).split())[:300], "discharged": bool(ok)})

    def note(self, text):
        self.notes.append(text)


class Report:
    def __init__(self, prop, tier="quick", seed=0):
        self.prop = prop
        self.tier = tier
        self.seed = seed
        self.findings = []
        self.obl = Obligations()
        self.t0 = time.time()
        self.rules = {}
        self.analysed = {}
        self.assumptions = []
        self.extra = {}
        self._keys = set()

    def rule(self, rid, text):
        self.rules[rid] = text

    def finding(self, rule, func, construct, line, message, witness=None, file=None):
        """func may be a Func object or a string."""
        if hasattr(func, "local"):
            file = func.relfile
            fname = func.local
        else:
            fname = str(func)
            file = file or "?"
        f = Finding(self.prop, rule, file, fname, construct, line, message, witness)
        if f.key in self._keys:
            return f
        self._keys.add(f.key)
        self.findings.append(f)
        return f

    def ok(self, rule, text):
        self.obl.add(rule, text, True)

    def bad(self, rule, text):
        self.obl.add(rule, text, False)


def load_known():
    if not KNOWN_FILE.exists():
        return {"known": [], "fixed": []}
    with open(KNOWN_FILE) as fh:
        return json.load(fh)


def match_known(f, known):
    for k in known.get("known", []):
        if k.get("property") != f.prop:
            continue
        if k.get("key") == f.key:
            return k
        # matching by (rule, function, construct) - never by line
        if (
            k.get("rule") == f.rule
            and k.get("function") == f.func
            and k.get("construct") == f.construct
        ):
            return k
    return None


def finish(report, repo_stats, cg_stats, out=print, evidence_dir=None, replay_dir=None, write_evidence=True):
    """Print the verdict, write evidence and replay files, return exit code."""
    known = load_known()
    new = []
    known_hit = []
    for f in report.findings:
        k = match_known(f, known)
        if k is not None:
            known_hit.append((f, k))
        else:
            new.append(f)
    wall = time.time() - report.t0
    evidence_dir = Path(evidence_dir or (VERIF / "evidence"))
    replay_dir = Path(replay_dir or (VERIF / "replay"))
    out(f"== {report.prop} [{report.tier}] static analysis of {repo_stats.get('root', '/repo')} "
        f"(digest {repo_stats.get('digest')})")
    out(f"   analysed: {repo_stats.get('modules')} modules, {repo_stats.get('functions')} functions, "
        f"{cg_stats.get('call_sites')} call sites ({cg_stats.get('unresolved')} unresolved)")
    for rid, (tot, ok) in sorted(report.obl.by_rule.items()):
        out(f"   {rid}: {ok}/{tot} obligations discharged")
    for n in report.obl.notes:
        out(f"   NOTE: {n}")
    for f, k in known_hit:
        out(f"KNOWN-FINDING: property={report.prop} {k.get('what', f.message)} [{f.rule} {f.file}:{f.line} {f.func}]")
    code = 0
    replay_path = None
    if new:
        code = 1
        replay_dir.mkdir(parents=True, exist_ok=True)
        h = hashlib.sha256("\n".join(sorted(f.key for f in new)).encode()).hexdigest()[:12]
        replay_path = replay_dir / f"{report.prop}-{h}.json"
        with open(replay_path, "w") as fh:
            json.dump(
                {
                    "property": report.prop,
                    "tier": report.tier,
                    "repo_digest": repo_stats.get("digest"),
                    "findings": [f.to_json() for f in new],
                    "rules": report.rules,
                    "how_to_replay": f"./check {report.prop} --replay <this file>  (re-runs the rules on the current tree and shows whether these findings are still present)",
                },
                fh,
                indent=1,
            )
        out(f"-- {len(new)} finding(s):")
        for f in new:
            out(f.fmt())
        out(f"VIOLATION property={report.prop} replay={replay_path}")
    else:
        out(f"-- OK: {report.obl.ok}/{report.obl.total} obligations discharged, "
            f"{len(known_hit)} known finding(s), {wall:.2f}s")
    if write_evidence:
        evidence_dir.mkdir(parents=True, exist_ok=True)
        cov = {
            "explanation": report.extra.pop("explanation", "")
            or f"Static analysis (no execution) of the working tree: the rules listed under 'rules' were evaluated on every matching construct; see rule_instances.",
            "obligations": report.obl.total,
            "discharged": report.obl.ok,
            "rule_instances": {k: {"obligations": v[0], "discharged": v[1]} for k, v in sorted(report.obl.by_rule.items())},
            "rules": report.rules,
            "samples": report.obl.samples[:40] or [{"note": "no obligations"}],
            "analysed": dict(repo_stats, **cg_stats, **report.analysed),
            "trusted_base": [
                "CPython ast parser",
                "external-callee table in sa/types.py (numpy/scipy semantics; PreparedConstraint/VectorFunction run user code)",
                "frozen instance tables in sa/tables.py",
            ],
            "checker_cmd": f"./check {report.prop} --tier {report.tier}",
            "exhaustive": bool(report.extra.pop("exhaustive", False)),
            "known_findings_reported": [f.key for f, _ in known_hit],
            "new_findings": [f.to_json() for f in new],
            "notes": report.obl.notes,
        }
        cov.update(report.extra)
        ev = {
            "property_id": report.prop,
            "tier": report.tier,
            "seed": int(report.seed),
            "level": "other",
            "coverage": cov,
            "assumptions": report.assumptions
            or ["numpy/scipy behave as documented", "the deciding step reads source only; nothing is executed"],
            "wall_s": round(wall, 3),
            "violations": len(new),
        }
        tmp = evidence_dir / f".{report.prop}.json.tmp"
        with open(tmp, "w") as fh:
            json.dump(ev, fh, indent=1, default=str)
        os.replace(tmp, evidence_dir / f"{report.prop}.json")
    return code


class Renamed:
    """View of a Report in which rule identifiers are renamed (used to attach
    a clause checked for one property to another property that also depends
    on it)."""

    def __init__(self, rep, mapping=None, to=None):
        self._rep = rep
        self._map = mapping or {}
        self._to = to
        self.obl = rep.obl
        self.analysed = rep.analysed
        self.extra = rep.extra
        self.findings = rep.findings

    def _r(self, rule):
        if rule in self._map:
            return self._map[rule]
        return self._to or rule

    def rule(self, rid, text):
        self._rep.rules.setdefault(self._r(rid), text)

    def ok(self, rule, text):
        self._rep.ok(self._r(rule), text)

    def bad(self, rule, text):
        self._rep.bad(self._r(rule), text)

    def finding(self, rule, *a, **k):
        return self._rep.finding(self._r(rule), *a, **k)
