"""C01 - bound constraints are never violated anywhere the user can observe.

R1.1 two-space typing: every point handed to user code (objective,
     constraints, callback) and result.x is a build_x result; reduced-space
     operations never receive one.
R1.2 bound-offset agreement: at every subproblem-solver call the lower and the
     upper bound are taken relative to the same point, and every step is added
     to exactly the point its bounds were taken relative to (so x_best + step
     stays in the box by construction).
R1.3 centre stability: between the computation of a step and its evaluation
     the best point is not changed (unless the iteration is restarted).
R1.4 the subproblem solvers keep their iterates inside the given bounds
     (write classification, shared with C15).
R1.5 start point and fixed variables: x0 is projected; build_x fills the full
     vector under complementary masks and returns the projection onto the
     original bounds.
R1.6 the initial interpolation set: the near-a-bound masks of
     Interpolation.__init__ partition their thresholds without gap or overlap.
"""
from __future__ import annotations

import ast

from ..astutil import norm, dotted, cmp_op_str
from ..loader import AnalysisError
from .. import tables as T
from .. import spaces
from ..offsets import OffsetAnalysis, fmt_terms, SOLVERS
from . import common
from .c07 import enclosing_context, mentions, _cmp_parts
from .c12 import best_index_writers

STEP_FUNCS = (
    "cobyqa.framework:TrustRegion.get_trust_region_step",
    "cobyqa.framework:TrustRegion.get_geometry_step",
    "cobyqa.framework:TrustRegion.get_second_order_correction_step",
)


def run(ctx, rep):
    rep.rule("R1.1", "points handed to user code and result.x are build_x results; reduced-space operations never receive a build_x result")
    rep.rule("R1.2", "at every subproblem-solver call xl and xu are `reduced bounds - P` for the same point P, and every step is added to exactly that P")
    rep.rule("R1.3", "no writer of the best index runs between the computation of a step and its evaluation unless guarded by its own 'same best point' result")
    rep.rule("R1.4", "write classification of the subproblem solvers' iterates (see C15 R15.1)")
    rep.rule("R1.5", "x0 projected onto the reduced box; build_x defines the full buffer under complementary masks and returns _orig_bounds.project(buffer)")
    rep.rule("R1.6", "threshold masks of Interpolation.__init__ are complementary (no gap / overlap at equality)")
    live = ctx.facts.live
    sinks = [ev for ev in ctx.sink_events() if not live.is_dead(ev)]
    classes = common.sink_classes(ctx, sinks)
    if len(sinks) < 5:
        raise AnalysisError("fewer than 5 user-code call sites")
    spaces.check_sink_spaces(ctx, rep, "R1.1", sinks, classes)
    n = spaces.check_reduced_operands(ctx, rep, "R1.1")
    if n < 8:
        raise AnalysisError("reduced-space operations not found")
    r12(ctx, rep)
    r13(ctx, rep)
    from .c15 import r151
    r151(ctx, rep, rule="R1.4")
    r15(ctx, rep)
    r16(ctx, rep)
    rep.rule("R1.7", "bounds reach the subproblem solvers through the right parameters (no swapped arguments)")
    common.check_swapped_args(ctx, rep, "R1.7", lambda g: g.module.name.startswith("cobyqa.subsolvers"))
    rep.rule("R1.8", "bound bookkeeping of the subproblem solvers: lower/upper twin symmetry and sibling agreement (see C15 R15.6, R15.11)")
    from ..report import Renamed
    from . import c15
    c15.r156(ctx, Renamed(rep, to="R1.8"))
    c15.r1511(ctx, Renamed(rep, to="R1.8"))
    c15.r1516(ctx, Renamed(rep, to="R1.8"))
    rep.rule("R1.9", "user code gets a private copy of the point: an objective that modifies its argument cannot move the point at which the constraints of the same evaluation are called (see C06 R6.4)")
    from . import c06
    c06.r64(ctx, Renamed(rep, to="R1.9"), rule="R1.9")


# ---------------------------------------------------------------------------
def r12(ctx, rep):
    oa = OffsetAnalysis(ctx)
    for q in STEP_FUNCS:
        g = ctx.func(q)
        summ = oa.summary(g)
        if summ is None:
            rep.bad("R1.2", f"{g.local} returns no tracked step")
            rep.finding("R1.2", g, "returned step", g.node.lineno, "the step returned is not the result of a subproblem solver (or clip) with bounds of the form `reduced bounds - point`")
            continue
        for i, pos in enumerate(summ):
            for v in pos:
                rep.ok("R1.2", f"{g.local} returns[{i}] a step that keeps {fmt_terms(v[1])} + step inside the bounds")
    # minimize: composition of the steps and the evaluation
    m = ctx.func(T.MINIMIZE)
    cfg, states = oa.analyse(m)
    ew = ctx.func(T.EVAL_WRAPPER)
    from ..valueflow import arg_for
    n_eval = 0
    for ev in ctx.events(m):
        if ev.kind == "call" and any(t.kind == "repo" and t.name == ew.qual for t in ev.targets):
            n_eval += 1
            a = arg_for(ev.node, ew, "step", "func")
            nid = cfg.node_containing(ev.node)
            st = dict(states.get(nid, frozenset()))
            vals = oa.eval(a, m, st) if isinstance(a, ast.AST) else frozenset()
            desc = f"minimize:{ev.line} _eval(.., {norm(a) if isinstance(a, ast.AST) else a}, ..)"
            steps = [v for v in vals if v[0] == "step"]
            if not steps:
                rep.bad("R1.2", desc)
                rep.finding("R1.2", m, ev.text()[:80], ev.line, "the step evaluated is not a tracked subproblem-solver step: nothing guarantees x_best + step is inside the bounds")
                continue
            for v in steps:
                if v[1] == frozenset({"x_best"}):
                    rep.ok("R1.2", desc + " bounds were taken relative to x_best")
                else:
                    rep.bad("R1.2", desc)
                    rep.finding("R1.2", m, ev.text()[:80], ev.line,
                                f"the step is evaluated at x_best + step but its bounds were taken relative to {fmt_terms(v[1])}: the trial point can leave the box and is then silently projected")
    if n_eval < 3:
        raise AnalysisError("fewer than 3 _eval call sites in minimize")
    if oa.n_solver_calls < 5:
        raise AnalysisError(f"only {oa.n_solver_calls} subproblem-solver calls analysed (floor 5)")
    seen = set()
    for f, node, msg in oa.problems:
        key = (f.qual, getattr(node, "lineno", 0), msg)
        if key in seen:
            continue
        seen.add(key)
        rep.bad("R1.2", f"{f.local}:{getattr(node, 'lineno', 0)} {msg[:80]}")
        rep.finding("R1.2", f, norm(node)[:120], getattr(node, "lineno", 0), msg)
    seen = set()
    for f, node, msg in oa.oks:
        key = (f.qual, getattr(node, "lineno", 0), msg)
        if key in seen:
            continue
        seen.add(key)
        rep.ok("R1.2", f"{f.local}:{getattr(node, 'lineno', 0)} {msg}")
    # the point evaluated in _eval is x_best + step (checked in C12 R12.4 as well)
    rep.analysed["solver_calls"] = oa.n_solver_calls


# ---------------------------------------------------------------------------
def r13(ctx, rep):
    m = ctx.func(T.MINIMIZE)
    cfg = ctx.cfg(m)
    writers, direct = best_index_writers(ctx)
    ew = ctx.func(T.EVAL_WRAPPER)
    upd = "cobyqa.models:Models.update_interpolation"
    step_nodes = set()
    writer_nodes = {}
    eval_nodes = {}
    for ev in ctx.events(m):
        nid = cfg.node_containing(ev.node)
        for t in ev.targets:
            if t.kind != "repo":
                continue
            if t.name in STEP_FUNCS:
                step_nodes.add(nid)
            elif t.name == ew.qual:
                eval_nodes[nid] = ev
            elif t.name in writers and t.name != upd and t.name not in STEP_FUNCS and t.func.name not in ("__init__",):
                writer_nodes[nid] = ev
    # state: 'fresh' | 'stale' | ('pending', var)
    def transfer(node, state, label):
        if label == "exc":
            return state
        new = set(state)
        if node.id in step_nodes and node.id not in writer_nodes:
            new = {"fresh"}
        if node.id in writer_nodes:
            s = node.ast
            if node.kind == "stmt" and isinstance(s, ast.Assign) and len(s.targets) == 1 and isinstance(s.targets[0], ast.Name):
                new = {("pending", s.targets[0].id)}
            else:
                new = {"stale"}
        if node.kind == "test":
            t = node.ast.test
            out = set()
            for x in new:
                if isinstance(x, tuple) and isinstance(t, ast.Name) and t.id == x[1]:
                    out.add("fresh" if label == "true" else "stale")
                elif isinstance(x, tuple) and isinstance(t, ast.UnaryOp) and isinstance(t.op, ast.Not) and isinstance(t.operand, ast.Name) and t.operand.id == x[1]:
                    out.add("fresh" if label == "false" else "stale")
                else:
                    out.add(x)
            new = out
        return frozenset(new)

    states = cfg.solve_forward(frozenset({"stale"}), transfer, lambda a, b: a | b)
    for nid, ev in eval_nodes.items():
        st = states.get(nid, frozenset())
        desc = f"minimize:{ev.line} evaluation of x_best + step"
        bad = [x for x in st if x != "fresh"]
        if bad:
            w = ", ".join(sorted(f"{e.text()[:40]} (line {e.line})" for e in writer_nodes.values()))
            rep.bad("R1.3", desc)
            rep.finding("R1.3", m, ev.text()[:80], ev.line,
                        "the best point may have changed between the computation of the step and its evaluation "
                        f"(a writer of the best index runs in between without restarting the iteration; writers: {w[:200]})")
        else:
            rep.ok("R1.3", desc + " - x_best unchanged since the step was computed")


# ---------------------------------------------------------------------------
def r15(ctx, rep):
    from ..inline import expander
    pinit = ctx.func("cobyqa.problem:Problem.__init__")
    inl = expander(ctx, pinit)
    cfg = ctx.cfg(pinit)
    stores = [n for n in cfg.nodes if n.kind == "stmt" and isinstance(n.ast, ast.Assign)
              and any(isinstance(t, ast.Attribute) and t.attr == "_x0" for t in n.ast.targets)]
    if not stores:
        raise AnalysisError("Problem.__init__: no store to _x0")
    stores.sort(key=lambda n: n.line)
    first = stores[0]
    v = inl.expand(first.ast.value, first.ast)
    ok = isinstance(v, ast.Call) and isinstance(v.func, ast.Attribute) and v.func.attr == "project" and mentions(v.func.value, "_bounds") and not mentions(v.func.value, "_orig_bounds")
    if not ok and isinstance(v, ast.Call) and (dotted(v.func) or "").split(".")[-1] == "clip":
        ok = True
    if ok:
        rep.ok("R1.5", f"{pinit.local}:{first.line} x0 = reduced bounds .project(x0[~fixed])")
    else:
        rep.bad("R1.5", "x0 projection")
        rep.finding("R1.5", pinit, norm(first.ast)[:100], first.line, "the starting point is not projected onto the (reduced) bounds")
    for n in stores[1:]:
        v = inl.expand(n.ast.value, n.ast)
        good = isinstance(v, ast.BinOp) and isinstance(v.op, ast.Div) and isinstance(v.left, ast.BinOp) and isinstance(v.left.op, ast.Sub) and mentions(v.left.left, "_x0") and mentions(v.left.right, "_scaling_shift") and mentions(v.right, "_scaling_factor")
        if good:
            rep.ok("R1.5", f"{pinit.local}:{n.line} x0 rescaled by (x0 - shift) / factor")
        else:
            rep.bad("R1.5", "x0 rescaling")
            rep.finding("R1.5", pinit, norm(n.ast)[:100], n.line, "a later definition of x0 is not the affine rescaling (x0 - shift) / factor of the projected point")
    # build_x
    bx = ctx.func(T.BUILD_X)
    inb = expander(ctx, bx)
    rets = [n for n in ast.walk(bx.node) if isinstance(n, ast.Return) and n.value is not None]
    buf = None
    for n in ast.walk(bx.node):
        if isinstance(n, ast.Assign) and isinstance(n.value, ast.Call) and (dotted(n.value.func) or "").split(".")[-1] in ("empty", "zeros", "full", "empty_like"):
            if isinstance(n.targets[0], ast.Name):
                buf = n.targets[0].id
    if buf is None or not rets:
        raise AnalysisError("build_x: buffer allocation / return not found")
    for r in rets:
        v = inb.expand(r.value, r)
        good = isinstance(v, ast.Call) and isinstance(v.func, ast.Attribute) and v.func.attr == "project" and mentions(v.func.value, "_orig_bounds") and v.args and isinstance(v.args[0], ast.Name) and v.args[0].id == buf
        if good:
            rep.ok("R1.5", f"build_x:{r.lineno} returns _orig_bounds.project({buf})")
        else:
            rep.bad("R1.5", "build_x return")
            rep.finding("R1.5", bx, norm(r)[:100], r.lineno, "build_x does not return the projection of the full vector onto the original bounds (the last operation must be the projection, so that rounding in the un-scaling cannot leave the box)")
    masks = []
    for n in ast.walk(bx.node):
        if isinstance(n, ast.Assign) and isinstance(n.targets[0], ast.Subscript) and isinstance(n.targets[0].value, ast.Name) and n.targets[0].value.id == buf:
            masks.append((inb.expand(n.targets[0].slice, n), inb.expand(n.value, n), n))
    pos = [mk for mk in masks if not (isinstance(mk[0], ast.UnaryOp) and isinstance(mk[0].op, ast.Invert))]
    neg = [mk for mk in masks if isinstance(mk[0], ast.UnaryOp) and isinstance(mk[0].op, ast.Invert)]
    good = len(pos) == 1 and len(neg) == 1 and norm(pos[0][0]) == norm(neg[0][0].operand)
    if good and mentions(pos[0][1], "_fixed_val") and mentions(neg[0][1], "_scaling_factor") and mentions(neg[0][1], "_scaling_shift"):
        rep.ok("R1.5", f"build_x: buffer defined under complementary masks {norm(pos[0][0])} / ~; fixed part = _fixed_val, free part = x*factor + shift")
    else:
        rep.bad("R1.5", "build_x masks")
        rep.finding("R1.5", bx, "; ".join(norm(mk[2])[:60] for mk in masks), bx.node.lineno,
                    "the full vector is not completely defined by one store under the fixed mask (= _fixed_val) and one under its complement (= x*factor + shift): uninitialised or wrongly placed components")
    # project: clip to the bounds on the feasible branch
    pr = ctx.func("cobyqa.problem:BoundConstraints.project")
    ok = False
    for n in ast.walk(pr.node):
        if isinstance(n, ast.Return) and n.value is not None:
            for sub in ast.walk(n.value):
                if isinstance(sub, ast.Call) and (dotted(sub.func) or "").split(".")[-1] == "clip" and len(sub.args) == 3 and mentions(sub.args[1], "xl", "_xl") and mentions(sub.args[2], "xu", "_xu"):
                    ok = True
                if isinstance(sub, ast.Call) and (dotted(sub.func) or "").split(".")[-1] in ("minimum",) and sub.args and isinstance(sub.args[0], ast.Call) and (dotted(sub.args[0].func) or "").split(".")[-1] == "maximum":
                    ok = True
                if isinstance(sub, ast.Call) and (dotted(sub.func) or "").split(".")[-1] in ("maximum",) and sub.args and isinstance(sub.args[0], ast.Call) and (dotted(sub.args[0].func) or "").split(".")[-1] == "minimum":
                    ok = True
    if ok:
        rep.ok("R1.5", "BoundConstraints.project = clip(x, xl, xu)")
    else:
        rep.bad("R1.5", "project")
        rep.finding("R1.5", pr, "return of project", pr.node.lineno, "project no longer clips to [xl, xu]")
    # the projection is only applied when the bounds are flagged consistent:
    # the flag must accept lb == ub (fixed variables), i.e. compare with <=
    bc = ctx.repo.cls("BoundConstraints")
    cmp_found = 0
    for g in list(bc.methods.values()) + list(bc.getters.values()):
        for node in ast.walk(g.node):
            if isinstance(node, ast.Compare) and len(node.ops) == 1:
                l, r = node.left, node.comparators[0]
                try:
                    inl_g = expander(ctx, g)
                    l, r = inl_g.expand(l, node), inl_g.expand(r, node)
                except Exception:
                    pass
                lo_l, hi_l = mentions(l, "xl", "_xl", "lb"), mentions(l, "xu", "_xu", "ub")
                lo_r, hi_r = mentions(r, "xl", "_xl", "lb"), mentions(r, "xu", "_xu", "ub")
                if (lo_l and hi_r and not hi_l and not lo_r) or (hi_l and lo_r and not lo_l and not hi_r):
                    # used for the consistency flag?
                    st = node
                    while getattr(st, "_parent", None) is not None and not isinstance(st, ast.stmt):
                        st = st._parent
                    if not ((isinstance(st, ast.Assign) and any(mentions(t, "is_feasible") for t in st.targets)) or (isinstance(st, ast.Return) and g.name == "is_feasible")):
                        continue
                    cmp_found += 1
                    op = type(node.ops[0]).__name__
                    good = (lo_l and op == "LtE") or (hi_l and op == "GtE")
                    desc = f"{g.local}:{node.lineno} consistency of the bounds `{norm(node)}`"
                    if good:
                        rep.ok("R1.5", desc + " accepts lb == ub")
                    else:
                        rep.bad("R1.5", desc)
                        rep.finding("R1.5", g, norm(node), node.lineno,
                                    "the consistency flag of the bounds must hold for lb <= ub (a fixed variable has lb == ub): with a strict comparison the bounds are flagged inconsistent, "
                                    "the projection in build_x becomes the identity and rounding can leave the box")
    if cmp_found < 1:
        raise AnalysisError("BoundConstraints: the consistency test of the bounds (lb <= ub) was not found")
    # the fixed-variable mask must contain lb == ub exactly: (lb <= ub) & (|lb - ub| < tol)
    inl_p = expander(ctx, pinit)
    fixed_defs = [n for n in ast.walk(pinit.node) if isinstance(n, ast.Assign) and any(isinstance(t, ast.Attribute) and t.attr == "_fixed_idx" for t in n.targets)]
    if not fixed_defs:
        raise AnalysisError("Problem.__init__: definition of the fixed-variable mask not found")
    for fd in fixed_defs:
        v = inl_p.expand(fd.value, fd)
        cmps = [c for c in ast.walk(v) if isinstance(c, ast.Compare) and len(c.ops) == 1 and not any(isinstance(x, ast.Call) and (dotted(x.func) or "").split(".")[-1] in ("abs", "absolute") for x in ast.walk(c))]
        order = [c for c in cmps if (mentions(c.left, "xl", "lb") and mentions(c.comparators[0], "xu", "ub")) or (mentions(c.left, "xu", "ub") and mentions(c.comparators[0], "xl", "lb"))]
        for c in order:
            lo_left = mentions(c.left, "xl", "lb") and not mentions(c.left, "xu", "ub")
            op = type(c.ops[0]).__name__
            good = (lo_left and op == "LtE") or (not lo_left and op == "GtE")
            desc = f"{pinit.local}:{fd.lineno} fixed-variable mask uses `{norm(c)}`"
            if good:
                rep.ok("R1.5", desc)
            else:
                rep.bad("R1.5", desc)
                rep.finding("R1.5", pinit, norm(fd)[:120], fd.lineno, f"the mask of fixed variables must contain lb == ub (and only consistent pairs): `{norm(c)}` {'excludes exactly equal bounds' if op in ('Lt', 'Gt') else 'selects the inconsistent pairs'}, so a variable with lb = ub is not held at that value (and scaling divides by a zero width)")
    # fixed values are inside their bounds
    fv = [n for n in ast.walk(pinit.node) if isinstance(n, ast.Assign) and any(isinstance(t, ast.Attribute) and t.attr == "_fixed_val" for t in n.targets)]
    if fv:
        last = sorted(fv, key=lambda n: n.lineno)[-1]
        v = last.value
        if isinstance(v, ast.Name):
            # the local that is stored: its last definition before the store
            c2 = ctx.cfg(pinit)
            nid = c2.node_of(last)
            defs = c2.reaching_defs().get(nid, {}).get(v.id, ())
            vals = [c2.nodes[d].ast.value for d in defs if d != c2.entry and isinstance(c2.nodes[d].ast, ast.Assign)]
            v = vals[0] if len(vals) == 1 else v
        nested_minmax = isinstance(v, ast.Call) and (dotted(v.func) or "").split(".")[-1] in ("minimum", "maximum") and v.args and isinstance(v.args[0], ast.Call) \
            and (dotted(v.args[0].func) or "").split(".")[-1] in ("minimum", "maximum") and (dotted(v.args[0].func) or "").split(".")[-1] != (dotted(v.func) or "").split(".")[-1] \
            and mentions(v, "xl") and mentions(v, "xu")
        if nested_minmax or isinstance(v, ast.Call) and (dotted(v.func) or "").split(".")[-1] == "clip" or (isinstance(v, ast.BinOp) and mentions(v, "xl") and mentions(v, "xu")):
            rep.ok("R1.5", f"{pinit.local}:{last.lineno} fixed values lie within [xl, xu]")
        else:
            rep.bad("R1.5", "fixed values")
            rep.finding("R1.5", pinit, norm(last)[:100], last.lineno, "the values of the fixed variables are not taken from (clipped to) their bounds")


# ---------------------------------------------------------------------------
def r16(ctx, rep):
    """Complementary threshold masks: for two comparisons of the same operands
    in Interpolation.__init__, `a >= T` must be paired with `a < T` (and
    `a <= T` with `T < a`): no gap and no overlap at equality."""
    f = ctx.func("cobyqa.models:Interpolation.__init__")
    comps = []
    for node in ast.walk(f.node):
        if isinstance(node, ast.Compare) and len(node.ops) == 1:
            op = cmp_op_str(node.ops[0])
            if op not in ("<", "<=", ">", ">="):
                continue
            l, r = norm(node.left), norm(node.comparators[0])
            # canonical orientation: smaller text first
            from ..astutil import FLIP
            if l > r:
                l, r, op = r, l, FLIP[op]
            comps.append((l, r, op, node))
    groups = {}
    for l, r, op, node in comps:
        groups.setdefault((l, r), []).append((op, node))
    n = 0
    for (l, r), items in groups.items():
        ops = {op for op, _ in items}
        if len(items) < 2:
            continue
        n += 1
        desc = f"{f.local}: comparisons of `{l}` with `{r}`: {sorted(ops)}"
        lower = ops & {"<", "<="}
        upper = ops & {">", ">="}
        if lower and upper:
            strict = {"<" in ops, ">" in ops}
            # complementary pairs: {<=, >} or {<, >=}
            if ops in ({"<=", ">"}, {"<", ">="}):
                rep.ok("R1.6", desc + " complementary")
            else:
                line = items[0][1].lineno
                rep.bad("R1.6", desc)
                rep.finding("R1.6", f, f"`{l}` vs `{r}`: {sorted(ops)}", line,
                            f"the two masks built from `{l}` and `{r}` use {sorted(ops)}: a component exactly on the threshold falls into "
                            f"{'neither' if ops == {'<', '>'} else 'both'} of them, so an initial interpolation point can be placed outside the bounds")
        else:
            rep.ok("R1.6", desc + " same orientation")
    if n < 2:
        raise AnalysisError(f"Interpolation.__init__: only {n} paired threshold comparisons found (floor 2)")
