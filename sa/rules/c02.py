"""C02 - the returned fun and maxcv are the true values at the returned x.

R2.1  raw before barrier: the values appended to the filter / history are the
      objective result, the maxcv of the raw constraint values and the
      evaluated point; no barrier rewrite is among their reaching definitions.
R2.2  the three filter lists are mutated in lock-step, only by their class.
R2.3  index-coherent result: best_eval returns (x_filter[i], fun_filter[i],
      maxcv_filter[i]) with one index; the result builder stores exactly that
      triple (x through build_x).
R2.4  supplied values are used: optional constraint values handed to the
      maxcv / violation / merit family are consumed on the path on which they
      are supplied.
R2.5  the violation is computed in the space of its operand (space typing).
R2.6  the violation aggregates all three kinds of constraints and maxcv is
      its maximum.
"""
from __future__ import annotations

import ast

from ..astutil import norm, dotted, const_value
from ..loader import AnalysisError
from ..valueflow import ValueFlow, arg_for
from .. import tables as T
from .. import spaces
from . import common
from .c07 import mentions

FILTER = ["_fun_filter", "_maxcv_filter", "_x_filter"]
PB_MAXCV = "cobyqa.problem:Problem.maxcv"
PB_VIOL = "cobyqa.problem:Problem.violation"


def run(ctx, rep):
    rep.rule("R2.1", "values stored in the filter/history are raw: fun <- objective wrapper result, maxcv <- Problem.maxcv(x, raw cub, raw ceq), x <- the evaluated point; no barrier rewrite reaches the stores")
    rep.rule("R2.2", "filter lists mutated in lock-step, only inside Problem")
    rep.rule("R2.3", "best_eval returns one index-coherent triple; _build_result stores result.x=build_x(x), result.fun=fun, result.maxcv=maxcv of that triple")
    rep.rule("R2.4", "optional constraint values (cub_val/ceq_val/fun_val) are consumed by the functions that accept them")
    rep.rule("R2.5", "reduced-space operations never receive a build_x result and the user-space bounds only build_x results")
    rep.rule("R2.6", "Problem.violation aggregates bound, linear and nonlinear violations; maxcv functions return a maximum")
    rep.rule("R2.7", "constraint wrappers bind function and arguments at creation (no late-bound loop variable): each constraint is evaluated as the user stated it")
    rep.rule("R2.8", "the point retained by the evaluation routine (filter/history) does not alias solver state that is later modified in place")
    pb = ctx.repo.cls("Problem")
    ops, nblocks = common.check_lockstep(ctx, rep, "R2.2", pb, FILTER, "filter")
    if nblocks < 3:
        raise AnalysisError("filter append / removal / eviction blocks not found (floor 3)")
    check_raw_values(ctx, rep, "R2.1", FILTER)
    r23(ctx, rep)
    r24(ctx, rep)
    n = spaces.check_reduced_operands(ctx, rep, "R2.5")
    if n < 8:
        raise AnalysisError(f"only {n} reduced-space operations found (floor 8)")
    r26(ctx, rep)
    common.check_closure_capture(ctx, rep, "R2.7")
    r28(ctx, rep)
    from . import c10
    c10.run(ctx, rep, r1="R2.9", only_transform=True)
    rep.rule("R2.11", "the stored objective value is a Python float, not a view of the user's output buffer (see C11 R11.6)")
    from . import c11
    from ..report import Renamed
    c11.r116(ctx, Renamed(rep, to="R2.11"), rule="R2.11")
    rep.rule("R2.10", "objective / constraint values reach the violation and merit computations through the right parameters (no swapped or duplicated value arguments)")
    if common.check_swapped_args(ctx, rep, "R2.10", lambda g: g.cls is not None and g.cls.name in ("Problem", "NonlinearConstraints", "LinearConstraints", "BoundConstraints", "TrustRegion")) < 10:
        raise AnalysisError("call sites of the violation / merit computations not found")


# ---------------------------------------------------------------------------
def check_raw_values(ctx, rep, rule, lists):
    E = ctx.func(T.EVAL)
    cfg = ctx.cfg(E)
    from .c08 import clamp_operand, nan_replacement, _is_barrier
    vf = ValueFlow(ctx, sources=(T.OBJ_CALL, T.NLC_CALL, PB_MAXCV), param_stop=(E.qual,), live=ctx.facts.live)
    rd = cfg.reaching_defs()
    n = 0
    for node in ast.walk(E.node):
        if not (isinstance(node, ast.Call) and isinstance(node.func, ast.Attribute) and node.func.attr == "append" and node.args):
            continue
        fld = common.field_of(node.func.value, E.self_name)
        if fld not in lists:
            continue
        n += 1
        arg = node.args[0]
        desc = f"{E.local}:{node.lineno} {fld}.append({norm(arg)})"
        nid = cfg.node_containing(node)
        # (1) no barrier rewrite among the reaching definitions
        tainted = None
        if isinstance(arg, ast.Name):
            for dn in rd.get(nid, {}).get(arg.id, ()):
                if dn == cfg.entry:
                    continue
                s = cfg.nodes[dn].ast
                if nan_replacement(s, E, ctx) == arg.id:
                    tainted = cfg.nodes[dn]
                if isinstance(s, ast.Assign):
                    if _is_barrier(s.value, E, ctx) != 0 or clamp_operand(s.value, E, ctx) is not None:
                        tainted = cfg.nodes[dn]
                    for sub in ast.walk(s.value):
                        if _is_barrier(sub, E, ctx) != 0:
                            tainted = cfg.nodes[dn]
        else:
            for sub in ast.walk(arg):
                if _is_barrier(sub, E, ctx) != 0:
                    tainted = cfg.nodes[nid]
        if tainted is not None:
            rep.bad(rule, desc)
            rep.finding(rule, E, norm(node), node.lineno,
                        f"the value stored in `{fld}` can be the barrier-rewritten one (definition at line {tainted.line}: `{tainted.text()[:60]}`); reported values must stay raw")
            continue
        # (2) identity of the value
        o = vf.origins(arg, E)
        kind = "fun" if "_fun_" in fld else ("maxcv" if "_maxcv_" in fld else "x")
        ok = False
        why = spaces.fmt(o)
        if kind == "fun":
            ok = bool(o) and all(x.kind == "src" and x.detail == T.OBJ_CALL and x.ops <= {"conv"} for x in o)
        elif kind == "maxcv":
            ok = bool(o) and all(x.kind == "src" and x.detail == PB_MAXCV and x.ops <= {"conv"} for x in o)
            if ok:
                ok, why = _maxcv_args_raw(ctx, E, vf, arg, cfg, rd, nid)
        else:
            ok = bool(o) and all(x.kind == "param" and x.detail == f"{E.local}.{E.params[1]}" and x.ops <= {"conv"} for x in o)
        if ok:
            rep.ok(rule, desc + f" <- {why}")
        else:
            rep.bad(rule, desc)
            want = {"fun": "the objective wrapper's result", "maxcv": "Problem.maxcv(x, raw cub, raw ceq)", "x": "the evaluated point"}[kind]
            rep.finding(rule, E, norm(node), node.lineno, f"the value stored in `{fld}` is not {want}: {why}")
    if n < len(lists):
        raise AnalysisError(f"only {n} append sites for {lists} in the evaluation routine")


def _maxcv_args_raw(ctx, E, vf, arg, cfg, rd, nid):
    """the maxcv value was computed from (x, raw cub, raw ceq)."""
    calls = []
    if isinstance(arg, ast.Name):
        for dn in rd.get(nid, {}).get(arg.id, ()):
            if dn == cfg.entry:
                continue
            s = cfg.nodes[dn].ast
            if isinstance(s, ast.Assign) and isinstance(s.value, ast.Call):
                calls.append(s.value)
    elif isinstance(arg, ast.Call):
        calls.append(arg)
    if not calls:
        return False, "maxcv call not found"
    g = ctx.func(PB_MAXCV)
    for c in calls:
        a_x = arg_for(c, g, g.params[1], "bound")
        a_cub = arg_for(c, g, "cub_val", "bound")
        a_ceq = arg_for(c, g, "ceq_val", "bound")
        if a_x is None or a_cub is None or a_ceq is None or "unknown" in (a_x, a_cub, a_ceq):
            return False, f"`{norm(c)}` does not pass the point and both constraint value arrays"
        ox = vf.origins(a_x, E, at=c)
        if not (ox and all(x.kind == "param" and x.ops <= {"conv"} for x in ox)):
            return False, f"the point passed to maxcv is not the evaluated point ({spaces.fmt(ox)})"
        for a in (a_cub, a_ceq):
            oc = vf.origins(a, E, at=c)
            if not (oc and all(x.kind == "src" and x.detail == T.NLC_CALL and x.ops <= {"elem", "conv"} for x in oc)):
                return False, f"`{norm(a)}` passed to maxcv is not the raw result of the constraint wrapper ({spaces.fmt(oc)})"
        # raw: no barrier rewrite of cub/ceq reaches the call
        from .c08 import nan_replacement, clamp_operand
        cn = cfg.node_containing(c)
        for a in (a_cub, a_ceq):
            if isinstance(a, ast.Name):
                for dn in rd.get(cn, {}).get(a.id, ()):
                    if dn == cfg.entry:
                        continue
                    s = cfg.nodes[dn].ast
                    if nan_replacement(s, E, ctx) == a.id or (isinstance(s, ast.Assign) and clamp_operand(s.value, E, ctx) is not None):
                        return False, f"`{a.id}` is barrier-rewritten (line {cfg.nodes[dn].line}) before the violation is computed"
    return True, "Problem.maxcv(x, raw cub, raw ceq)"


# ---------------------------------------------------------------------------
def r23(ctx, rep):
    be = ctx.func(T.BEST_EVAL)
    cfg = ctx.cfg(be)
    rd = cfg.reaching_defs()
    rets = [n for n in cfg.nodes if n.kind == "stmt" and isinstance(n.ast, ast.Return)]
    if not rets:
        raise AnalysisError("best_eval has no return")

    def backing(e, nid):
        """Subscript expr -> (field, index name)"""
        while isinstance(e, ast.Call):
            # project(...) / np.copy(...) wrappers
            if not e.args:
                return None
            e = e.args[0]
        if not isinstance(e, ast.Subscript):
            return None
        idx = e.slice
        if isinstance(idx, ast.Tuple):
            idx = idx.elts[0]
        base = e.value
        fld = None
        if isinstance(base, ast.Name):
            flds = set()
            for dn in rd.get(nid, {}).get(base.id, ()):
                if dn == cfg.entry:
                    continue
                s = cfg.nodes[dn].ast
                if isinstance(s, ast.Assign):
                    for sub in ast.walk(s.value):
                        f2 = common.field_of(sub, be.self_name) if isinstance(sub, ast.Attribute) else None
                        if f2 in FILTER:
                            flds.add(f2)
            if len(flds) == 1:
                fld = flds.pop()
        else:
            f2 = common.field_of(base, be.self_name)
            if f2 in FILTER:
                fld = f2
        return fld, norm(idx)

    for n in rets:
        v = n.ast.value
        desc = f"best_eval:{n.line} return"
        if not (isinstance(v, ast.Tuple) and len(v.elts) == 3):
            rep.bad("R2.3", desc)
            rep.finding("R2.3", be, norm(v)[:100], n.line, "best_eval does not return a (x, fun, maxcv) triple")
            continue
        parts = [backing(e, n.id) for e in v.elts]
        want = ["_x_filter", "_fun_filter", "_maxcv_filter"]
        if any(p is None or p[0] is None for p in parts):
            rep.bad("R2.3", desc)
            rep.finding("R2.3", be, norm(v)[:120], n.line, "the returned triple is not read from the three filter lists")
            continue
        flds = [p[0] for p in parts]
        idxs = {p[1] for p in parts}
        if flds != want:
            rep.bad("R2.3", desc)
            rep.finding("R2.3", be, norm(v)[:120], n.line, f"the returned triple reads {flds}, expected {want} in this order")
        elif len(idxs) != 1:
            rep.bad("R2.3", desc)
            rep.finding("R2.3", be, norm(v)[:120], n.line, f"the three components are taken at different indices {sorted(idxs)}: fun/maxcv would not belong to the returned x")
        else:
            rep.ok("R2.3", desc + f" = (x_filter[{idxs.copy().pop()}], fun_filter[..], maxcv_filter[..]) with one index")
    # the result builder
    br = ctx.func(T.BUILD_RESULT)
    bcfg = ctx.cfg(br)
    brd = bcfg.reaching_defs()
    unpack = None
    for node in ast.walk(br.node):
        if isinstance(node, ast.Assign) and isinstance(node.value, ast.Call) and any(t.kind == "repo" and t.name == be.qual for t in ctx.res.call_targets(node.value, br)):
            unpack = node
    if unpack is None or not isinstance(unpack.targets[0], (ast.Tuple, ast.List)) or len(unpack.targets[0].elts) != 3:
        raise AnalysisError("_build_result: triple unpack of best_eval not found")
    names = [el.id if isinstance(el, ast.Name) else None for el in unpack.targets[0].elts]
    un = bcfg.node_of(unpack)
    for fld, idx in (("x", 0), ("fun", 1), ("maxcv", 2)):
        stores = [n for n in bcfg.nodes if n.kind == "stmt" and isinstance(n.ast, ast.Assign)
                  and any(isinstance(t, ast.Attribute) and t.attr == fld and isinstance(t.value, ast.Name) for t in n.ast.targets)]
        if not stores:
            rep.bad("R2.3", f"result.{fld}")
            rep.finding("R2.3", br, f"result.{fld}", br.node.lineno, f"the result has no field {fld}")
            continue
        for n in stores:
            v = n.ast.value
            desc = f"_build_result:{n.line} result.{fld} = {norm(v)}"
            good = False
            if fld == "x":
                if isinstance(v, ast.Call) and any(t.kind == "repo" and t.name == T.BUILD_X for t in ctx.res.call_targets(v, br)) and v.args and isinstance(v.args[0], ast.Name) and v.args[0].id == names[0]:
                    good = brd.get(n.id, {}).get(names[0]) == frozenset({un})
            else:
                if isinstance(v, ast.Name) and v.id == names[idx]:
                    good = brd.get(n.id, {}).get(names[idx]) == frozenset({un})
                elif isinstance(v, ast.Call) and dotted(v.func) in ("float",) and v.args and isinstance(v.args[0], ast.Name) and v.args[0].id == names[idx]:
                    good = brd.get(n.id, {}).get(names[idx]) == frozenset({un})
            if good:
                rep.ok("R2.3", desc)
            else:
                rep.bad("R2.3", desc)
                rep.finding("R2.3", br, norm(n.ast), n.line, f"result.{fld} is not the `{('x', 'fun', 'maxcv')[idx]}` component of the selected triple" + (" mapped through build_x" if fld == "x" else ""))


# ---------------------------------------------------------------------------
VALUE_PARAMS = ("cub_val", "ceq_val", "fun_val")


def r24(ctx, rep):
    """Optional value parameters must be consumed."""
    consumed = {}
    cands = []
    for f in ctx.repo.funcs.values():
        for p in f.params:
            if p in VALUE_PARAMS and p in f.defaults and isinstance(f.defaults[p], ast.Constant) and f.defaults[p].value is None:
                cands.append((f, p))
    if len(cands) < 8:
        raise AnalysisError(f"only {len(cands)} optional value parameters found (floor 8)")

    def uses(f, p):
        out = []
        for node in ast.walk(f.node):
            if isinstance(node, ast.Name) and node.id == p and isinstance(node.ctx, ast.Load):
                par = getattr(node, "_parent", None)
                if isinstance(par, ast.Compare) and any(isinstance(c, ast.Constant) and c.value is None for c in par.comparators):
                    continue
                out.append(node)
        return out

    changed = True
    state = {(f.qual, p): False for f, p in cands}
    rounds = 0
    while changed and rounds < 10:
        rounds += 1
        changed = False
        for f, p in cands:
            if state[(f.qual, p)]:
                continue
            for u in uses(f, p):
                par = getattr(u, "_parent", None)
                passed = None
                call = par if isinstance(par, ast.Call) else (getattr(par, "_parent", None) if isinstance(par, ast.keyword) else None)
                if isinstance(call, ast.Call):
                    for t in ctx.res.call_targets(call, f):
                        if t.kind == "repo":
                            g = t.func
                            for q in g.params:
                                a = arg_for(call, g, q, t.detail)
                                if a is u:
                                    passed = (g.qual, q)
                if passed is not None and passed in state:
                    if state[passed]:
                        state[(f.qual, p)] = True
                        changed = True
                        break
                    continue
                # any other use consumes the value
                state[(f.qual, p)] = True
                changed = True
                break
    for f, p in cands:
        desc = f"{f.local}({p}=None)"
        if state[(f.qual, p)]:
            rep.ok("R2.4", desc + " is consumed")
        else:
            rep.bad("R2.4", desc)
            rep.finding("R2.4", f, f"parameter {p}", f.node.lineno,
                        f"the optional `{p}` is accepted (documented: used instead of re-evaluating) but never consumed: the function ignores the supplied values")


# ---------------------------------------------------------------------------
def r26(ctx, rep):
    viol = ctx.func(PB_VIOL)
    srcs = ("cobyqa.problem:BoundConstraints.violation", "cobyqa.problem:LinearConstraints.violation", "cobyqa.problem:NonlinearConstraints.violation")
    for s in srcs:
        ctx.func(s)
    vf = ValueFlow(ctx, sources=srcs, param_stop=(viol.qual,), live=ctx.facts.live)
    got = set()
    for r in vf.returns(viol):
        for o in vf.origins(r, viol):
            if o.kind == "src":
                got.add(o.detail)
    for s in srcs:
        if s in got:
            rep.ok("R2.6", f"Problem.violation includes {s.split(':')[1]}")
        else:
            rep.bad("R2.6", f"Problem.violation lacks {s}")
            rep.finding("R2.6", viol, f"missing {s.split(':')[1]}", viol.node.lineno, f"the aggregated violation no longer contains {s.split(':')[1]}: maxcv would ignore that kind of constraint")
    # maxcv functions return a maximum (or 0.0 / a delegated violation)
    n = 0
    for c in ("Problem", "LinearConstraints", "NonlinearConstraints"):
        g = ctx.repo.cls(c).methods.get("maxcv")
        if g is None:
            raise AnalysisError(f"{c}.maxcv not found")
        rets_ = []
        for r in vf.returns(g):
            # `return A if c else B` is the same as two returns
            rets_ += [r.body, r.orelse] if isinstance(r, ast.IfExp) else [r]
        for r in rets_:
            n += 1
            desc = f"{g.local}:{getattr(r, 'lineno', 0)} return {norm(r)[:60]}"
            ok = False
            if isinstance(r, ast.Call):
                d = dotted(r.func) or ""
                short = d.split(".")[-1]
                if short in ("max", "amax", "nanmax") and r.args and _from_violation(ctx, g, r.args[0]):
                    ok = True
                    for kw in r.keywords:
                        if kw.arg == "initial" and const_value(kw.value) not in (0, 0.0):
                            ok = False
            if isinstance(r, ast.Constant) and r.value in (0, 0.0):
                ok = True
            if ok:
                rep.ok("R2.6", desc)
            else:
                rep.bad("R2.6", desc)
                rep.finding("R2.6", g, norm(r)[:100], r.lineno, "maxcv does not return the maximum of the violation vector (or 0.0)")
    if n < 3:
        raise AnalysisError("maxcv return statements not found")
    # NaN constraint values must stay visible in the violation (reported raw)
    NAN_DROP = {"fmax", "fmin", "nanmax", "nanmin", "nan_to_num", "nansum", "nanmean"}
    for c in ("Problem", "LinearConstraints", "NonlinearConstraints", "BoundConstraints"):
        for name in ("maxcv", "violation"):
            g = ctx.repo.cls(c).methods.get(name)
            if g is None:
                continue
            hit = None
            for node in ast.walk(g.node):
                if isinstance(node, ast.Call) and (dotted(node.func) or "").split(".")[-1] in NAN_DROP:
                    hit = node
            if hit is not None:
                rep.bad("R2.6", f"{g.local} NaN handling")
                rep.finding("R2.6", g, norm(hit)[:100], hit.lineno, f"`{norm(hit.func)}` discards NaN: an undefined constraint value would count as zero violation and the point would be reported feasible (values must be reported raw)")
            else:
                rep.ok("R2.6", f"{g.local}: NaN constraint values propagate to the violation")
    nv = ctx.func("cobyqa.problem:NonlinearConstraints.violation")
    forms = {"ub": False, "eq": False}
    for node in ast.walk(nv.node):
        if isinstance(node, ast.Call):
            sh = (dotted(node.func) or "").split(".")[-1]
            if sh == "maximum" and len(node.args) == 2 and mentions(node.args[0], "cub_val") and const_value(node.args[1]) in (0, 0.0):
                forms["ub"] = True
            if sh in ("abs", "absolute") and node.args and mentions(node.args[0], "ceq_val"):
                forms["eq"] = True
    if all(forms.values()):
        rep.ok("R2.6", f"{nv.local}: violation = (max(cub, 0), |ceq|)")
    else:
        rep.bad("R2.6", f"{nv.local} form")
        rep.finding("R2.6", nv, "violation formula", nv.node.lineno, "the nonlinear violation is not (maximum(cub_val, 0), abs(ceq_val)) of the supplied values")


def _from_violation(ctx, g, e):
    if isinstance(e, ast.Call):
        return any(t.kind == "repo" and t.func.name == "violation" for t in ctx.res.call_targets(e, g))
    if isinstance(e, ast.Name):
        for node in ast.walk(g.node):
            if isinstance(node, ast.Assign) and any(isinstance(t, ast.Name) and t.id == e.id for t in node.targets):
                if not _from_violation(ctx, g, node.value):
                    return False
        return True
    return False


# ---------------------------------------------------------------------------
def resolve_fields(ctx, f, e, depth=0):
    """(Class, field) pairs an expression may denote (through trivial getters)."""
    out = set()
    if depth > 6:
        return out
    while isinstance(e, ast.Subscript):
        e = e.value
    if not isinstance(e, ast.Attribute):
        return out
    for a in ctx.type_of(e.value, f):
        if a[0] != "inst":
            continue
        c = ctx.repo.classes.get(a[1])
        if c is None:
            continue
        if e.attr in c.getters:
            g = c.getters[e.attr]
            for node in ast.walk(g.node):
                if isinstance(node, ast.Return) and node.value is not None:
                    out |= resolve_fields(ctx, g, node.value, depth + 1)
        else:
            out.add((a[1], e.attr))
    return out


def fields_written_in_place(ctx):
    from ..ownership import Ownership
    own = Ownership.__new__(Ownership)
    own.ctx = ctx
    out = {}
    for f in ctx.repo.funcs.values():
        for kind, base, node in Ownership.write_sites(own, f):
            if kind in ("setattr",):
                continue
            if kind == "augassign" and isinstance(base, ast.Name):
                continue
            for fld in resolve_fields(ctx, f, base):
                out.setdefault(fld, []).append((f, node))
    return out


def r28(ctx, rep, rule="R2.8"):
    from ..alias import Alias
    E = ctx.func(T.EVAL)
    live = ctx.facts.live
    reach = common.reachable_funcs(ctx, live=live)
    mutable = fields_written_in_place(ctx)
    # does the routine copy its argument before retaining it?
    al_e = Alias(ctx, E)
    retained_alias = False
    for node in ast.walk(E.node):
        if isinstance(node, ast.Call) and isinstance(node.func, ast.Attribute) and node.func.attr == "append" and node.args:
            fld = common.field_of(node.func.value, E.self_name)
            if fld in ("_x_filter", "_x_history"):
                if al_e.roots(node.args[0], node.args[0]):
                    retained_alias = True
    if not retained_alias:
        rep.ok(rule, "the evaluation routine stores a private copy of the point")
        return
    for ev in ctx.calls_to(E.qual):
        if live.is_dead(ev) or ev.func.qual not in reach or not ev.node.args:
            continue
        f = ev.func
        a = ev.node.args[0]
        al = Alias(ctx, f)
        roots = al.roots(a, a)
        desc = f"{f.local}:{ev.line} point `{norm(a)}` retained by the evaluation routine"
        bad = []
        for r in roots:
            if r.startswith("?"):
                continue
            # resolve the root text back to fields: parse it as an expression
            try:
                expr = ast.parse(r.replace("[*]", ""), mode="eval").body
            except SyntaxError:
                continue
            for node in ast.walk(expr):
                node._parent = None
            flds = resolve_fields(ctx, f, expr)
            for fld in flds:
                if fld in mutable:
                    w = mutable[fld][0]
                    bad.append(f"{fld[0]}.{fld[1]} (modified in place at {w[0].local}:{w[1].lineno})")
        if bad:
            rep.bad(rule, desc)
            rep.finding(rule, f, ev.text(), ev.line,
                        f"the evaluated point handed to the evaluation routine aliases {bad[0]}; the routine keeps it in the filter, so the stored x changes afterwards and no longer belongs to its fun/maxcv")
        else:
            rep.ok(rule, desc + (" is a fresh array" if not roots else f" aliases only {sorted(roots)[:2]} which is never modified in place"))
