"""C03 - the returned point is the best point evaluated, feasible first.

R3.1  exhaustive decision table of the filter update: the update fragment of
      the evaluation routine is interpreted by the checker's own evaluator
      (sa/minieval.py, IEEE semantics) over every abstract state of (new point
      p, retained points q): each coordinate NaN / defined and, when both are
      defined, <, =, >.  36 one-entry states and 36x36 two-entry states.
      Obligations: p is admitted  <=>  no retained q dominates it (reference
      order D below); when admitted, q is removed  <=>  p dominates q; the
      three lists stay in lock-step; eviction is FIFO beyond filter_size.
R3.2  selection idioms in best_eval: min-masks use <=, most recent index
      ([-1]), feasibility test is `<= feasibility_tol`, merit branch only
      when no point is feasible, merit = fun + penalty * maxcv, tie-breaks in
      the documented order.
R3.3  eviction: pop(0) on all three lists under len > filter_size.
R3.4  the penalty in force is forwarded to the selection (result builder and
      every evaluation).
"""
from __future__ import annotations

import ast
import itertools
import math

from ..astutil import norm, dotted, const_value, cmp_op_str
from ..loader import AnalysisError
from .. import tables as T
from .. import minieval
from . import common
from .c07 import mentions, enclosing_context, _cmp_parts, _arg

NAN = math.nan
FILTER = ["_fun_filter", "_maxcv_filter", "_x_filter"]


# reference order (property statement + code comments): does q dominate p?
def isnan(v):
    return v != v


def dominates(q, p):
    qf, qc = q
    pf, pc = p
    qn = (isnan(qf), isnan(qc))
    pn = (isnan(pf), isnan(pc))
    if pn == (True, True):
        return True                       # (NaN, NaN) is dominated by everything
    if qn == (True, True):
        return False                      # ... and dominates nothing else
    if qn == (False, False):
        if pn == (False, False):
            return qf <= pf and qc <= pc  # Pareto order on defined pairs
        return True                       # a fully defined point dominates any point carrying a NaN
    if pn == (False, False):
        return False                      # ... and is never dominated by one
    # both carry exactly one NaN
    if qn != pn:
        return False                      # NaN in different coordinates: incomparable
    if qn[0]:
        return qc <= pc                   # both objective NaN: compare violations
    return qf <= pf                       # both violation NaN: compare objectives


PAIR_STATES = [(NAN, NAN), (NAN, 1.0), (1.0, NAN), (1.0, 0.0), (1.0, 1.0), (1.0, 2.0)]  # (p, q) per coordinate


def states():
    for (pf, qf) in PAIR_STATES:
        for (pc, qc) in PAIR_STATES:
            yield (pf, pc), (qf, qc)


def fmt_pt(p):
    return "(" + ", ".join("NaN" if isnan(v) else f"{v:g}" for v in p) + ")"


def run(ctx, rep):
    rep.rule("R3.1", "36 + 1296 state decision table of the filter update fragment vs. the dominance order D: admitted <=> not dominated by a retained point; removed <=> dominated by the newcomer; lock-step; FIFO eviction")
    rep.rule("R3.2", "selection idioms of best_eval (min masks with <=, most recent index, feasibility <= tol, feasible-first, merit = fun + penalty*maxcv, tie-break order)")
    rep.rule("R3.3", "eviction is pop(0) x3 under len(filter) > filter_size")
    rep.rule("R3.4", "the penalty in force is forwarded to the result builder and to every evaluation")
    r31(ctx, rep)
    r32(ctx, rep)
    check_nan_reductions(ctx, rep, "R3.2")
    r33(ctx, rep)
    r34(ctx, rep)
    rep.rule("R3.5", "the point kept in a filter entry stays the evaluated point (it does not alias solver state that is modified in place)")
    from .c02 import r28
    r28(ctx, rep, rule="R3.5")
    rep.rule("R3.7", "the values the filter compares are the true ones: raw (not barrier-rewritten) objective values, violation aggregated with NaN-propagating maxima (see C02 R2.1, R2.6)")
    from ..report import Renamed
    from . import c02
    c02.check_raw_values(ctx, Renamed(rep, to="R3.7"), "R3.7", c02.FILTER)
    c02.r26(ctx, Renamed(rep, to="R3.7"))
    rep.rule("R3.8", "feasibility is judged on the user's constraints: the reduced / scaled linear system is the user's system in the solver's variables (see C10 R10.1)")
    from . import c10
    c10.run(ctx, Renamed(rep, to="R3.8"), r1="R3.8", only_transform=True)
    rep.rule("R3.6", "the settings of the filter/history/callback reach Problem through the right parameters (no swapped arguments)")
    k = common.check_swapped_args(ctx, rep, "R3.6", lambda g: g.cls is not None and g.cls.name == "Problem" or g.name == "_build_result")
    from . import c19
    c19.r199(ctx, rep, ctx.func(T.MINIMIZE), c19.enum_tables(ctx), rule="R3.6")
    if k < 5:
        raise AnalysisError("call sites of Problem methods not found")


# ---------------------------------------------------------------------------
def filter_fragment(ctx):
    _USER["ctx"] = ctx
    E = ctx.func(T.EVAL)
    body = E.body()

    def mutates(node):
        for sub in ast.walk(node):
            if isinstance(sub, ast.Call) and isinstance(sub.func, ast.Attribute) and sub.func.attr in ("append", "pop", "insert", "clear", "remove", "extend") and mentions(sub.func.value, *FILTER):
                return True
            if isinstance(sub, (ast.Assign, ast.AugAssign, ast.Delete)):
                tg = sub.targets if not isinstance(sub, ast.AugAssign) else [sub.target]
                if any(mentions(t, *FILTER) for t in tg):
                    return True
        return False

    def touches(s):
        if mentions(s, *FILTER):
            return True
        # a call of a helper of the same class that changes the filter lists
        for sub in ast.walk(s):
            if isinstance(sub, ast.Call):
                h = _helper_of(ctx, E, sub)
                if h is not None and mutates(h.node):
                    return True
        return False
    idx = [i for i, s in enumerate(body) if touches(s)]
    if not idx:
        raise AnalysisError("no statement of the evaluation routine touches the filter lists")
    # the statements that touch the filter, in order (statements in between that do not
    # touch it - e.g. the callback block - are not part of the update)
    core = [body[i] for i in idx]
    # backward slice: earlier top-level statements that define the decision
    # variables read by the core (not the new point's own values)
    point = set()
    for s in core:
        for node in ast.walk(s):
            if isinstance(node, ast.Call) and isinstance(node.func, ast.Attribute) and node.func.attr == "append" and node.args and isinstance(node.args[0], ast.Name) and mentions(node.func.value, *FILTER):
                point.add(node.args[0].id)
    need = set()
    for s in core:
        for x in ast.walk(s):
            if isinstance(x, ast.Name) and isinstance(x.ctx, ast.Load):
                need.add(x.id)
    need -= point
    pre = []
    for s in reversed(body[: idx[0]]):
        if isinstance(s, ast.Assign) and all(isinstance(t, ast.Name) for t in s.targets) and any(t.id in need for t in s.targets):
            # only decisions derived from the filter state are part of the fragment
            uses_filter = mentions(s, *FILTER) or any(isinstance(c, ast.Call) and (lambda h: h is not None and mentions(h.node, *FILTER))(_helper_of(ctx, E, c)) for c in ast.walk(s))
            if uses_filter:
                pre.insert(0, s)
                for x in ast.walk(s.value):
                    if isinstance(x, ast.Name):
                        need.add(x.id)
                need -= point
    return E, pre + core


def _helper_of(ctx, E, call):
    fn = call.func
    if isinstance(fn, ast.Attribute) and isinstance(fn.value, ast.Name) and fn.value.id == E.self_name and E.cls is not None:
        h = E.cls.methods.get(fn.attr)
        if h is not None and h.kind == "function":
            return h
    return None


_USER = {}


def simulate(frag, E, p, retained, filter_size, names):
    sn = E.self_name
    fun_name, maxcv_name, x_name = names
    lists = {
        f"{sn}._fun_filter": [q[0] for q in retained],
        f"{sn}._maxcv_filter": [q[1] for q in retained],
        f"{sn}._x_filter": [f"q{i}" for i in range(len(retained))],
    }
    attrs = dict(lists)
    attrs[f"{sn}._filter_size"] = filter_size
    def user(call):
        h = _USER.get("ctx") and _helper_of(_USER["ctx"], E, call)
        if h:
            return h.node, h.self_name
        return None
    env = minieval.Env({fun_name: p[0], maxcv_name: p[1], x_name: "p"}, attrs, user=user)

    def on_call(call, env):
        fn = call.func
        if isinstance(fn, ast.Attribute) and norm(fn.value) in lists:
            lst = env.attrs[norm(fn.value)]
            args = [minieval.ev(a, env) for a in call.args]
            if fn.attr == "append":
                lst.append(args[0])
                return
            if fn.attr == "pop":
                lst.pop(*args)
                return
            if fn.attr == "insert":
                lst.insert(*args)
                return
            if fn.attr == "clear":
                lst.clear()
                return
        raise minieval.Unsupported(f"call statement {norm(call)[:50]}")

    env.on_call = on_call
    minieval.run_block(frag, env, on_call)
    return [env.attrs[f"{sn}.{k}"] for k in FILTER]


def fragment_names(ctx, E, frag):
    """names of the new point's (fun, maxcv, x) variables = arguments of the
    three appends."""
    names = {}
    for s in frag:
        for node in ast.walk(s):
            if isinstance(node, ast.Call) and isinstance(node.func, ast.Attribute) and node.func.attr == "append" and node.args:
                fld = common.field_of(node.func.value, E.self_name)
                if fld in FILTER and isinstance(node.args[0], ast.Name):
                    names[fld] = node.args[0].id
    if set(names) != set(FILTER):
        raise AnalysisError("appends to the three filter lists with plain variables not found")
    return names["_fun_filter"], names["_maxcv_filter"], names["_x_filter"]


def r31(ctx, rep):
    _USER["ctx"] = ctx
    E, frag = filter_fragment(ctx)
    names = fragment_names(ctx, E, frag)
    big = 10 ** 9
    failures = []
    n = 0

    def check(p, retained, size=big):
        nonlocal n
        n += 1
        try:
            F, C, X = simulate(frag, E, p, retained, size, names)
        except minieval.Unsupported as exc:
            raise AnalysisError(f"filter update fragment uses a construct outside the evaluator's subset: {exc}")
        except RecursionError:
            raise AnalysisError("filter update fragment does not terminate in the evaluator")
        except (TypeError, IndexError, ValueError, ZeroDivisionError, KeyError, AttributeError) as exc:
            raise AnalysisError(f"filter update fragment cannot be evaluated on an abstract state: {type(exc).__name__}: {exc}")
        probs = []
        if not (len(F) == len(C) == len(X)):
            probs.append(f"lists out of step: lengths {len(F)}, {len(C)}, {len(X)}")
            return probs
        for i, xi in enumerate(X):
            if xi == "p":
                ok = (F[i] == p[0] or (isnan(F[i]) and isnan(p[0]))) and (C[i] == p[1] or (isnan(C[i]) and isnan(p[1])))
            else:
                k = int(xi[1:])
                ok = (F[i] == retained[k][0] or (isnan(F[i]) and isnan(retained[k][0]))) and (C[i] == retained[k][1] or (isnan(C[i]) and isnan(retained[k][1])))
            if not ok:
                probs.append(f"entry {xi} is paired with values ({F[i]}, {C[i]}) of another point")
        admitted = "p" in X
        want_admit = not any(dominates(q, p) for q in retained)
        if admitted != want_admit:
            doms = [fmt_pt(q) for q in retained if dominates(q, p)]
            probs.append(f"new point {fmt_pt(p)} {'admitted' if admitted else 'rejected'} although "
                         + (f"it is dominated by retained {doms}" if doms else "no retained point dominates it"))
        if admitted and want_admit and size >= len(retained) + 1:
            for k, q in enumerate(retained):
                removed = f"q{k}" not in X
                want = dominates(p, q)
                if removed != want:
                    probs.append(f"retained {fmt_pt(q)} {'removed' if removed else 'kept'} although the newcomer {fmt_pt(p)} "
                                 f"{'does not dominate' if not want else 'dominates'} it")
            if X and X[-1] != "p":
                probs.append("the newcomer is not the most recent entry")
            order = [x for x in X if x != "p"]
            if order != sorted(order, key=lambda s: int(s[1:])):
                probs.append("insertion order of the retained entries is not preserved")
        return probs

    # one retained entry: 36 states
    for p, q in states():
        pr = check(p, [q])
        if pr:
            failures.append((p, [q], pr))
    # empty filter: the first point always enters
    for p in [(NAN, NAN), (NAN, 1.0), (1.0, NAN), (1.0, 1.0)]:
        pr = check(p, [])
        if pr:
            failures.append((p, [], pr))
    n1 = n
    implied = 0
    # two retained entries: 36 x 36 states (relations of p with each of them)
    for (p, q1) in states():
        for (p2, q2) in states():
            if not same(p, p2):
                continue
            pr = check(p, [q1, q2])
            if pr:
                # already explained by a failing one-entry state?
                if any(same(f[0], p) and len(f[1]) == 1 and (same(f[1][0], q1) or same(f[1][0], q2)) for f in failures):
                    implied += 1
                    continue
                failures.append((p, [q1, q2], pr))
    rep.extra["decision_table_states"] = n
    rep.extra["exhaustive"] = True
    # eviction scenarios (FIFO)
    ev_fail = []
    q, p = (0.0, 1.0), (1.0, 0.0)  # mutually non-dominated
    for size, want in ((1, ["p"]), (2, ["q0", "p"]), (3, ["q0", "p"])):
        F, C, X = simulate(frag, E, p, [q], size, names)
        n += 1
        if X != want:
            ev_fail.append(f"filter_size={size}: entries after inserting a non-dominated point into [q0] are {X}, expected {want}")
    q0, q1, p = (0.0, 2.0), (1.0, 1.0), (2.0, 0.0)
    F, C, X = simulate(frag, E, p, [q0, q1], 2, names)
    n += 1
    if X != ["q1", "p"]:
        ev_fail.append(f"filter_size=2: entries after inserting into [q0, q1] are {X}, expected ['q1', 'p'] (oldest evicted)")
    if not (len(F) == len(C) == len(X)):
        ev_fail.append("lists out of step after eviction")
    # bounded filter, exhaustively: with two retained entries and filter_size = 2 the
    # result must be (dominated entries removed, newcomer appended, THEN the oldest
    # evicted while more than filter_size remain) - the eviction never decides
    # which dominated entries go
    n_b = 0
    for (p_, q1) in states():
        for (p2, q2) in states():
            if not same(p_, p2):
                continue
            if dominates(q1, q2) or dominates(q2, q1):
                continue        # not a reachable filter content
            n += 1
            n_b += 1
            try:
                F, C, X = simulate(frag, E, p_, [q1, q2], 2, names)
            except Exception:
                continue        # reported by the unbounded table above
            if any(dominates(q, p_) for q in (q1, q2)):
                want = ["q0", "q1"]
            else:
                want = [f"q{k}" for k, q in enumerate((q1, q2)) if not dominates(p_, q)] + ["p"]
                while len(want) > 2:
                    want.pop(0)
            if X != want and not ev_fail:
                ev_fail.append(f"filter_size=2, retained [{fmt_pt(q1)}, {fmt_pt(q2)}], new point {fmt_pt(p_)}: entries afterwards are {X}, expected {want} "
                               "(dominated entries are removed first, only then is the oldest entry evicted)")
    rep.extra["bounded_filter_states"] = n_b

    # group failures by message kind for the report (keyed by the first
    # failing abstract state, stable under formatting changes)
    if failures:
        seen = set()
        for p, ret, probs in failures:
            for msg in probs:
                kind = _classify(p, ret, msg)
                if kind in seen:
                    continue
                seen.add(kind)
                rep.finding("R3.1", E, kind, frag[0].lineno,
                            f"decision table violated, e.g. new point {fmt_pt(p)} against retained {[fmt_pt(q) for q in ret]}: {msg} "
                            f"({sum(1 for f in failures if any(_classify(f[0], f[1], m) == kind for m in f[2]))} failing state(s) of this kind)")
    for i in range(n1):
        pass
    nf = len(failures) + implied
    rep.obl.add("R3.1", f"{n} abstract states of the filter update fragment (lines {frag[0].lineno}-{frag[-1].end_lineno}) evaluated; {nf} failing", nf == 0 and not ev_fail)
    for (p, q) in list(states())[:6]:
        rep.obl.add("R3.1", f"state p={fmt_pt(p)} q={fmt_pt(q)}: D(q,p)={dominates(q, p)} D(p,q)={dominates(p, q)}", not any(f[0] == p and f[1] == [q] for f in failures))
    for msg in ev_fail:
        rep.finding("R3.1", E, "eviction: " + msg.split(":")[0], frag[0].lineno, "eviction is not FIFO beyond filter_size: " + msg)
    rep.extra["failing_states"] = nf


def same(a, b):
    return all((x == y) or (isnan(x) and isnan(y)) for x, y in zip(a, b))


def _classify(p, ret, msg):
    def cls(pt):
        return ("N" if isnan(pt[0]) else "d") + ("N" if isnan(pt[1]) else "d")
    verb = msg.split(" although")[0].split(" ")
    what = "lists" if "step" in msg or "paired" in msg else ("order" if "order" in msg or "most recent" in msg else [w for w in verb if w in ("admitted", "rejected", "removed", "kept")][0])
    return f"{what}: new {cls(p)} vs retained {'+'.join(sorted(set(cls(q) for q in ret)))}"


# ---------------------------------------------------------------------------
MIN_RED = {"min", "nanmin", "amin"}
MAX_RED = {"max", "nanmax", "amax"}


def _roles(be):
    """local arrays of best_eval -> 'fun' | 'maxcv' | 'x' by the filter list they are built from"""
    roles = {}
    for node in ast.walk(be.node):
        if isinstance(node, ast.Assign) and len(node.targets) == 1 and isinstance(node.targets[0], ast.Name):
            for fld, r in (("_fun_filter", "fun"), ("_maxcv_filter", "maxcv"), ("_x_filter", "x")):
                if mentions(node.value, fld) and not any(mentions(node.value, o) for o in ("_fun_filter", "_maxcv_filter", "_x_filter") if o != fld):
                    roles.setdefault(node.targets[0].id, r)
    return roles


def _mr(e, role, roles):
    fld = {"fun": "_fun_filter", "maxcv": "_maxcv_filter", "x": "_x_filter"}[role]
    for sub in ast.walk(e):
        if isinstance(sub, ast.Name) and roles.get(sub.id) == role:
            return True
        if isinstance(sub, ast.Attribute) and sub.attr == fld:
            return True
    return False


def r32(ctx, rep):
    be = ctx.func(T.BEST_EVAL)
    roles = _roles(be)
    if set(roles.values()) != {"fun", "maxcv", "x"}:
        raise AnalysisError(f"best_eval: local arrays built from the three filter lists not found ({roles})")
    n_masks = 0
    for node in ast.walk(be.node):
        if isinstance(node, ast.Compare) and len(node.ops) == 1 and isinstance(node.comparators[0], ast.Call):
            red = (dotted(node.comparators[0].func) or "").split(".")[-1]
            if red in MIN_RED | MAX_RED and isinstance(node.left, ast.Name):
                arg = node.comparators[0].args[0] if node.comparators[0].args else None
                base = arg
                while isinstance(base, ast.Subscript):
                    base = base.value
                if not (isinstance(base, ast.Name) and base.id == node.left.id):
                    continue
                n_masks += 1
                op = cmp_op_str(node.ops[0])
                want = "<=" if red in MIN_RED else ">="
                desc = f"best_eval:{node.lineno} `{norm(node)[:70]}`"
                if op == want:
                    rep.ok("R3.2", desc + " selects the extremum (ties included)")
                else:
                    rep.bad("R3.2", desc)
                    rep.finding("R3.2", be, norm(node), node.lineno,
                                f"a selection mask compares with `{op}` against {red}(): the extremum itself is "
                                f"{'excluded' if op in ('<', '>') else 'not selected'} (expected `{want}`)")
    if n_masks < 5:
        raise AnalysisError(f"only {n_masks} extremum masks in best_eval (floor 5)")
    n_idx = 0
    for node in ast.walk(be.node):
        if isinstance(node, ast.Subscript) and isinstance(node.value, ast.Call) and (dotted(node.value.func) or "").split(".")[-1] in ("flatnonzero", "nonzero", "where", "argwhere"):
            n_idx += 1
            k = const_value(node.slice)
            desc = f"best_eval:{node.lineno} `{norm(node)[:60]}`"
            if k == -1:
                rep.ok("R3.2", desc + " most recent")
            else:
                rep.bad("R3.2", desc)
                rep.finding("R3.2", be, norm(node), node.lineno, "ties are not resolved in favour of the most recent point (index -1 of the candidates)")
    if n_idx < 5:
        raise AnalysisError(f"only {n_idx} candidate-index selections in best_eval (floor 5)")
    # `i = len(..) - 1` fallback
    # feasibility mask
    feas = None
    for node in ast.walk(be.node):
        if isinstance(node, ast.Assign) and isinstance(node.value, ast.Compare) and mentions(node.value, "_feasibility_tol"):
            feas = node
    if feas is None:
        rep.bad("R3.2", "feasibility mask")
        rep.finding("R3.2", be, "no feasibility mask", be.node.lineno, "best_eval no longer tests the violation against feasibility_tol")
        return
    l, op, r = _cmp_parts(feas.value)
    good = (op == "<=" and mentions(r, "_feasibility_tol") and _mr(l, "maxcv", roles)) or \
           (op == ">=" and mentions(l, "_feasibility_tol") and _mr(r, "maxcv", roles))
    if good:
        rep.ok("R3.2", f"best_eval:{feas.lineno} feasible <=> maxcv <= feasibility_tol")
    else:
        rep.bad("R3.2", "feasibility mask")
        rep.finding("R3.2", be, norm(feas), feas.lineno, "a point is feasible iff its violation is <= feasibility_tol (inclusive)")
    fname = feas.targets[0].id if isinstance(feas.targets[0], ast.Name) else None
    # merit assignment: in the false branch of the feasible tests; formula
    merit = None
    for node in ast.walk(be.node):
        if isinstance(node, ast.Assign) and isinstance(node.value, ast.BinOp) and isinstance(node.value.op, ast.Add) and mentions(node.value, "penalty"):
            merit = node
    if merit is None:
        rep.bad("R3.2", "merit formula")
        rep.finding("R3.2", be, "no merit = fun + penalty * maxcv", be.node.lineno, "the merit value fun + penalty * maxcv is no longer computed")
    else:
        v = merit.value
        sides = [v.left, v.right]
        mult = [s for s in sides if isinstance(s, ast.BinOp) and isinstance(s.op, ast.Mult)]
        other = [s for s in sides if s not in mult]
        ok = False
        if len(mult) == 1 and len(other) == 1:
            m = mult[0]
            ok = _mr(other[0], "fun", roles) and not _mr(other[0], "maxcv", roles) and \
                ((mentions(m.left, "penalty") and _mr(m.right, "maxcv", roles)) or (mentions(m.right, "penalty") and _mr(m.left, "maxcv", roles)))
        if ok:
            rep.ok("R3.2", f"best_eval:{merit.lineno} merit = fun + penalty * maxcv")
        else:
            rep.bad("R3.2", "merit formula")
            rep.finding("R3.2", be, norm(merit)[:120], merit.lineno, "the merit value is not fun + penalty * maxcv")
        ctxs = enclosing_context(merit, be.node)
        in_else_of_feasible = [c for c in ctxs if c[0] == "if-false" and fname and mentions(c[1], fname)]
        if in_else_of_feasible:
            rep.ok("R3.2", "merit branch only when no point is feasible")
        else:
            rep.bad("R3.2", "feasible-first")
            rep.finding("R3.2", be, "merit branch context: " + " / ".join(f"{k} {norm(w)[:40]}" for k, w, _ in ctxs), merit.lineno,
                        "the merit-based selection is not restricted to the case where no point is feasible (feasible points must come first)")
    # the feasible branch selects on the objective among feasible points
    sel = None
    for node in ast.walk(be.node):
        if isinstance(node, ast.Assign) and isinstance(node.value, ast.BinOp) and isinstance(node.value.op, ast.BitAnd) and fname and mentions(node.value, fname):
            sel = node
    if sel is None:
        rep.bad("R3.2", "feasible selection")
        rep.finding("R3.2", be, "no `feasible & (fun <= min fun)` mask", be.node.lineno, "the least-objective selection among feasible points is missing")
    else:
        ctxs = enclosing_context(sel, be.node)
        if any(c[0] == "if-true" and mentions(c[1], fname) for c in ctxs) and _mr(sel.value, "fun", roles):
            rep.ok("R3.2", f"best_eval:{sel.lineno} feasible branch selects the least objective among feasible points")
        else:
            rep.bad("R3.2", "feasible selection")
            rep.finding("R3.2", be, norm(sel)[:120], sel.lineno, "the feasible branch does not select the least objective among the feasible points")
    # tie-break refinement order:  &= maxcv..., then &= fun...
    refinements = {}
    for node in ast.walk(be.node):
        if isinstance(node, ast.AugAssign) and isinstance(node.op, ast.BitAnd) and isinstance(node.target, ast.Name):
            arr = roles.get(node.value.left.id, node.value.left.id) if isinstance(node.value, ast.Compare) and isinstance(node.value.left, ast.Name) else "?"
            refinements.setdefault(node.target.id, []).append((node.lineno, arr))
    # a refinement may be skipped only when it cannot matter (a single candidate left)
    for node in ast.walk(be.node):
        if isinstance(node, ast.AugAssign) and isinstance(node.op, ast.BitAnd) and isinstance(node.target, ast.Name):
            for kind, test, _n in enclosing_context(node, be.node):
                if kind != "if-true" or not mentions(test, node.target.id):
                    continue
                p = _cmp_parts(test)
                okg = False
                if p and isinstance(p[0], ast.Call) and (dotted(p[0].func) or "").split(".")[-1] in ("count_nonzero", "sum") and const_value(p[2]) is not None:
                    c = const_value(p[2])
                    okg = (p[1], c) in ((">", 1), (">=", 2), (">", 0), (">=", 1), ("!=", 1), ("!=", 0))
                desc = f"best_eval:{node.lineno} tie-break refinement of {node.target.id} under `{norm(test)[:50]}`"
                if okg:
                    rep.ok("R3.2", desc)
                elif p is not None:
                    rep.bad("R3.2", desc)
                    rep.finding("R3.2", be, norm(test)[:100], node.lineno,
                                f"the tie-break refinement of `{node.target.id}` is guarded by `{norm(test)}`, which skips it when several candidates tie: the most recent of the tied points is returned instead of the one with the least violation / objective")
    for mask, seq in refinements.items():
        seq.sort()
        arrs = [a for _, a in seq]
        # the mask refined by (violation) selects on the objective; the one refined by
        # (violation, objective) selects on the merit value
        want = ["maxcv"] if len(arrs) == 1 else ["maxcv", "fun"]
        desc = f"best_eval tie-break of {mask}: {arrs}"
        if arrs == want:
            rep.ok("R3.2", desc)
        else:
            rep.bad("R3.2", desc)
            rep.finding("R3.2", be, f"{mask}: {arrs}", seq[0][0], f"ties are not broken in the documented order (least violation, then least objective): {arrs}, expected {want}")
    if len(refinements) < 2:
        rep.bad("R3.2", "tie-break refinements")
        rep.finding("R3.2", be, f"refinements {sorted(refinements)}", be.node.lineno, "the tie-breaking refinements (least violation, then least objective) are missing")


# ---------------------------------------------------------------------------
FILTER_FIELDS3 = ("_fun_filter", "_maxcv_filter", "_x_filter")


def check_nan_reductions(ctx, rep, rule):
    """every nanmin/nanmax(A) in best_eval is guarded by a test that A has a
    non-NaN entry (not all(isnan(A)) / any(isfinite(A)))"""
    be = ctx.func(T.BEST_EVAL)
    n = 0
    for node in ast.walk(be.node):
        if not (isinstance(node, ast.Call) and (dotted(node.func) or "").split(".")[-1] in ("nanmin", "nanmax", "nanargmin", "nanargmax") and node.args):
            continue
        n += 1
        A = norm(node.args[0])
        from ..astutil import enclosing_stmt
        ctxs = enclosing_context(enclosing_stmt(node), be.node)
        ok = False
        for kind, test, _ in ctxs:
            tests = test.values if isinstance(test, ast.BoolOp) and isinstance(test.op, ast.And) and kind == "if-true" else [test]
            for t in tests:
                neg = False
                tt = t
                if isinstance(tt, ast.UnaryOp) and isinstance(tt.op, ast.Not):
                    neg = True
                    tt = tt.operand
                if not isinstance(tt, ast.Call):
                    continue
                fn = (dotted(tt.func) or "").split(".")[-1]
                arg = tt.args[0] if tt.args else None
                inner = (dotted(arg.func) or "").split(".")[-1] if isinstance(arg, ast.Call) else None
                inner_arg = norm(arg.args[0]) if isinstance(arg, ast.Call) and arg.args else None
                # resolve a mask variable: v = np.isfinite(A)
                if isinstance(arg, ast.Name):
                    for st in ast.walk(be.node):
                        if isinstance(st, ast.Assign) and any(isinstance(x, ast.Name) and x.id == arg.id for x in st.targets) and isinstance(st.value, ast.Call) and st.value.args:
                            inner = (dotted(st.value.func) or "").split(".")[-1]
                            inner_arg = norm(st.value.args[0])
                holds_true = (kind == "if-true") != neg   # the un-negated test holds
                if fn == "all" and inner == "isnan" and inner_arg == A and not holds_true:
                    ok = True
                if fn == "any" and inner == "isfinite" and inner_arg == A and holds_true:
                    ok = True
        desc = f"best_eval:{node.lineno} `{norm(node)[:60]}`"
        if ok:
            rep.ok(rule, desc + " guarded against an all-NaN operand")
        else:
            rep.bad(rule, desc)
            rep.finding(rule, be, norm(node), node.lineno,
                        f"`{norm(node)}` is not guarded by a test that `{A}` has a defined entry (the guard tests a different array): an all-NaN selection gives NaN and an empty candidate list (IndexError escapes from minimize)")
    # a plain min/max over a whole filter array (not restricted by a mask of defined
    # entries) returns NaN as soon as one entry is NaN: the comparison `<= nan` selects nothing
    plain = 0
    for node in ast.walk(be.node):
        if isinstance(node, ast.Call) and (dotted(node.func) or "").split(".")[-1] in ("min", "max", "amin", "amax") and node.args and isinstance(node.args[0], ast.Name) \
                and (dotted(node.func) or "").split(".")[0] in ("np", "numpy"):
            arr = node.args[0].id
            # arrays built from the filter lists (np.array(self._X_filter)) or derived with full_like
            is_filter_arr = False
            for st in ast.walk(be.node):
                if isinstance(st, ast.Assign) and any(isinstance(x, ast.Name) and x.id == arr for x in st.targets) and (mentions(st.value, *FILTER_FIELDS3) or (isinstance(st.value, ast.Call) and (dotted(st.value.func) or "").split(".")[-1] == "full_like")):
                    is_filter_arr = True
            if is_filter_arr:
                plain += 1
                rep.bad(rule, f"best_eval:{node.lineno} `{norm(node)[:50]}`")
                rep.finding(rule, be, norm(node), node.lineno,
                            f"`{norm(node)}` reduces a whole filter array that can contain NaN with a NaN-propagating function: the result is NaN, `<= nan` selects no entry and the index of the last candidate raises IndexError (escapes from minimize)")
    if n + plain < 4:
        raise AnalysisError(f"only {n} nan-reductions in best_eval (floor 4)")


def r33(ctx, rep):
    E = ctx.func(T.EVAL)
    pops = []
    for node in ast.walk(E.node):
        if isinstance(node, ast.Call) and isinstance(node.func, ast.Attribute) and node.func.attr == "pop":
            fld = common.field_of(node.func.value, E.self_name)
            if fld in FILTER:
                ctxs = enclosing_context(node, E.node) if False else enclosing_context(_stmt(node), E.node)
                trim = [c for c in ctxs if c[0] == "if-true" and mentions(c[1], "_filter_size")]
                if trim:
                    pops.append((node, fld, trim[0][1]))
    if len(pops) != 3 or {p[1] for p in pops} != set(FILTER):
        rep.bad("R3.3", "eviction pops")
        rep.finding("R3.3", E, f"eviction pops on {[p[1] for p in pops]}", E.node.lineno, "the eviction beyond filter_size does not pop all three filter lists")
        return
    for node, fld, test in pops:
        desc = f"{E.local}:{node.lineno} {norm(node)} under `{norm(test)}`"
        p = _cmp_parts(test)
        good_test = p and ((p[1] == ">" and mentions(p[0], *FILTER) and mentions(p[2], "_filter_size")) or (p[1] == "<" and mentions(p[2], *FILTER) and mentions(p[0], "_filter_size")))
        if len(node.args) == 1 and const_value(node.args[0]) == 0 and good_test:
            rep.ok("R3.3", desc)
        else:
            rep.bad("R3.3", desc)
            rep.finding("R3.3", E, f"{norm(node)} under {norm(test)}", node.lineno, "eviction must remove the oldest entry (pop(0)) when len(filter) > filter_size")


def _stmt(node):
    from ..astutil import enclosing_stmt
    return enclosing_stmt(node)


# ---------------------------------------------------------------------------
def check_penalty_forwarding(ctx, rep, rule):
    """Every evaluation made by solver code passes the penalty in force."""
    from ..valueflow import ValueFlow
    E = ctx.func(T.EVAL)
    tr = ctx.repo.cls("TrustRegion")
    pen_getter = tr.getters.get("penalty")
    if pen_getter is None:
        raise AnalysisError("TrustRegion.penalty not found")
    vf = ValueFlow(ctx, sources=(pen_getter.qual,), live=ctx.facts.live)
    live = ctx.facts.live
    reach = common.reachable_funcs(ctx, live=live)
    n = 0
    for ev in ctx.calls_to(E.qual):
        if live.is_dead(ev) or ev.func.qual not in reach:
            continue
        f = ev.func
        a = None
        from ..valueflow import arg_for
        for t in ev.targets:
            if t.kind == "repo" and t.name == E.qual:
                a = arg_for(ev.node, E, "penalty", t.detail)
        desc = f"{f.local}:{ev.line} {ev.text()[:50]}"
        if f.cls is not None and f.cls.name == "Problem":
            # the forced first evaluation inside best_eval: nothing selected yet
            rep.ok(rule, desc + " - evaluation on an empty filter (selection is trivial)")
            continue
        n += 1
        if a is None or a == "unknown":
            rep.bad(rule, desc)
            rep.finding(rule, f, ev.text(), ev.line, "an evaluation does not pass the penalty parameter: the callback would be shown a point selected with penalty 0")
            continue
        o = vf.origins(a, f)
        fields_ok = all((x.kind == "src") or (x.kind == "new" and str(x.detail).startswith("0.0")) for x in o)
        direct = any(x.kind == "src" for x in o) or _is_penalty_field(ctx, f, a)
        if o and (all(x.kind == "src" and not x.ops for x in o) or _penalty_chain(ctx, vf, f, a)):
            rep.ok(rule, desc + f" penalty `{norm(a)}` is the framework's penalty")
        else:
            rep.bad(rule, desc)
            from .. import spaces
            rep.finding(rule, f, ev.text(), ev.line, f"the penalty passed to the evaluation (`{norm(a)}`) is not the penalty in force ({spaces.fmt(o)})")
    return n


def _is_penalty_field(ctx, f, a):
    return isinstance(a, ast.Attribute) and a.attr in ("penalty", "_penalty")


def _penalty_chain(ctx, vf, f, a):
    """accept `self._penalty` / literal initial value flowing from TrustRegion.__init__"""
    o = vf.origins(a, f)
    for x in o:
        if x.kind == "src" and not x.ops:
            continue
        return False
    return bool(o)


def r34(ctx, rep):
    m = ctx.func(T.MINIMIZE)
    br = ctx.func(T.BUILD_RESULT)
    cfg = ctx.cfg(m)
    idx = br.params.index("penalty") if "penalty" in br.params else None
    if idx is None and "penalty" not in br.kwonly:
        raise AnalysisError("_build_result has no penalty parameter")
    fw = None
    for n in cfg.nodes:
        if n.kind == "stmt" and isinstance(n.ast, ast.Assign) and isinstance(n.ast.value, ast.Call) and any(t.kind == "repo" and t.name == T.TR_INIT for t in ctx.res.call_targets(n.ast.value, m)):
            fw = n
    if fw is None:
        raise AnalysisError("construction of the trust-region framework not found in minimize")
    fwname = fw.ast.targets[0].id
    after = set()
    for b, l in cfg.succ[fw.id]:
        if l != "exc":
            after |= cfg.reachable(b, skip_exc=False)
    k = 0
    for ev in ctx.events(m):
        if ev.kind == "call" and any(t.kind == "repo" and t.name == br.qual for t in ev.targets):
            a = _arg(ev.node, br, "penalty", idx)
            nid = cfg.node_containing(ev.node)
            desc = f"minimize:{ev.line} _build_result(penalty={norm(a)})"
            if nid in after:
                k += 1
                good = isinstance(a, ast.Attribute) and a.attr == "penalty" and isinstance(a.value, ast.Name) and a.value.id == fwname
                if good:
                    rep.ok("R3.4", desc + " - the penalty in force")
                else:
                    rep.bad("R3.4", desc)
                    rep.finding("R3.4", m, ev.text()[:100], ev.line, f"the final selection is made with penalty `{norm(a)}` instead of the framework's current penalty")
            else:
                if const_value(a) in (0, 0.0):
                    rep.ok("R3.4", desc + " - before the framework exists (initial penalty)")
                else:
                    rep.bad("R3.4", desc)
                    rep.finding("R3.4", m, ev.text()[:100], ev.line, f"an early result is selected with penalty `{norm(a)}`; the initial penalty is 0")
    if k < 1:
        raise AnalysisError("no result-builder call after the framework construction")
    # the builder hands the penalty to the selection
    ok = False
    for node in ast.walk(br.node):
        if isinstance(node, ast.Call) and any(t.kind == "repo" and t.name == T.BEST_EVAL for t in ctx.res.call_targets(node, br)):
            if node.args and isinstance(node.args[0], ast.Name) and node.args[0].id == "penalty":
                ok = True
            for kw in node.keywords:
                if kw.arg == "penalty" and isinstance(kw.value, ast.Name) and kw.value.id == "penalty":
                    ok = True
    if ok:
        rep.ok("R3.4", "_build_result: best_eval(penalty)")
    else:
        rep.bad("R3.4", "_build_result: best_eval(penalty)")
        rep.finding("R3.4", br, "best_eval call", br.node.lineno, "the result builder does not pass its penalty to the selection")
    n = check_penalty_forwarding(ctx, rep, "R3.4")
    if n < 2:
        raise AnalysisError("evaluation call sites with a penalty argument not found (floor 2)")
