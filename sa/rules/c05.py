"""C05 - evaluation and iteration budgets are respected and counted truthfully.

R5.1  every live call of the evaluation routine is (a) dominated in its loop
      iteration by a budget guard `counter >= maxfev -> raise MaxEvalError`,
      or (b) the first evaluation of the run, or (c) dead by call-site facts.
R5.2  the counter read by the guard and reported as nfev is incremented
      exactly once on every path through the evaluation routine.
R5.3  iteration cap: the test `n_iter >= maxiter` leaves the loop, dominates
      the loop body; the counter is incremented once per iteration before any
      evaluation; nit is that counter.
R5.4  history lists are appended in lock-step with the raw values, only under
      store_history, trimmed FIFO under len > history_size; the result's
      history fields come from these lists.
R5.5  the default evaluation budget is at least nb_points + 1.
"""
from __future__ import annotations

import ast

from ..astutil import norm, cmp_op_str, enclosing_loops, const_value, dotted
from ..loader import AnalysisError
from ..facts import exc_name
from .. import tables as T
from . import common
from .c07 import mentions, enclosing_context, _cmp_parts


def reaches_eval(ctx):
    """functions from which the evaluation routine is reachable (live edges)."""
    live = ctx.facts.live
    cg = ctx.cg
    out = {T.EVAL}
    changed = True
    while changed:
        changed = False
        for q, evs in cg.events.items():
            if q in out:
                continue
            for ev in evs:
                if live.is_dead(ev):
                    continue
                if any(t.kind == "repo" and t.name in out for t in ev.targets):
                    out.add(q)
                    changed = True
                    break
    return out


def run(ctx, rep):
    rep.rule("R5.1", "every live call of the evaluation routine is dominated (within its loop iteration) by `counter >= maxfev -> raise MaxEvalError`, or is the first evaluation of the run, or is dead by call-site facts")
    rep.rule("R5.2", "the evaluation counter (read by the guard and by result.nfev) has exactly one increment site, `+= 1`, on every normal path of the evaluation routine")
    rep.rule("R5.3", "iteration cap test leaves the loop and dominates it; counter incremented once per iteration before any evaluation; nit is the counter")
    rep.rule("R5.4", "history lists in lock-step, raw values, under store_history, FIFO trim under len > history_size; result history fields read these lists")
    rep.rule("R5.5", "default maxfev = max(default, nb_points + 1)")
    r51(ctx, rep)
    r52(ctx, rep)
    r53(ctx, rep)
    r54(ctx, rep)
    r55(ctx, rep)
    rep.rule("R5.6", "history_size / store_history / budgets reach their consumers through the right parameters (no swapped arguments)")
    common.check_swapped_args(ctx, rep, "R5.6", lambda g: (g.cls is not None and g.cls.name in ("Problem", "Models")) or g.name in ("_build_result", "_eval", "_set_default_options"))
    from ..report import Renamed
    rep.rule("R5.7", "a supplied maxfev/maxiter/history_size is not overwritten by the completion of the options (see C19 R19.8)")
    from . import c19
    c19.r198(ctx, Renamed(rep, to="R5.7"), ctx.func(c19.OPT_FUNC), ctx.func(c19.CST_FUNC))
    rep.rule("R5.8", "the recorded violation belongs to the recorded point: user code gets a private copy of the point (see C06 R6.4)")
    from . import c06
    c06.r64(ctx, Renamed(rep, to="R5.8"), rule="R5.8")
    rep.rule("R5.9", "the recorded objective values are Python floats, not views of the user's output buffer (see C11 R11.6)")
    from . import c11
    c11.r116(ctx, Renamed(rep, to="R5.9"), rule="R5.9")
    c19.r199(ctx, rep, ctx.func(T.MINIMIZE), c19.enum_tables(ctx), rule="R5.7")


# ---------------------------------------------------------------------------
def _guard_info(ctx, f, node):
    """If CFG test node is a budget guard return (counter_expr, op, side)."""
    t = node.ast.test
    tests = [t]
    if isinstance(t, ast.BoolOp) and isinstance(t.op, ast.Or):
        tests = t.values
    for tt in tests:
        p = _cmp_parts(tt)
        if not p:
            continue
        l, op, r = p
        if mentions(r, "MAX_EVAL", "maxfev") and not mentions(l, "MAX_EVAL", "maxfev"):
            return l, op
        if mentions(l, "MAX_EVAL", "maxfev") and not mentions(r, "MAX_EVAL", "maxfev"):
            from ..astutil import FLIP
            return r, FLIP[op]
    return None


def _true_branch_raises(cfg, nid, cls="MaxEvalError"):
    """All paths from the true edge of test nid end in `raise cls` (no normal
    continuation)."""
    starts = [b for b, l in cfg.succ[nid] if l == "true"]
    if not starts:
        return False
    seen = set()
    st = list(starts)
    while st:
        u = st.pop()
        if u in seen:
            continue
        seen.add(u)
        n = cfg.nodes[u]
        if n.kind == "stmt" and isinstance(n.ast, ast.Raise):
            if exc_name(n.ast.exc) != cls:
                return False
            continue
        if u in (cfg.exit,):
            return False
        nxt = [b for b, l in cfg.succ[u] if l != "exc"]
        if not nxt:
            return False
        # leaving the if-body (reaching a node not dominated by the true edge)
        for b in nxt:
            if not _dominated_by_edge(cfg, nid, "true", b):
                return False
            st.append(b)
    return True


def _dominated_by_edge(cfg, nid, label, target):
    """target is reachable from nid only through the edge `label`."""
    others = [b for b, l in cfg.succ[nid] if l != label and l != "exc"]
    reach_other = set()
    for o in others:
        reach_other |= cfg.reachable(o, avoid=(), skip_exc=True)
    # conservative: target must be dominated by nid and not reachable via other edges
    return cfg.dominates(nid, target) and target not in reach_other


def r51(ctx, rep, rule="R5.1"):
    live = ctx.facts.live
    reach = common.reachable_funcs(ctx, live=live)
    E = ctx.func(T.EVAL)
    sites = []
    for q in reach:
        f = ctx.repo.funcs.get(q)
        if f is None:
            continue
        for ev in ctx.events(f):
            if ev.kind == "call" and any(t.kind == "repo" and t.name == E.qual for t in ev.targets):
                sites.append(ev)
    if len(sites) < 3:
        raise AnalysisError(f"only {len(sites)} call sites of the evaluation routine (floor 3)")
    rep.analysed["evaluation_call_sites"] = len(sites)
    counter_fields = counter_chain(ctx)
    for ev in sites:
        f = ev.func
        desc = f"{f.local}:{ev.line} {ev.text()[:50]}"
        if live.is_dead(ev):
            rep.ok(rule, desc + " - dead: the optional values are never None at any call site")
            continue
        cfg = ctx.cfg(f)
        nid = cfg.node_containing(ev.node)
        loops = enclosing_loops(ev.node, stop=f.node)
        guards = []
        for n in cfg.nodes:
            if n.kind != "test":
                continue
            gi = _guard_info(ctx, f, n)
            if gi is None:
                continue
            guards.append((n, gi))
        verdict = None
        for n, (cexpr, op) in guards:
            if not cfg.dominates(n.id, nid):
                continue
            # same loop iteration: the guard is inside the innermost loop of the call
            if loops:
                inner = loops[0]
                if not any(a is inner for a in _ancestors(n.ast)):
                    continue
            if not _true_branch_raises(cfg, n.id):
                verdict = ("bad", f"budget test `{norm(n.ast.test)}` does not raise MaxEvalError on its true branch")
                continue
            if op not in (">=", "=="):
                verdict = ("bad", f"budget test `{norm(n.ast.test)}` uses `{op}`: one evaluation too many is allowed")
                continue
            why = _counter_ok(ctx, f, cexpr, n, ev, counter_fields)
            if why is True:
                verdict = ("ok", f"guarded by `{norm(n.ast.test)}`")
                break
            verdict = ("bad", why)
        if verdict is None:
            fe = _first_evaluation(ctx, f, ev, cfg, nid, sites)
            if fe:
                verdict = ("ok", fe)
            else:
                verdict = ("bad", "no budget test dominates this evaluation in its loop iteration and it is not the first evaluation of the run")
        if verdict[0] == "ok":
            rep.ok(rule, desc + " - " + verdict[1])
        else:
            rep.bad(rule, desc)
            rep.finding(rule, f, ev.text(), ev.line, "unguarded evaluation: " + verdict[1])


def _ancestors(node):
    p = getattr(node, "_parent", None)
    while p is not None:
        yield p
        p = getattr(p, "_parent", None)


def counter_chain(ctx):
    """Fields that back Problem.n_eval (following trivial getters)."""
    pb = ctx.repo.cls("Problem")
    g = pb.getters.get("n_eval")
    if g is None:
        raise AnalysisError("Problem.n_eval not found")
    fields = set()
    seen = set()

    def visit(e, g):
        if isinstance(e, ast.Attribute):
            tg = ctx.res.attr_targets(e, g)
            if tg:
                for h in tg:
                    follow(h)
                return
            if isinstance(e.value, ast.Name) and e.value.id == g.self_name:
                fields.add((g.cls.name, e.attr))
                return
            visit(e.value, g)
            return
        if isinstance(e, ast.Call):
            hit = False
            for t in ctx.res.call_targets(e, g):
                if t.kind == "repo":
                    follow(t.func)
                    hit = True
                elif t.kind != "builtin":
                    fields.add(("<external>", norm(e)[:40]))
                    hit = True
            if not hit:
                for a in e.args:
                    visit(a, g)
            return
        for ch in ast.iter_child_nodes(e):
            visit(ch, g)

    def follow(g):
        if g.qual in seen:
            return
        seen.add(g.qual)
        for node in ast.walk(g.node):
            if isinstance(node, ast.Return) and node.value is not None:
                visit(node.value, g)

    follow(g)
    return fields


def _counter_ok(ctx, f, cexpr, guard_node, ev, counter_fields):
    """The expression compared with maxfev counts the evaluations made so far."""
    # (i) the truthful counter property
    for sub in ast.walk(cexpr):
        if isinstance(sub, ast.Attribute) and sub.attr == "n_eval":
            tg = ctx.res.attr_targets(sub, f)
            if any(g.cls is not None and g.cls.name == "Problem" for g in tg):
                if norm(cexpr) == norm(sub):
                    return True
                return f"the budget test compares `{norm(cexpr)}`, not the evaluation counter itself"
    # (ii) loop index of `for k in range(N)` with one evaluation per iteration
    if isinstance(cexpr, ast.Name):
        loops = enclosing_loops(ev.node, stop=f.node)
        for lp in loops:
            if isinstance(lp, ast.For) and isinstance(lp.target, ast.Name) and lp.target.id == cexpr.id:
                it = lp.iter
                if not (isinstance(it, ast.Call) and isinstance(it.func, ast.Name) and it.func.id == "range" and len(it.args) == 1):
                    return f"loop index `{cexpr.id}` does not start at 0 with step 1"
                # the evaluation of iteration 0 is made before the loop: the call in
                # the loop must be skipped for index 0 and exactly one evaluation
                # precedes the loop
                ctxs = enclosing_context(ev.stmt, f.node)
                skipped0 = False
                for kind, what, n in ctxs:
                    p = _cmp_parts(what) if kind in ("if-false", "if-true") else None
                    if p and isinstance(p[0], ast.Name) and p[0].id == cexpr.id and const_value(p[2]) == 0:
                        if (kind == "if-false" and p[1] == "==") or (kind == "if-true" and p[1] in ("!=", ">")):
                            skipped0 = True
                    if p and isinstance(p[0], ast.Name) and p[0].id == cexpr.id and const_value(p[2]) == 1 and kind == "if-true" and p[1] == ">=":
                        skipped0 = True
                pre = [e2 for e2 in ctx.events(f) if e2.kind == "call" and e2 is not ev
                       and any(t.kind == "repo" and t.name == T.EVAL for t in e2.targets)]
                pre_before = [e2 for e2 in pre if not enclosing_loops(e2.node, stop=f.node) and e2.line < lp.lineno]
                in_loop_others = [e2 for e2 in pre if any(a is lp for a in _ancestors(e2.node))]
                if in_loop_others:
                    return f"more than one evaluation per iteration of the loop over `{cexpr.id}`"
                if skipped0 and len(pre_before) == 1:
                    return True
                if not skipped0 and len(pre_before) == 0:
                    return True
                return (f"loop index `{cexpr.id}` does not count the evaluations made so far "
                        f"({len(pre_before)} evaluation(s) before the loop, index-0 iteration {'skips' if skipped0 else 'makes'} an evaluation)")
        return f"`{cexpr.id}` is not the evaluation counter nor the index of the sampling loop"
    return f"`{norm(cexpr)}` is not the evaluation counter"


FILTER_FIELDS = ("_fun_filter", "_x_filter", "_maxcv_filter")


def empty_filter_branch(kind, test):
    """is the branch (`kind` = if-true / if-false of `test`) taken only when a
    filter list is empty?  Spellings: len(F) == 0, len(F) <= 0, len(F) < 1,
    0 == len(F), not F, not len(F), and the else branch of F / len(F) / len(F) > 0."""
    def is_len(e):
        return isinstance(e, ast.Call) and isinstance(e.func, ast.Name) and e.func.id == "len" and len(e.args) == 1 and is_list(e.args[0])

    def is_list(e):
        return isinstance(e, ast.Attribute) and e.attr in FILTER_FIELDS

    def empty(t):
        """True: t holds iff empty; False: t holds iff non-empty; None: unknown"""
        if isinstance(t, ast.UnaryOp) and isinstance(t.op, ast.Not):
            r = empty(t.operand)
            return None if r is None else not r
        if is_list(t) or is_len(t):
            return False
        p = _cmp_parts(t)
        if p:
            l, op, r = p
            if is_len(r) and const_value(l) is not None:
                l, r = r, l
                op = {"<": ">", ">": "<", "<=": ">=", ">=": "<=", "==": "==", "!=": "!="}.get(op, op)
            if is_len(l) and const_value(r) is not None:
                c = const_value(r)
                if (op, c) in (("==", 0), ("<=", 0), ("<", 1)):
                    return True
                if (op, c) in (("!=", 0), (">", 0), (">=", 1)):
                    return False
        return None
    r = empty(test)
    if r is None:
        return False
    return r if kind == "if-true" else (not r if kind == "if-false" else False)


def _first_evaluation(ctx, f, ev, cfg, nid, sites):
    """(b) first evaluation of the run."""
    # (b2) under the empty-filter test in the class of the evaluation routine
    for kind, what, n in enclosing_context(ev.stmt, f.node):
        if empty_filter_branch(kind, what) and f.cls is not None and f.cls.name == "Problem":
            if _filter_grows_on_empty(ctx):
                return "first evaluation: made only when the filter is empty, and every evaluation leaves the filter non-empty"
    # (b1) not in a loop, no other evaluation can precede it
    if enclosing_loops(ev.node, stop=f.node):
        return None
    # within f: no other evaluation-reaching call can execute before it
    re = reaches_eval(ctx)
    live = ctx.facts.live
    for e2 in ctx.events(f):
        if e2 is ev or live.is_dead(e2) or e2.kind == "setter":
            continue
        if any(t.kind == "repo" and t.name in re for t in e2.targets):
            n2 = cfg.node_containing(e2.node)
            if n2 is not None and n2 != nid and nid in cfg.reachable(n2, skip_exc=True):
                return None
            if n2 == nid and e2.line < ev.line:
                return None
    # the chain of callers up to minimize: each caller invokes f outside loops and
    # before any other evaluation
    return _callers_first(ctx, f, set(), re)


def _callers_first(ctx, f, seen, re):
    if f.qual == T.MINIMIZE:
        return "first evaluation of the run (maxfev >= 1 is validated)"
    if f.qual in seen:
        return None
    seen = seen | {f.qual}
    live = ctx.facts.live
    callers = [e for e in ctx.calls_to(f.qual) if not live.is_dead(e)]
    reach = common.reachable_funcs(ctx, live=live)
    callers = [e for e in callers if e.func.qual in reach]
    if not callers:
        return None
    for c in callers:
        g = c.func
        if enclosing_loops(c.node, stop=g.node):
            return None
        cfg = ctx.cfg(g)
        nid = cfg.node_containing(c.node)
        for e2 in ctx.events(g):
            if e2 is c or live.is_dead(e2) or e2.kind == "setter":
                continue
            if any(t.kind == "repo" and t.name in re and t.name != f.qual for t in e2.targets):
                n2 = cfg.node_containing(e2.node)
                if n2 is not None and nid is not None and n2 != nid and nid in cfg.reachable(n2, skip_exc=True):
                    return None
        if _callers_first(ctx, g, seen, re) is None:
            return None
    return "first evaluation of the run (maxfev >= 1 is validated)"


def _filter_grows_on_empty(ctx):
    """Every evaluation leaves the filter non-empty: the update fragment of the
    evaluation routine is interpreted (checker-side evaluator) on an empty
    filter for the four NaN classes of the new point and for filter_size = 1."""
    cached = getattr(ctx, "_filter_grows", None)
    if cached is not None:
        return cached
    from .c03 import filter_fragment, fragment_names, simulate, NAN
    from .. import minieval
    E, frag = filter_fragment(ctx)
    names = fragment_names(ctx, E, frag)
    ok = True
    for p in [(NAN, NAN), (NAN, 1.0), (1.0, NAN), (1.0, 1.0)]:
        for size in (1, 10 ** 9):
            try:
                F, C, X = simulate(frag, E, p, [], size, names)
            except minieval.Unsupported as exc:
                raise AnalysisError(f"filter update fragment uses a construct outside the evaluator's subset: {exc}")
            if len(X) < 1:
                ok = False
    ctx._filter_grows = ok
    return ok


# ---------------------------------------------------------------------------
def increment_sites(ctx, fields):
    sites = []
    for f in ctx.repo.funcs.values():
        if f.cls is None or f.self_name is None:
            continue
        for node in ast.walk(f.node):
            tgt = None
            if isinstance(node, ast.AugAssign):
                tgt = node.target
            elif isinstance(node, ast.Assign) and len(node.targets) == 1:
                tgt = node.targets[0]
            if isinstance(tgt, ast.Attribute) and isinstance(tgt.value, ast.Name) and tgt.value.id == f.self_name and (f.cls.name, tgt.attr) in fields:
                if f.name == "__init__" and isinstance(node, ast.Assign) and const_value(node.value) == 0:
                    continue
                sites.append((f, node))
    return sites


def on_every_path_of_eval(ctx, f, stmt):
    """The statement executes exactly once on every normal path of one
    invocation of the evaluation routine (interprocedurally along the chain of
    unconditional calls)."""
    cfg = ctx.cfg(f)
    nid = cfg.node_of(stmt)
    if nid is None:
        return False, "statement not found in the CFG"
    if enclosing_loops(stmt, stop=f.node):
        return False, "inside a loop"
    if not cfg.postdominates(nid, cfg.entry):
        return False, f"not executed on every path of {f.local} (it is control dependent on a condition)"
    if f.qual == T.EVAL:
        return True, "in the evaluation routine"
    callers = [e for e in ctx.calls_to(f.qual) if not ctx.facts.live.is_dead(e)]
    reach = common.reachable_funcs(ctx, live=ctx.facts.live)
    callers = [e for e in callers if e.func.qual in reach]
    if len(callers) != 1:
        return False, f"{f.local} has {len(callers)} call sites, so the count is not one per evaluation"
    c = callers[0]
    if c.conditional or c.lam is not None:
        return False, f"{f.local} is called conditionally at {c.func.local}:{c.line}"
    return on_every_path_of_eval(ctx, c.func, c.stmt)


def r52(ctx, rep):
    fields = counter_chain(ctx)
    rep.analysed["counter_fields"] = sorted(map(str, fields))
    ext = [x for x in fields if x[0] == "<external>"]
    real = {x for x in fields if x[0] != "<external>"}
    if ext:
        rep.bad("R5.2", f"counter derived from {ext}")
        rep.finding("R5.2", "Problem.n_eval", str(ext), 0, "the evaluation counter is computed by an external call, not a counted field", file="cobyqa/problem.py")
    if not real:
        raise AnalysisError("no backing field of Problem.n_eval found")
    sites = increment_sites(ctx, real)
    if not sites:
        rep.bad("R5.2", "increment site")
        f0 = ctx.func(T.EVAL)
        rep.finding("R5.2", f0, "n_eval never incremented", f0.node.lineno, "the evaluation counter is never incremented")
        return
    if len(sites) > 1:
        for f, node in sites:
            rep.bad("R5.2", f"{f.local}:{node.lineno} {norm(node)}")
        f, node = sites[1]
        rep.finding("R5.2", f, norm(node), node.lineno, f"the evaluation counter has {len(sites)} write sites; exactly one increment per evaluation is required")
        return
    f, node = sites[0]
    desc = f"{f.local}:{node.lineno} `{norm(node)}`"
    if not (isinstance(node, ast.AugAssign) and isinstance(node.op, ast.Add) and const_value(node.value) == 1):
        rep.bad("R5.2", desc)
        rep.finding("R5.2", f, norm(node), node.lineno, "the evaluation counter is not incremented by exactly one")
        return
    ok, why = on_every_path_of_eval(ctx, f, node)
    if ok:
        rep.ok("R5.2", desc + " executes once on every path of an evaluation")
    else:
        rep.bad("R5.2", desc)
        rep.finding("R5.2", f, norm(node), node.lineno,
                    f"the evaluation counter is not incremented on every evaluation: {why}; nfev under-counts and the budget test is ineffective on those paths")
    # result.nfev reads the counter
    br = ctx.func(T.BUILD_RESULT)
    found = False
    for n in ast.walk(br.node):
        if isinstance(n, ast.Assign) and any(isinstance(t, ast.Attribute) and t.attr == "nfev" for t in n.targets):
            found = True
            v = n.value
            if isinstance(v, ast.Attribute) and v.attr == "n_eval" and any(g.cls.name == "Problem" for g in ctx.res.attr_targets(v, br)):
                rep.ok("R5.2", "result.nfev = pb.n_eval")
            else:
                rep.bad("R5.2", "result.nfev")
                rep.finding("R5.2", br, norm(n), n.lineno, "result.nfev is not the evaluation counter")
    if not found:
        raise AnalysisError("no store to result.nfev")
    # the counter is read after the selection: best_eval evaluates the problem
    # once when nothing has been evaluated yet (early exits of minimize)
    cfgb = ctx.cfg(br)
    sel = [cfgb.node_containing(ev.node) for ev in ctx.events(br) if ev.kind == "call" and any(t.kind == "repo" and t.name == T.BEST_EVAL for t in ev.targets)]
    for n in cfgb.nodes:
        if n.kind == "stmt" and isinstance(n.ast, ast.Assign) and any(isinstance(t, ast.Attribute) and t.attr == "nfev" for t in n.ast.targets):
            if sel and all(cfgb.dominates(s_, n.id) for s_ in sel):
                rep.ok("R5.2", "result.nfev is read after the selection (which may still evaluate the problem once)")
            else:
                rep.bad("R5.2", "result.nfev order")
                rep.finding("R5.2", br, norm(n.ast), n.line, "result.nfev is read before best_eval is called; on the early exits of minimize (nothing evaluated yet) best_eval evaluates the problem once, so nfev is reported as 0 although one evaluation was made")


# ---------------------------------------------------------------------------
def r53(ctx, rep):
    m = ctx.func(T.MINIMIZE)
    cfg = ctx.cfg(m)
    re = reaches_eval(ctx)
    cap = None
    for n in cfg.nodes:
        if n.kind == "test" and isinstance(n.ast, ast.If):
            p = _cmp_parts(n.ast.test)
            if p and mentions(n.ast.test, "MAX_ITER", "maxiter"):
                cap = (n, p)
    if cap is None:
        rep.bad("R5.3", "iteration cap")
        rep.finding("R5.3", m, "no test against maxiter", m.node.lineno, "minimize has no test of the iteration counter against maxiter")
        return
    n, (l, op, r) = cap
    if mentions(l, "MAX_ITER", "maxiter"):
        from ..astutil import FLIP
        l, op, r = r, FLIP[op], l
    loops = enclosing_loops(n.ast, stop=m.node)
    if not loops:
        rep.bad("R5.3", "cap outside loop")
        rep.finding("R5.3", m, norm(n.ast.test), n.line, "the iteration cap test is not inside the main loop")
        return
    loop = loops[-1]
    desc = f"minimize:{n.line} `{norm(n.ast.test)}`"
    if op not in (">=", "=="):
        rep.bad("R5.3", desc)
        rep.finding("R5.3", m, norm(n.ast.test), n.line, f"the iteration cap uses `{op}`: one iteration too many is allowed")
    elif not isinstance(l, ast.Name):
        rep.bad("R5.3", desc)
        rep.finding("R5.3", m, norm(n.ast.test), n.line, "the iteration cap does not test a counter variable")
    else:
        rep.ok("R5.3", desc + " compares the counter with maxiter using >=")
    counter = l.id if isinstance(l, ast.Name) else None
    # true edge leaves the loop without evaluation
    true_nodes = cfg.reachable_edges([(n.id, "true")], skip_exc=True)
    loop_nodes = {cfg.by_ast[id(s)] for s in ast.walk(loop) if id(s) in cfg.by_ast}
    live = ctx.facts.live
    eval_nodes = set()
    for ev in ctx.events(m):
        if live.is_dead(ev) or ev.kind == "setter":
            continue
        if any(t.kind == "repo" and t.name in re for t in ev.targets):
            nid = cfg.node_containing(ev.node)
            if nid in loop_nodes:
                eval_nodes.add(nid)
    if true_nodes & eval_nodes:
        rep.bad("R5.3", "cap true edge")
        rep.finding("R5.3", m, norm(n.ast.test), n.line, "after the iteration cap is hit an evaluation can still be reached")
    else:
        rep.ok("R5.3", "the true edge of the cap test reaches no evaluation")
    for en in sorted(eval_nodes):
        if not cfg.dominates(n.id, en):
            rep.bad("R5.3", f"evaluation at line {cfg.nodes[en].line} not dominated by the cap")
            rep.finding("R5.3", m, cfg.nodes[en].text()[:80], cfg.nodes[en].line, "an evaluation in the main loop is not dominated by the iteration cap test")
        else:
            rep.ok("R5.3", f"cap test dominates the evaluation-reaching statement at line {cfg.nodes[en].line}")
    # increments
    if counter:
        incs = [x for x in cfg.nodes if x.kind == "stmt" and isinstance(x.ast, (ast.AugAssign, ast.Assign))
                and any(isinstance(t, ast.Name) and t.id == counter for t in (x.ast.targets if isinstance(x.ast, ast.Assign) else [x.ast.target]))
                and x.id in loop_nodes]
        if len(incs) != 1 or not (isinstance(incs[0].ast, ast.AugAssign) and isinstance(incs[0].ast.op, ast.Add) and const_value(incs[0].ast.value) == 1):
            rep.bad("R5.3", "iteration counter increment")
            rep.finding("R5.3", m, "; ".join(x.text() for x in incs) or f"no increment of {counter}", incs[0].line if incs else n.line,
                        f"the iteration counter `{counter}` is not incremented exactly once by one per iteration")
        else:
            inc = incs[0]
            inner = enclosing_loops(inc.ast, stop=m.node)
            bad = None
            if inner and inner[0] is not loop:
                bad = "inside an inner loop"
            for en in sorted(eval_nodes):
                if not cfg.dominates(inc.id, en):
                    bad = f"does not precede the evaluation at line {cfg.nodes[en].line} on every path"
            if not cfg.dominates(n.id, inc.id):
                bad = "is not dominated by the cap test"
            if bad:
                rep.bad("R5.3", "iteration counter increment")
                rep.finding("R5.3", m, inc.text(), inc.line, f"the increment of `{counter}` {bad}")
            else:
                rep.ok("R5.3", f"`{inc.text()}` once per iteration, after the cap test, before every evaluation")
        # nit
        br = ctx.func(T.BUILD_RESULT)
        idx = br.params.index("n_iter") if "n_iter" in br.params else None
        for ev in ctx.events(m):
            if ev.kind == "call" and any(t.kind == "repo" and t.name == br.qual for t in ev.targets) and idx is not None:
                from .c07 import _arg
                a = _arg(ev.node, br, "n_iter", idx)
                nid = cfg.node_containing(ev.node)
                after_loop = nid not in loop_nodes and any(cfg.dominates(x, nid) for x in loop_nodes)
                if after_loop:
                    if isinstance(a, ast.Name) and a.id == counter:
                        rep.ok("R5.3", f"minimize:{ev.line} nit = {counter}")
                    else:
                        rep.bad("R5.3", f"minimize:{ev.line} nit")
                        rep.finding("R5.3", m, ev.text()[:80], ev.line, f"the result after the main loop is built with nit=`{norm(a)}`, not the iteration counter")


# ---------------------------------------------------------------------------
HIST = ["_fun_history", "_maxcv_history", "_x_history"]


def r54(ctx, rep):
    pb = ctx.repo.cls("Problem")
    E = ctx.func(T.EVAL)
    ops, nblocks = common.check_lockstep(ctx, rep, "R5.4", pb, HIST, "history")
    if nblocks < 2:
        raise AnalysisError("history append/trim blocks not found (floor 2)")
    for f, stmt, fld, op, arg, node in ops:
        if op.startswith("foreign") or (f.name == "__init__" and op == "assign"):
            continue
        desc = f"{f.local}:{getattr(stmt, 'lineno', 0)} {fld}.{op}({arg})"
        ctxs = enclosing_context(stmt, f.node)
        if op == "append":
            under = any(kind == "if-true" and mentions(what, "_store_history") for kind, what, n in ctxs)
            if under:
                rep.ok("R5.4", desc + " under store_history")
            else:
                rep.bad("R5.4", desc)
                rep.finding("R5.4", f, norm(stmt), stmt.lineno, "history append is not conditioned on store_history")
        elif op == "pop":
            trim = None
            for kind, what, n in ctxs:
                p = _cmp_parts(what) if kind == "if-true" else None
                if p and mentions(what, "_history_size"):
                    trim = p
            if arg.strip() != "0":
                rep.bad("R5.4", desc)
                rep.finding("R5.4", f, norm(stmt), stmt.lineno, f"history is trimmed with pop({arg}): the oldest entry must go (FIFO), so that the last min(nfev, history_size) evaluations are kept in order")
            elif trim is None:
                rep.bad("R5.4", desc)
                rep.finding("R5.4", f, norm(stmt), stmt.lineno, "history pop is not under the `len > history_size` test")
            else:
                l, o, r = trim
                good = (o == ">" and mentions(l, *HIST) and mentions(r, "_history_size")) or (o == "<" and mentions(r, *HIST) and mentions(l, "_history_size"))
                if good:
                    rep.ok("R5.4", desc + f" under `{norm(l)} {o} {norm(r)}`")
                else:
                    rep.bad("R5.4", desc)
                    rep.finding("R5.4", f, f"pop under {norm(l)} {o} {norm(r)}", stmt.lineno, "the trim test is not `len(history) > history_size` (history would keep the wrong number of entries)")
        else:
            rep.bad("R5.4", desc)
            rep.finding("R5.4", f, norm(stmt)[:100], getattr(stmt, "lineno", 0), f"unexpected modification `{op}` of a history list")
    # trim directly follows the appends (same evaluation)
    # result fields
    br = ctx.func(T.BUILD_RESULT)
    for fld, getter, backing in (("fun_history", "fun_history", "_fun_history"), ("maxcv_history", "maxcv_history", "_maxcv_history")):
        ok = False
        for n in ast.walk(br.node):
            if isinstance(n, ast.Assign) and any(isinstance(t, ast.Attribute) and t.attr == fld for t in n.targets):
                v = n.value
                if isinstance(v, ast.Attribute) and v.attr == getter:
                    g = pb.getters.get(getter)
                    if g is not None and any(isinstance(s, ast.Attribute) and s.attr == backing for r in ast.walk(g.node) if isinstance(r, ast.Return) and r.value is not None for s in ast.walk(r.value)):
                        ok = True
                if not ok:
                    rep.bad("R5.4", f"result.{fld}")
                    rep.finding("R5.4", br, norm(n), n.lineno, f"result.{fld} is not read from the {backing} list")
                    ok = True
                else:
                    rep.ok("R5.4", f"result.{fld} <- Problem.{getter} <- {backing}")
        if not ok:
            rep.bad("R5.4", f"result.{fld} missing")
            rep.finding("R5.4", br, f"result.{fld}", br.node.lineno, f"the result has no {fld} field")
    # an evaluation stopped by the callback is still recorded: the history
    # appends dominate every callback call (and every raise) of the routine
    cfgE = ctx.cfg(E)
    app_nodes = [cfgE.node_containing(node) for f, stmt, fld, op, arg, node in ops if op == "append" and f.qual == E.qual]
    cb_nodes = [cfgE.node_containing(ev.node) for ev in ctx.events(E) if any(t.name == "UserCb" for t in ev.sink_targets())]
    hist_guard = None
    for f, stmt, fld, op, arg, node in ops:
        if op == "append" and f.qual == E.qual:
            for kind, what, n in enclosing_context(stmt, E.node):
                if kind == "if-true" and mentions(what, "_store_history"):
                    hist_guard = cfgE.node_of(n)
    for cb in cb_nodes:
        desc = f"{E.local}: history is appended before the callback call at line {cfgE.nodes[cb].line}"
        if hist_guard is not None and cfgE.dominates(hist_guard, cb) and all(cb not in cfgE.reachable(cb2, skip_exc=True) or True for cb2 in ()) and not any(a in cfgE.reachable(cb, skip_exc=True) for a in app_nodes):
            rep.ok("R5.4", desc)
        else:
            rep.bad("R5.4", desc)
            rep.finding("R5.4", E, "history append after the callback", cfgE.nodes[cb].line,
                        "the history is appended after the callback is called: an evaluation at which the callback stops the run (StopIteration) is counted in nfev but missing from fun_history / maxcv_history")
    # the values appended are the raw ones of this evaluation (shared with C02)
    from .c02 import check_raw_values
    check_raw_values(ctx, rep, "R5.4", HIST)


# ---------------------------------------------------------------------------
def r55(ctx, rep):
    f = ctx.func("cobyqa.main:_set_default_options")
    found = False
    for node in ast.walk(f.node):
        if isinstance(node, ast.Call) and isinstance(node.func, ast.Attribute) and node.func.attr == "setdefault" and node.args and mentions(node.args[0], "MAX_EVAL"):
            found = True
            v = node.args[1] if len(node.args) > 1 else None
            ok = False
            if isinstance(v, ast.Call) and dotted(v.func) and dotted(v.func).split(".")[-1] == "max":
                ops = v.args[0].elts if len(v.args) == 1 and isinstance(v.args[0], (ast.List, ast.Tuple)) else v.args
                for o in ops:
                    if isinstance(o, ast.BinOp) and isinstance(o.op, ast.Add) and mentions(o, "NPT", "nb_points") and (const_value(o.right) or 0) >= 1:
                        ok = True
            if ok:
                rep.ok("R5.5", f"default maxfev = {norm(v)[:80]}")
            else:
                rep.bad("R5.5", "default maxfev")
                rep.finding("R5.5", f, norm(node)[:120], node.lineno, "the default maxfev is no longer at least nb_points + 1")
    if not found:
        rep.bad("R5.5", "default maxfev")
        rep.finding("R5.5", f, "setdefault(MAX_EVAL, max(default, nb_points + 1))", f.node.lineno,
                    "the default evaluation budget is no longer set through setdefault(maxfev, max(500 n, nb_points + 1)): either the default can be below nb_points + 1 or a supplied maxfev is overwritten")
