"""C06 - user functions are called once per evaluation and never behind the
scenes.  Who-may-call / effect analysis on the resolved call graph.

R6.1  every call that may run user code (a *sink*) lies in a function that is
      call-graph-dominated by the evaluation routine (Problem.__call__): no
      path  minimize -> ... -> sink  avoids the evaluation routine.  Branches
      that are dead by call-site facts (argument definitely not None) are
      removed first.
R6.2  inside one evaluation every class of user code (objective, constraint,
      callback) is reached at most once: the reaching events are outside loops
      / comprehensions (the loop over the prepared constraint objects is the
      one accepted idiom: one call per distinct user constraint) and pairwise
      exclusive in the CFG.
R6.3  the point handed to the objective / constraint wrappers is the
      full-space point (space typing, shared with C01).
"""
from __future__ import annotations

import ast

from ..astutil import norm, enclosing_loops, in_comprehension, dotted
from ..loader import AnalysisError
from .. import tables as T
from ..callgraph import lam_key
from . import common


def run(ctx, rep):
    rep.rule("R6.1", "every sink (call that may run user code) is call-graph-dominated by the evaluation routine; dead branches (argument definitely not None at all call sites) removed")
    rep.rule("R6.2", "per evaluation each class of user code is reached at most once: no loop/comprehension on the way (except the loop over distinct prepared constraints), reaching events pairwise CFG-exclusive")
    rep.rule("R6.3", "arguments of the objective/constraint wrappers are full-space points (build_x results)")
    rep.rule("R6.4", "each direct call of user code receives a private array (fresh allocation in the calling wrapper), so user code cannot change the point seen by the other functions of the same evaluation")
    rep.rule("R6.5", "wrappers around user constraint functions bind function and arguments when created (no late-bound loop variable)")
    cg = ctx.cg
    live = ctx.facts.live
    E = ctx.func(T.EVAL)
    ctx.func(T.MINIMIZE)

    sinks = [ev for ev in ctx.sink_events() if not live.is_dead(ev)]
    if len(sinks) < 4:
        raise AnalysisError(f"only {len(sinks)} user-code call sites found (floor 4): the sink model no longer matches the code")
    rep.analysed["sinks"] = len(sinks)

    # ---- R6.1 ---------------------------------------------------------
    def edge_ok(ev):
        if live.is_dead(ev):
            return False
        return True

    # BFS from minimize that never enters the evaluation routine
    def edge_ok_avoid(ev):
        if not edge_ok(ev):
            return False
        return not any(t.kind == "repo" and t.name == E.qual for t in ev.targets)

    pred_avoid = _reach_avoiding(cg, T.MINIMIZE, E.qual, edge_ok)
    pred_all = cg.reach(T.MINIMIZE, edge_ok)
    for ev in sinks:
        holder = ev.func.qual if ev.lam is None else lam_key(ev.lam)
        desc = f"{ev.func.local}:{ev.line} {ev.text()[:70]} [{','.join(t.name for t in ev.sink_targets())}]"
        if holder not in pred_all and holder != T.MINIMIZE:
            # not reachable from minimize at all (helper used by tests only)
            rep.ok("R6.1", desc + " - unreachable from minimize")
            continue
        if holder == E.qual:
            rep.ok("R6.1", desc + " - inside the evaluation routine")
            continue
        if holder in pred_avoid or holder == T.MINIMIZE:
            path = cg.fmt_path(pred_avoid, holder) if holder in pred_avoid else "minimize"
            rep.bad("R6.1", desc)
            rep.finding(
                "R6.1", ev.func, ev.text(), ev.line,
                f"user code ({', '.join(t.name for t in ev.sink_targets())}) can be run outside a counted evaluation: "
                f"call path avoiding {E.local}",
                witness=path + f" -> {ev.text()[:60]}",
            )
        else:
            rep.ok("R6.1", desc + " - dominated by the evaluation routine")

    # ---- R6.2 ---------------------------------------------------------
    classes = common.sink_classes(ctx, sinks)
    reach_from_E = cg.reach(E.qual, edge_ok)
    nodes = [E.qual] + [n for n in reach_from_E if n != E.qual]
    # which sink classes does each call-graph node reach?
    # a nested invocation of the evaluation routine is another counted
    # evaluation: edges into it are cut
    reaches = common.sink_reach(ctx, sinks, classes, edge_ok_avoid)
    for node in nodes:
        if node.startswith("<lambda@"):
            continue
        f = ctx.repo.funcs.get(node)
        if f is None:
            continue
        cfg = ctx.cfg(f)
        per_class = {}
        for ev in ctx.events(f, include_lambda=False):
            if live.is_dead(ev):
                continue
            cls_here = set()
            if ev in classes:
                cls_here.add(classes[ev])
            for t in ev.targets:
                if t.kind == "repo" and t.name != E.qual:
                    cls_here |= reaches.get(t.name, set())
                elif t.kind == "lambda" and t.detail is not None:
                    cls_here |= reaches.get(lam_key(t.detail), set())
            for c in cls_here:
                per_class.setdefault(c, []).append(ev)
        for c, evs in per_class.items():
            if c == "prepare":
                continue
            for ev in evs:
                loops = enclosing_loops(ev.node, stop=f.node)
                comp = in_comprehension(ev.node)
                desc = f"{f.local}:{ev.line} {ev.text()[:60]} reaches {c}"
                bad_loop = None
                for lp in loops:
                    if c == "constraint" and common.is_constraint_object_loop(ctx, f, lp):
                        continue
                    bad_loop = lp
                if comp and not (c == "constraint" and common.comp_over_constraints(ctx, f, ev.node)):
                    bad_loop = "comprehension"
                if bad_loop is not None:
                    rep.bad("R6.2", desc)
                    rep.finding("R6.2", f, ev.text(), ev.line,
                                f"{c} user code may run more than once per evaluation: the call is inside "
                                f"{'a comprehension' if bad_loop == 'comprehension' else 'a loop at line %d' % bad_loop.lineno}")
                else:
                    rep.ok("R6.2", desc + " - not in a loop")
            # pairwise exclusivity
            for i in range(len(evs)):
                for j in range(i + 1, len(evs)):
                    a, b = evs[i], evs[j]
                    na, nb = cfg.node_containing(a.node), cfg.node_containing(b.node)
                    desc = f"{f.local}: `{a.text()[:40]}` (L{a.line}) vs `{b.text()[:40]}` (L{b.line}) both reach {c}"
                    if na is None or nb is None:
                        continue
                    if na == nb:
                        # same statement: same expression evaluated twice?
                        if a.node is b.node:
                            continue
                        seq = True
                    else:
                        seq = nb in cfg.reachable(na, skip_exc=True) or na in cfg.reachable(nb, skip_exc=True)
                    if seq and c == "constraint" and common.same_point_cached_pair(ctx, f, a, b):
                        rep.ok("R6.2", desc + " - identical point (cache)")
                        continue
                    if seq:
                        rep.bad("R6.2", desc)
                        rep.finding("R6.2", f, f"{a.text()} ; {b.text()}", b.line,
                                    f"{c} user code can run twice in one evaluation: both calls lie on one path")
                    else:
                        rep.ok("R6.2", desc + " - exclusive branches")

    # ---- R6.3 ---------------------------------------------------------
    from .. import spaces
    spaces.check_sink_spaces(ctx, rep, "R6.3", sinks, classes)

    # ---- R6.4 ---------------------------------------------------------
    r64(ctx, rep, sinks)

    # ---- R6.5 ---------------------------------------------------------
    common.check_closure_capture(ctx, rep, "R6.5")


def r64(ctx, rep, sinks=None, rule="R6.4"):
    from ..alias import Alias
    if sinks is None:
        live = ctx.facts.live
        sinks = [ev for ev in ctx.sink_events() if not live.is_dead(ev)]
    for ev in sinks:
        if ev.lam is not None:
            continue
        names = [t.name for t in ev.sink_targets()]
        if not any(n in ("UserFn", "UserConFn", "VecFunNL.fun", "PreparedConstraint(nonlinear)") for n in names):
            continue
        e = common.point_arg(ev)
        if e is None:
            continue
        al = Alias(ctx, ev.func)
        roots = al.roots(e, e)
        desc = f"{ev.func.local}:{ev.line} `{norm(e)}` handed to user code"
        if roots:
            rep.bad(rule, desc)
            rep.finding(rule, ev.func, ev.text(), ev.line,
                        f"user code receives an array that aliases {sorted(roots)[:3]}: if it modifies its argument, the constraint functions / the solver see a different point than the one evaluated")
        else:
            rep.ok(rule, desc + " is a private copy")


def _reach_avoiding(cg, src, avoid, edge_ok):
    from collections import deque
    pred = {src: None}
    dq = deque([src])
    while dq:
        u = dq.popleft()
        for ev in cg.node_events(u):
            if not edge_ok(ev):
                continue
            for t in ev.targets:
                if t.kind == "repo":
                    v = t.name
                elif t.kind == "lambda" and t.detail is not None:
                    v = lam_key(t.detail)
                else:
                    continue
                if v == avoid:
                    continue
                if v not in pred:
                    pred[v] = (u, ev)
                    dq.append(v)
    return pred


def r66(ctx, rep, rule="R6.6"):
    """the constraint objects handed to the solver carry only the constraint
    function and its limits: a user Jacobian / Hessian kept on them would be
    called by scipy's VectorFunction at every evaluated point (user code
    outside what the evaluation counts and documents)"""
    f = ctx.func("cobyqa.main:_get_constraints")
    n = 0
    for node in ast.walk(f.node):
        if isinstance(node, ast.Call) and (dotted(node.func) or "").split(".")[-1] == "NonlinearConstraint":
            n += 1
            extra = [k.arg for k in node.keywords if k.arg not in ("fun", "lb", "ub", "keep_feasible")] + (["<positional>"] if len(node.args) > 3 else [])
            desc = f"{f.local}:{node.lineno} NonlinearConstraint(fun, lb, ub)"
            if extra:
                rep.bad(rule, desc)
                rep.finding(rule, f, norm(node)[:120], node.lineno, f"the normalised constraint object is given {extra}: derivative callables of the user would be run by scipy at every evaluated point")
            else:
                rep.ok(rule, desc + " carries no derivative callable")
    if n < 2:
        raise AnalysisError(f"_get_constraints: only {n} NonlinearConstraint constructions found (floor 2)")


_old_run06 = run


def run(ctx, rep):  # noqa: F811
    _old_run06(ctx, rep)
    rep.rule("R6.6", "normalised constraint objects carry only fun/lb/ub (no user derivative callables)")
    r66(ctx, rep)
