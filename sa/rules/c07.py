"""C07 - status, message and success describe what actually happened.

R7.1  status <=> trigger table: a status constant is assigned / passed to the
      result builder only in the controlling context that is its trigger, and
      every handler of an internal exception leaves with the status (and
      success flag) that belongs to that exception (sibling agreement R7.2).
R7.3  (success, status) pair propagation on the CFG of minimize: every pair
      reaching a result-builder call is an allowed pair and both variables
      are definitely assigned.
R7.4  raise-site guards of TargetSuccess / FeasibleSuccess (shared with C09).
R7.5  post-conditions in the result builder: result.success is the incoming
      flag AND isfinite(fun) AND isfinite(maxcv) AND (maxcv <= tol unless the
      status is 1 or 4); result.status = status.value.
R7.6  message table and documented table list exactly the enum members, and
      the messages are the documented ones.
"""
from __future__ import annotations

import ast
import re

from ..astutil import norm, dotted, cmp_op_str, const_value
from ..loader import AnalysisError
from ..facts import handler_classes, exc_name
from .. import tables as T

STATUS_OF_EXC = {
    "TargetSuccess": ("TARGET_SUCCESS", True),
    "CallbackSuccess": ("CALLBACK_SUCCESS", True),
    "FeasibleSuccess": ("FEASIBLE_SUCCESS", True),
    "MaxEvalError": ("MAX_EVAL_WARNING", False),
    "LinAlgError": ("LINALG_ERROR", False),
}
EXC_OF_STATUS = {v[0]: k for k, v in STATUS_OF_EXC.items()}
SUCCESS_STATUSES = {"RADIUS_SUCCESS", "TARGET_SUCCESS", "FIXED_SUCCESS", "CALLBACK_SUCCESS", "FEASIBLE_SUCCESS"}
FAIL_STATUSES = {"MAX_EVAL_WARNING", "MAX_ITER_WARNING", "INFEASIBLE_ERROR", "LINALG_ERROR"}
DOC_VALUES = {  # documented code of each member (property statement / docstring)
    "RADIUS_SUCCESS": 0, "TARGET_SUCCESS": 1, "FIXED_SUCCESS": 2, "CALLBACK_SUCCESS": 3,
    "FEASIBLE_SUCCESS": 4, "MAX_EVAL_WARNING": 5, "MAX_ITER_WARNING": 6,
    "INFEASIBLE_ERROR": -1, "LINALG_ERROR": -2,
}


def status_member(e):
    """ExitStatus.X -> 'X'"""
    if isinstance(e, ast.Attribute) and isinstance(e.value, ast.Name) and e.value.id == "ExitStatus":
        return e.attr
    if isinstance(e, ast.Attribute) and isinstance(e.value, ast.Attribute) and e.value.attr == "ExitStatus":
        return e.attr
    return None


def bool_const(e):
    if isinstance(e, ast.Constant) and isinstance(e.value, bool):
        return "T" if e.value else "F"
    return None


def mentions(e, *names):
    for sub in ast.walk(e):
        if isinstance(sub, ast.Attribute) and sub.attr in names:
            return True
        if isinstance(sub, ast.Constant) and isinstance(sub.value, str) and sub.value in names:
            return True
        if isinstance(sub, ast.Name) and sub.id in names:
            return True
    return False


def enclosing_context(node, fnode):
    """List of ('handler', [classes]) / ('if-true', test) / ('if-false', test)
    from innermost to outermost."""
    out = []
    child = node
    cur = getattr(node, "_parent", None)
    while cur is not None and cur is not fnode:
        if isinstance(cur, ast.ExceptHandler):
            out.append(("handler", handler_classes(cur), cur))
        elif isinstance(cur, ast.If):
            if any(child is s for s in cur.body):
                out.append(("if-true", cur.test, cur))
            elif any(child is s for s in cur.orelse):
                out.append(("if-false", cur.test, cur))
        child = cur
        cur = getattr(cur, "_parent", None)
    return out


def _cmp_parts(t):
    if isinstance(t, ast.Compare) and len(t.ops) == 1:
        return t.left, cmp_op_str(t.ops[0]), t.comparators[0]
    return None


def trigger_ok(status, ctxs):
    """Does the controlling context contain the trigger of `status`?"""
    for kind, what, node in ctxs:
        if kind == "handler":
            want = EXC_OF_STATUS.get(status)
            if want is not None and what is not None and want in what and len(what) == 1:
                return True, f"handler of {want}"
            if status in EXC_OF_STATUS:
                return False, f"inside a handler of {what}, expected {EXC_OF_STATUS.get(status)}"
        elif kind == "if-true":
            tests = what.values if isinstance(what, ast.BoolOp) and isinstance(what.op, ast.And) else [what]
            for t in tests:
                p = _cmp_parts(t)
                if status == "MAX_ITER_WARNING" and p:
                    l, op, r = p
                    if op in (">=", "==", ">") and mentions(r, "MAX_ITER", "maxiter") and not mentions(l, "MAX_ITER", "maxiter"):
                        return True, f"true branch of `{norm(t)}`"
                    if op in ("<=", "==", "<") and mentions(l, "MAX_ITER", "maxiter"):
                        return True, f"true branch of `{norm(t)}`"
                if status == "RADIUS_SUCCESS" and p:
                    l, op, r = p
                    if op in ("<=", "==", "<") and mentions(l, "resolution") and mentions(r, "RHOEND", "radius_final"):
                        return True, f"true branch of `{norm(t)}`"
                    if op in (">=", "==", ">") and mentions(r, "resolution") and mentions(l, "RHOEND", "radius_final"):
                        return True, f"true branch of `{norm(t)}`"
                if status == "FIXED_SUCCESS" and p:
                    l, op, r = p
                    if isinstance(l, ast.Attribute) and l.attr == "n" and ((op in ("==", "<=") and const_value(r) == 0) or (op == "<" and const_value(r) == 1)):
                        return True, f"true branch of `{norm(t)}`"
                if status == "INFEASIBLE_ERROR":
                    if isinstance(t, ast.UnaryOp) and isinstance(t.op, ast.Not) and mentions(t.operand, "is_feasible"):
                        return True, f"true branch of `{norm(t)}`"
        elif kind == "if-false":
            t = what
            if status == "INFEASIBLE_ERROR" and mentions(t, "is_feasible") and not (isinstance(t, ast.UnaryOp)):
                return True, f"false branch of `{norm(t)}`"
    return False, "no enclosing trigger"


def run(ctx, rep):
    rep.rule("R7.1", "each status constant is assigned/passed only inside its trigger context (handler of its exception, true branch of its test); each handler of an internal exception leaves with exactly its (status, success) pair")
    rep.rule("R7.3", "(success,status) pairs reaching a result-builder call are allowed pairs; both definitely assigned")
    rep.rule("R7.4", "raise TargetSuccess only under fun<=target and maxcv<=feasibility_tol; raise FeasibleSuccess only under is_feasibility and maxcv<=feasibility_tol")
    rep.rule("R7.5", "result.success = flag AND isfinite(fun) AND isfinite(maxcv) AND (maxcv<=tol unless status in {1,4}); result.status = status.value")
    rep.rule("R7.6", "message table keys = ExitStatus members = documented table; messages are the documented texts; enum values are the documented codes")
    m = ctx.func(T.MINIMIZE)
    br = ctx.func(T.BUILD_RESULT)
    members = enum_members(ctx)
    r71_r73(ctx, rep, m, br, members)
    r74(ctx, rep)
    r75(ctx, rep, br)
    r76(ctx, rep, m, br, members)
    rep.rule("R7.7", "status 5 is issued exactly when the evaluation counter has reached maxfev: every budget test is `counter >= maxfev` on the truthful counter (shared with C05 R5.1)")
    from .c05 import r51
    r51(ctx, rep, rule="R7.7")
    from ..report import Renamed
    rep.rule("R7.8", "the feasibility test of the selection routine agrees with the one of the stopping tests (<= feasibility_tol) and the selection idioms hold (see C03 R3.2)")
    from . import c03
    c03.r32(ctx, Renamed(rep, to="R7.8"))
    rep.rule("R7.9", "a supplied maxfev/maxiter is not overwritten by the completion of the options (see C19 R19.8)")
    from . import c19
    c19.r198(ctx, Renamed(rep, to="R7.9"), ctx.func(c19.OPT_FUNC), ctx.func(c19.CST_FUNC))
    rep.rule("R7.10", "the budget statuses rest on a counter that counts every evaluation (also when fun is None) (see C05 R5.2)")
    from . import c05
    c05.r52(ctx, Renamed(rep, to="R7.10"))
    rep.rule("R7.11", "status 0 means the documented final radius was reached: a derived radius_final / threshold keeps its documented relation to the supplied partner (see C19 R19.3)")
    c19.r193(ctx, Renamed(rep, to="R7.11"), ctx.func(c19.OPT_FUNC), ctx.func(c19.CST_FUNC), c19.enum_tables(ctx))


def enum_members(ctx):
    c = ctx.repo.cls("ExitStatus")
    out = {}
    for k, v in c.class_attrs.items():
        cv = const_value(v)
        if isinstance(cv, int):
            out[k] = cv
    if len(out) < 5:
        raise AnalysisError("ExitStatus members not found")
    return out


def builder_sig(br):
    ps = br.params
    try:
        return ps.index("success"), ps.index("status")
    except ValueError:
        raise AnalysisError("_build_result(success, status) parameters not found")


def r71_r73(ctx, rep, m, br, members):
    cfg = ctx.cfg(m)
    i_succ, i_stat = builder_sig(br)
    # names of the two variables: the ones passed at builder calls
    calls = [ev for ev in ctx.events(m) if ev.kind == "call" and any(t.kind == "repo" and t.name == br.qual for t in ev.targets)]
    if len(calls) < 3:
        raise AnalysisError(f"only {len(calls)} result-builder calls in minimize (floor 3)")
    var_succ = var_stat = None
    for ev in calls:
        a = _arg(ev.node, br, "success", i_succ)
        b = _arg(ev.node, br, "status", i_stat)
        if isinstance(a, ast.Name):
            var_succ = a.id
        if isinstance(b, ast.Name):
            var_stat = b.id

    # ---- dataflow of (success,status) pairs ---------------------------
    def transfer(node, state, label):
        if node.kind != "stmt" or label == "exc":
            return state
        s = node.ast
        if isinstance(s, ast.Assign):
            new = state
            for t in s.targets:
                if isinstance(t, ast.Name) and t.id == var_succ:
                    v = bool_const(s.value) or "?"
                    new = frozenset((v, st) for _, st in new)
                elif isinstance(t, ast.Name) and t.id == var_stat:
                    v = status_member(s.value) or "?"
                    new = frozenset((su, v) for su, _ in new)
                elif isinstance(t, (ast.Tuple, ast.List)):
                    for el in t.elts:
                        if isinstance(el, ast.Name) and el.id == var_succ:
                            new = frozenset(("?", st) for _, st in new)
                        if isinstance(el, ast.Name) and el.id == var_stat:
                            new = frozenset((su, "?") for su, _ in new)
            return new
        if isinstance(s, ast.AugAssign) and isinstance(s.target, ast.Name) and s.target.id in (var_succ, var_stat):
            if s.target.id == var_succ:
                return frozenset(("?", st) for _, st in state)
            return frozenset((su, "?") for su, _ in state)
        return state

    states = cfg.solve_forward(frozenset({("unset", "unset")}), transfer, lambda a, b: a | b)

    n_sites = 0
    for ev in calls:
        a = _arg(ev.node, br, "success", i_succ)
        b = _arg(ev.node, br, "status", i_stat)
        nid = cfg.node_containing(ev.node)
        st = states.get(nid, frozenset())
        pairs = set()
        for su, sv in st or {("unset", "unset")}:
            s1 = bool_const(a) if a is not None and not isinstance(a, ast.Name) else su
            s2 = status_member(b) if b is not None and not isinstance(b, ast.Name) else sv
            if a is not None and not isinstance(a, ast.Name) and s1 is None:
                s1 = "?"
            if b is not None and not isinstance(b, ast.Name) and s2 is None:
                s2 = "?"
            pairs.add((s1, s2))
        for su, sv in sorted(pairs, key=str):
            desc = f"minimize:{ev.line} result built with (success={su}, status={sv})"
            msg = None
            if sv == "unset" or su == "unset":
                msg = f"{'status' if sv == 'unset' else 'success'} may be unassigned when the result is built"
            elif sv == "?" or su == "?":
                msg = "status/success is not a constant of the documented table on some path"
            elif sv not in members:
                msg = f"unknown status member {sv}"
            elif su == "T" and sv not in SUCCESS_STATUSES:
                msg = f"success=True is reported with the failure status {sv}"
            elif su == "F" and sv in SUCCESS_STATUSES:
                msg = f"success=False is reported with the success status {sv}"
            if msg:
                rep.bad("R7.3", desc)
                rep.finding("R7.3", m, f"{ev.text()[:80]} with ({su},{sv})", ev.line, msg)
            else:
                rep.ok("R7.3", desc)
        # literal status at the call: trigger context
        if b is not None and status_member(b):
            n_sites += 1
            _check_site(ctx, rep, m, ev.node, status_member(b), ev.line)

    # assignments of status constants
    for node in ast.walk(m.node):
        if isinstance(node, ast.Assign) and any(isinstance(t, ast.Name) and t.id == var_stat for t in node.targets):
            sm = status_member(node.value)
            if sm:
                n_sites += 1
                _check_site(ctx, rep, m, node, sm, node.lineno)
    if n_sites < 20:
        raise AnalysisError(f"only {n_sites} status sites found in minimize (floor 20)")
    rep.analysed["status_sites"] = n_sites

    # ---- handlers: each internal class leaves with its pair ----------------
    n_h = 0
    for node in ast.walk(m.node):
        if not isinstance(node, ast.ExceptHandler):
            continue
        hc = handler_classes(node)
        if hc is None:
            rep.bad("R7.1", f"minimize:{node.lineno} bare except")
            rep.finding("R7.1", m, "except:", node.lineno, "a bare except merges all internal exceptions into one status")
            continue
        internal = [c for c in hc if c in STATUS_OF_EXC]
        if not internal:
            continue
        n_h += 1
        if len(hc) > 1:
            rep.bad("R7.1", f"minimize:{node.lineno} except {hc}")
            rep.finding("R7.1", m, f"except ({', '.join(map(str, hc))})", node.lineno,
                        "one handler for several internal exceptions cannot report a distinct status for each")
            continue
        want_stat, want_succ = STATUS_OF_EXC[internal[0]]
        # states at the exits of the handler body
        exits = _handler_exits(ctx, cfg, states, node, m, br, var_succ, var_stat, i_succ, i_stat, transfer)
        desc = f"minimize:{node.lineno} except {internal[0]}"
        if not exits:
            rep.bad("R7.1", desc)
            rep.finding("R7.1", m, f"except {internal[0]}", node.lineno,
                        f"the handler of {internal[0]} does not leave the run with a status (no break / result on its paths)")
            continue
        for (su, sv, line) in sorted(exits, key=str):
            if sv == want_stat and su == ("T" if want_succ else "F"):
                rep.ok("R7.1", desc + f" -> ({su},{sv})")
            else:
                rep.bad("R7.1", desc + f" -> ({su},{sv})")
                rep.finding("R7.1", m, f"except {internal[0]} -> ({su},{sv})", line,
                            f"the handler of {internal[0]} leaves with (success={su}, status={sv}); "
                            f"documented: (success={'T' if want_succ else 'F'}, status={want_stat})")
    if n_h < 12:
        raise AnalysisError(f"only {n_h} handlers of internal exceptions in minimize (floor 12)")
    rep.analysed["handlers"] = n_h


def _arg(call, g, name, idx):
    for kw in call.keywords:
        if kw.arg == name:
            return kw.value
    if name in getattr(g, "kwonly", ()):       # keyword-only: never positional
        return g.defaults.get(name)
    if idx is not None and idx < len(call.args):
        return call.args[idx]
    return g.defaults.get(name) if hasattr(g, "defaults") else None


def _check_site(ctx, rep, m, node, status, line):
    ctxs = enclosing_context(node, m.node)
    ok, why = trigger_ok(status, ctxs)
    desc = f"minimize:{line} status {status}: {why}"
    if ok:
        rep.ok("R7.1", desc)
    else:
        rep.bad("R7.1", desc)
        rep.finding("R7.1", m, f"{status} @ {_ctx_text(ctxs)}", line,
                    f"status {status} is issued outside its documented trigger ({why})")


def _ctx_text(ctxs):
    out = []
    for kind, what, node in ctxs[:3]:
        if kind == "handler":
            out.append(f"except {what}")
        else:
            out.append(f"{kind} {norm(what)[:50]}")
    return " / ".join(out) or "top level"


def _handler_exits(ctx, cfg, states, h, m, br, var_succ, var_stat, i_succ, i_stat, transfer):
    """(success, status, line) at every way out of the handler body: break,
    return <builder call>, or falling out of the handler."""
    exits = set()
    body_nodes = set()
    for s in ast.walk(h):
        nid = cfg.by_ast.get(id(s))
        if nid is not None and s is not h:
            body_nodes.add(nid)
    hn = cfg.node_of(h)
    if hn is None:
        return exits
    # propagate inside the handler starting from the handler entry state
    for nid in sorted(body_nodes):
        node = cfg.nodes[nid]
        for b, lab in cfg.succ[nid]:
            if b in body_nodes or lab == "exc":
                continue
            out = transfer(node, states.get(nid, frozenset()), lab)
            s = node.ast
            if isinstance(s, ast.Return) and isinstance(s.value, ast.Call):
                a = _arg(s.value, br, "success", i_succ)
                c = _arg(s.value, br, "status", i_stat)
                for su, sv in out:
                    s1 = su if isinstance(a, ast.Name) else (bool_const(a) or "?")
                    s2 = sv if isinstance(c, ast.Name) else (status_member(c) or "?")
                    exits.add((s1, s2, node.line))
            elif isinstance(s, ast.Raise):
                continue
            else:
                for su, sv in out:
                    if lab in ("break", "return"):
                        exits.add((su, sv, node.line))
                    else:
                        # falls through / continues: the run goes on
                        exits.add((su, "<run continues>", node.line))
    if not body_nodes:
        exits.add(("?", "<run continues>", h.lineno))
    return exits


# ---------------------------------------------------------------------------
def raise_guard_conjuncts(node, fnode):
    """All conjuncts of the enclosing if-tests (true branches) of a raise."""
    conj = []
    for kind, what, n in enclosing_context(node, fnode):
        if kind == "if-true":
            conj += what.values if isinstance(what, ast.BoolOp) and isinstance(what.op, ast.And) else [what]
        elif kind == "if-false":
            conj.append(ast.UnaryOp(op=ast.Not(), operand=what))
    return conj


_BAD_POINT = []


def check_raise_guards(ctx, rep, rule):
    del _BAD_POINT[:]
    n = {"TargetSuccess": 0, "FeasibleSuccess": 0}
    for f in ctx.repo.funcs.values():
        for node in ast.walk(f.node):
            if not (isinstance(node, ast.Raise) and node.exc is not None):
                continue
            cls = exc_name(node.exc)
            if cls not in n:
                continue
            n[cls] += 1
            from ..inline import expander
            inl = expander(ctx, f)
            conj0 = raise_guard_conjuncts(node, f.node)
            conj = []
            for c0 in conj0:
                c1 = inl.expand(c0, node) if not isinstance(c0, ast.UnaryOp) or hasattr(c0, "lineno") else c0
                conj += c1.values if isinstance(c1, ast.BoolOp) and isinstance(c1.op, ast.And) else [c1]
            has_tol = False
            has_target = False
            has_feas = False
            bad_op = None
            for c in conj:
                p = _cmp_parts(c)
                if p:
                    l, op, r = p
                    # the threshold must be the plain option value, not an
                    # expression derived from it
                    for side in (l, r):
                        if mentions(side, "FEASIBILITY_TOL", "feasibility_tol", "TARGET", "target") and not _plain_option(side):
                            bad_op = norm(c)
                    if mentions(r, "FEASIBILITY_TOL", "feasibility_tol") and not mentions(l, "FEASIBILITY_TOL", "feasibility_tol"):
                        if op == "<=":
                            has_tol = _is_maxcv_value(ctx, f, l, c)
                        else:
                            bad_op = norm(c)
                    elif mentions(l, "FEASIBILITY_TOL", "feasibility_tol"):
                        if op == ">=":
                            has_tol = _is_maxcv_value(ctx, f, r, c)
                        else:
                            bad_op = norm(c)
                    if mentions(r, "TARGET", "target") and not mentions(l, "TARGET", "target"):
                        if op == "<=":
                            has_target = True
                        else:
                            bad_op = norm(c)
                    elif mentions(l, "TARGET", "target"):
                        if op == ">=":
                            has_target = True
                        else:
                            bad_op = norm(c)
                if mentions(c, "is_feasibility") and not (isinstance(c, ast.UnaryOp) and isinstance(c.op, ast.Not)):
                    has_feas = True
            desc = f"{f.local}:{node.lineno} raise {cls} guarded by {' and '.join(norm(c)[:40] for c in conj) or 'nothing'}"
            need = (has_tol and has_target) if cls == "TargetSuccess" else (has_tol and has_feas)
            if need and not bad_op:
                rep.ok(rule, desc)
            else:
                rep.bad(rule, desc)
                what = "objective <= target and violation <= feasibility_tol" if cls == "TargetSuccess" else "feasibility problem and violation <= feasibility_tol"
                rep.finding(rule, f, f"raise {cls} if {' and '.join(norm(c) for c in conj)}"[:200], node.lineno,
                            f"{cls} is raised under a guard that is not `{what}`"
                            + (f" (see `{bad_op}`)" if bad_op else "")
                            + ("; the violation tested is not the one of the point just evaluated: `" + norm(_BAD_POINT[-1][1])[:60] + "`" if _BAD_POINT and _BAD_POINT[-1][0] is f else ""))
    for cls, k in n.items():
        if k < 2:
            raise AnalysisError(f"only {k} raise sites of {cls} (floor 2: initial sampling and main loop)")


def _plain_option(e):
    """options[Options.X] / options["x"] / self._x / a bare name"""
    if isinstance(e, ast.Subscript):
        return isinstance(e.value, (ast.Name, ast.Attribute)) and not any(isinstance(x, ast.Call) for x in ast.walk(e))
    return isinstance(e, (ast.Name, ast.Attribute))


def _evaluated_point_texts(ctx, f):
    """normalised texts of the points at which f evaluates the problem
    (argument of the evaluation routine, names expanded)"""
    from ..inline import expander
    inl = expander(ctx, f)
    out = set()
    for ev in ctx.events(f):
        if ev.kind == "call" and any(t.kind == "repo" and t.name == T.EVAL for t in ev.targets) and ev.node.args:
            a = ev.node.args[0]
            out.add(norm(a))
            out.add(norm(inl.expand(a, a)))
    return out


def _maxcv_point_ok(ctx, f, call):
    """the violation used in a stopping test is the one of the evaluated point"""
    from ..inline import expander
    pts = _evaluated_point_texts(ctx, f)
    if not pts or not call.args:
        return True
    inl = expander(ctx, f)
    a = call.args[0]
    ta = {norm(a), norm(inl.expand(a, a))}
    if ta & pts:
        return True
    # the same point expression up to the loop index (initial sampling: point(0) before the loop, point(k) inside)
    import re as _re
    gen = {_re.sub(r"\b\d+\b", "#", x) for x in pts} | {_re.sub(r"\(\w\)", "(#)", x) for x in pts}
    ga = {_re.sub(r"\b\d+\b", "#", x) for x in ta} | {_re.sub(r"\(\w\)", "(#)", x) for x in ta}
    return bool(gen & ga)


def _is_maxcv_value(ctx, f, e, at):
    """The compared value is a maximum constraint violation: a call of a
    maxcv method or a variable defined by one - computed at the evaluated
    point."""
    for sub in ast.walk(e):
        if isinstance(sub, ast.Call) and isinstance(sub.func, ast.Attribute) and sub.func.attr == "maxcv":
            if not _maxcv_point_ok(ctx, f, sub):
                _BAD_POINT.append((f, sub))
                return False
            return True
    if isinstance(e, ast.Name):
        cfg = ctx.cfg(f)
        nid = cfg.node_containing(at)
        if nid is None:
            return False
        rd = cfg.reaching_defs().get(nid, {}).get(e.id, ())
        ok = bool(rd)
        for dn in rd:
            s = cfg.nodes[dn].ast
            if not (isinstance(s, ast.Assign) and any(isinstance(x, ast.Call) and isinstance(x.func, ast.Attribute) and x.func.attr == "maxcv" for x in ast.walk(s.value))):
                ok = False
        return ok
    return False


def r74(ctx, rep):
    check_raise_guards(ctx, rep, "R7.4")


# ---------------------------------------------------------------------------
def r75(ctx, rep, br):
    cfg = ctx.cfg(br)
    # names bound from best_eval
    names = {}
    for node in ast.walk(br.node):
        if isinstance(node, ast.Assign) and isinstance(node.value, ast.Call):
            if any(t.kind == "repo" and t.name == T.BEST_EVAL for t in ctx.res.call_targets(node.value, br)):
                tgt = node.targets[0]
                if isinstance(tgt, (ast.Tuple, ast.List)) and len(tgt.elts) == 3:
                    for k, el in zip(("x", "fun", "maxcv"), tgt.elts):
                        if isinstance(el, ast.Name):
                            names[k] = el.id
    if len(names) != 3:
        raise AnalysisError("_build_result: `x, fun, maxcv = pb.best_eval(..)` not found")
    rep.ok("R7.5", f"_build_result: (x, fun, maxcv) = best_eval(penalty) bound to {names}")
    flag = "success" if "success" in br.params else None
    if flag is None:
        raise AnalysisError("_build_result has no `success` parameter")

    def kinds_of(conj):
        s = _call_short(conj)
        if s == "isfinite" and conj.args and isinstance(conj.args[0], ast.Name):
            if conj.args[0].id == names["fun"]:
                return "finite_fun"
            if conj.args[0].id == names["maxcv"]:
                return "finite_maxcv"
        p = _cmp_parts(conj)
        if p:
            l, op, r = p
            if isinstance(l, ast.Name) and l.id == names["maxcv"] and op == "<=" and mentions(r, "FEASIBILITY_TOL", "feasibility_tol"):
                return "feasible"
            if isinstance(r, ast.Name) and r.id == names["maxcv"] and op == ">=" and mentions(l, "FEASIBILITY_TOL", "feasibility_tol"):
                return "feasible"
        if isinstance(conj, ast.Name) and conj.id == flag:
            return "flag"
        if isinstance(conj, ast.Call) and _call_short(conj) in ("bool",) and conj.args:
            return kinds_of(conj.args[0])
        return None

    def transfer(node, state, label):
        if node.kind != "stmt":
            return state
        s = node.ast
        if isinstance(s, ast.Assign) and any(isinstance(t, ast.Name) and t.id == flag for t in s.targets):
            v = s.value
            if isinstance(v, ast.BoolOp) and isinstance(v.op, ast.And):
                ks = [kinds_of(c) for c in v.values]
                if "flag" in ks:
                    return state | frozenset(k for k in ks if k and k != "flag")
                return frozenset(k for k in ks if k and k != "flag") | {"LOST"}
            if isinstance(v, ast.Name) and v.id == flag:
                return state
            return frozenset({"LOST"})
        if isinstance(s, ast.AugAssign) and isinstance(s.target, ast.Name) and s.target.id == flag:
            if isinstance(s.op, ast.BitAnd):
                k = kinds_of(s.value)
                return state | ({k} if k else set())
            return frozenset({"LOST"})
        return state

    states = cfg.solve_forward(frozenset(), transfer, lambda a, b: (a & b) | ({"LOST"} if "LOST" in (a | b) else frozenset()))
    stores = [n for n in cfg.nodes if n.kind == "stmt" and isinstance(n.ast, ast.Assign)
              and any(isinstance(t, ast.Attribute) and t.attr == "success" for t in n.ast.targets)]
    if not stores:
        raise AnalysisError("_build_result: no store to result.success")
    for n in stores:
        st = transfer(n, states.get(n.id, frozenset()), "next") if False else states.get(n.id, frozenset())
        v = n.ast.value
        desc = f"_build_result:{n.line} result.success"
        if not (isinstance(v, ast.Name) and v.id == flag):
            # allow the conjunction written directly in the store
            if isinstance(v, ast.BoolOp) and isinstance(v.op, ast.And):
                ks = [kinds_of(c) for c in v.values]
                st = st | frozenset(k for k in ks if k and k != "flag")
                if "flag" not in ks:
                    st = st | {"LOST"}
            else:
                st = st | {"LOST"}
        missing = {"finite_fun", "finite_maxcv"} - st
        if "LOST" in st:
            rep.bad("R7.5", desc)
            rep.finding("R7.5", br, norm(n.ast), n.line, "result.success no longer carries the incoming success flag AND-ed with the post-conditions (overwritten / or-ed)")
        elif missing:
            rep.bad("R7.5", desc)
            rep.finding("R7.5", br, norm(n.ast), n.line, f"result.success lacks the conjunct(s) {sorted(missing)} on some path: a result with NaN/inf fun or maxcv could be labelled successful")
        else:
            rep.ok("R7.5", desc + " = flag and isfinite(fun) and isfinite(maxcv)")
    # feasibility conjunct and its exemption set
    feas_ok = False
    for node in ast.walk(br.node):
        if isinstance(node, ast.Assign) and any(isinstance(t, ast.Name) and t.id == flag for t in node.targets):
            v = node.value
            if isinstance(v, ast.BoolOp) and isinstance(v.op, ast.And) and "feasible" in [kinds_of(c) for c in v.values]:
                ctxs = enclosing_context(node, br.node)
                exempt = None
                if not ctxs:
                    exempt = set()
                elif len(ctxs) == 1 and ctxs[0][0] in ("if-true", "if-false"):
                    t = ctxs[0][1]
                    st_ = status_set_test(t)
                    if st_ is not None:
                        inside, mem = st_
                        # the assignment runs when status is NOT in the exempt set
                        if (not inside and ctxs[0][0] == "if-true") or (inside and ctxs[0][0] == "if-false"):
                            exempt = mem
                desc = f"_build_result:{node.lineno} feasibility post-condition exempt statuses {sorted(map(str, exempt)) if exempt is not None else '?'}"
                if exempt is not None and exempt <= {"TARGET_SUCCESS", "FEASIBLE_SUCCESS"}:
                    feas_ok = True
                    rep.ok("R7.5", desc)
                else:
                    rep.bad("R7.5", desc)
                    rep.finding("R7.5", br, norm(node), node.lineno,
                                "the feasibility post-condition of success is skipped for statuses other than 1 and 4")
                    feas_ok = True
    if not feas_ok:
        rep.bad("R7.5", "_build_result feasibility conjunct")
        rep.finding("R7.5", br, "success = success and maxcv <= feasibility_tol", br.node.lineno,
                    "success is no longer conditioned on maxcv <= feasibility_tol")
    # result.status = status.value
    ok = False
    for node in ast.walk(br.node):
        if isinstance(node, ast.Assign) and any(isinstance(t, ast.Attribute) and t.attr == "status" for t in node.targets):
            v = node.value
            if isinstance(v, ast.Attribute) and v.attr == "value" and isinstance(v.value, ast.Name) and v.value.id == "status":
                ok = True
                rep.ok("R7.5", "result.status = status.value")
            else:
                rep.bad("R7.5", "result.status")
                rep.finding("R7.5", br, norm(node), node.lineno, "result.status is not the value of the status passed in")
                ok = True
    if not ok:
        raise AnalysisError("_build_result: no store to result.status")


def status_set_test(t, var="status"):
    """(inside, members): the test is true iff status is (inside) / is not (not
    inside) one of the members.  Understands `in` / `not in` a literal
    collection, chains of == joined by `or`, chains of != joined by `and`, and
    `not`."""
    if isinstance(t, ast.UnaryOp) and isinstance(t.op, ast.Not):
        r = status_set_test(t.operand, var)
        return None if r is None else (not r[0], r[1])
    p = _cmp_parts(t)
    if p and isinstance(p[0], ast.Name) and p[0].id == var:
        if isinstance(p[2], (ast.List, ast.Tuple, ast.Set)) and p[1] in ("in", "not in"):
            mem = {status_member(e) for e in p[2].elts}
            if None in mem:
                return None
            return (p[1] == "in", mem)
        if p[1] in ("==", "!=", "is", "is not") and status_member(p[2]):
            return (p[1] in ("==", "is"), {status_member(p[2])})
    if isinstance(t, ast.BoolOp):
        parts = [status_set_test(v, var) for v in t.values]
        if any(x is None for x in parts):
            return None
        if isinstance(t.op, ast.Or) and all(x[0] for x in parts):
            return (True, set().union(*[x[1] for x in parts]))
        if isinstance(t.op, ast.And) and all(not x[0] for x in parts):
            return (False, set().union(*[x[1] for x in parts]))
    return None


def _call_short(e):
    if isinstance(e, ast.Call):
        d = dotted(e.func)
        if d:
            return d.split(".")[-1]
    return None


# ---------------------------------------------------------------------------
def r76(ctx, rep, m, br, members):
    # enum values are the documented codes
    for k, v in DOC_VALUES.items():
        if members.get(k) == v:
            rep.ok("R7.6", f"ExitStatus.{k} = {v}")
        else:
            rep.bad("R7.6", f"ExitStatus.{k}")
            rep.finding("R7.6", "ExitStatus", f"{k} = {members.get(k)}", 0, f"ExitStatus.{k} is {members.get(k)}, documented code {v}", file="cobyqa/settings.py")
    for k in members:
        if k not in DOC_VALUES:
            rep.bad("R7.6", f"ExitStatus.{k}")
            rep.finding("R7.6", "ExitStatus", k, 0, f"undocumented status member {k}", file="cobyqa/settings.py")
    if len(set(members.values())) != len(members):
        rep.bad("R7.6", "distinct codes")
        rep.finding("R7.6", "ExitStatus", "duplicate value", 0, "two status members share a code (Enum aliasing)", file="cobyqa/settings.py")
    # message table
    table = None
    for node in ast.walk(br.node):
        if isinstance(node, ast.Dict) and node.keys and all(status_member(k) for k in node.keys if k is not None):
            table = node
    table_use = table
    if table is None:
        # a module-level table referenced by the builder
        for node in ast.walk(br.node):
            if isinstance(node, ast.Name) and node.id in br.module.globals:
                g = br.module.globals[node.id]
                if isinstance(g, ast.Dict) and g.keys and all(status_member(k) for k in g.keys if k is not None):
                    table = g
                    table_use = node
    if table is None:
        raise AnalysisError("_build_result: message table not found")
    keys = [status_member(k) for k in table.keys]
    msgs = {status_member(k): const_value(v) if isinstance(v, ast.Constant) else _joined(v) for k, v in zip(table.keys, table.values)}
    for k in members:
        if k in keys:
            rep.ok("R7.6", f"message for {k}")
        else:
            rep.bad("R7.6", f"message for {k}")
            rep.finding("R7.6", br, f"message table lacks {k}", table.lineno, f"no message for status {k} (it would read 'Unknown exit status')")
    if len(keys) != len(set(keys)):
        rep.bad("R7.6", "duplicate key")
        rep.finding("R7.6", br, "duplicate key in message table", table.lineno, "a status appears twice in the message table")
    # documented table in the docstring of minimize
    doc = m.docstring()
    rows = re.findall(r"\*\s*-\s*(-?\d+)\s*\n\s*-\s*(.+)", doc)
    docmap = {int(a): b.strip() for a, b in rows}
    if len(docmap) < 5:
        raise AnalysisError("documented exit-status table not found in the docstring of minimize")
    for k, v in members.items():
        if v not in docmap:
            rep.bad("R7.6", f"doc row {v}")
            rep.finding("R7.6", m, f"docstring table lacks {v}", m.node.lineno, f"status {k}={v} is not in the documented table")
            continue
        want = docmap[v].rstrip(".").strip()
        got = (msgs.get(k) or "").rstrip(".").strip()
        if k in msgs and want != got:
            rep.bad("R7.6", f"message text {k}")
            rep.finding("R7.6", br, f"{k}: {got}", table.lineno, f"message of {k} differs from the documented one: '{got}' vs '{want}'")
        elif k in msgs:
            rep.ok("R7.6", f"message text of {k} = documented text")
    for v in docmap:
        if v not in members.values():
            rep.bad("R7.6", f"doc row {v}")
            rep.finding("R7.6", m, f"docstring row {v}", m.node.lineno, f"documented status {v} has no enum member")
    # the lookup uses the status passed in
    par = getattr(table_use, "_parent", None)
    ok = False
    while par is not None and not isinstance(par, ast.stmt):
        if isinstance(par, ast.Call) and isinstance(par.func, ast.Attribute) and par.func.attr == "get" and par.args and isinstance(par.args[0], ast.Name) and par.args[0].id == "status":
            ok = True
        if isinstance(par, ast.Subscript) and isinstance(par.slice, ast.Name) and par.slice.id == "status":
            ok = True
        par = getattr(par, "_parent", None)
    if ok:
        rep.ok("R7.6", "message looked up with the status passed in")
    else:
        rep.bad("R7.6", "message lookup key")
        rep.finding("R7.6", br, "message lookup", table.lineno, "the message is not looked up with the status of the run")


def _joined(v):
    # implicit string concatenation is folded by the parser into one Constant
    if isinstance(v, ast.Constant):
        return v.value
    return norm(v)


def r712(ctx, rep, rule="R7.12"):
    """the four internal stop exceptions are unrelated classes: if one were a
    subclass of another, the handler of the base class (listed first in every
    chain) would also catch it and issue the wrong status"""
    names = ("MaxEvalError", "TargetSuccess", "CallbackSuccess", "FeasibleSuccess")
    classes = {n: ctx.repo.classes.get(n) for n in names}
    if any(c is None for c in classes.values()):
        raise AnalysisError(f"stop exception classes not found: {[n for n, c in classes.items() if c is None]}")

    def ancestors(c, seen=()):
        out = set()
        for b in c.bases:
            b = b.split(".")[-1]
            out.add(b)
            bc = ctx.repo.classes.get(b)
            if bc is not None and b not in seen:
                out |= ancestors(bc, seen + (b,))
        return out
    for n, c in classes.items():
        anc = ancestors(c)
        rel = sorted(set(names) & anc)
        desc = f"{n}({', '.join(c.bases)})"
        if rel:
            rep.bad(rule, desc)
            rep.finding(rule, n, f"class {n}({', '.join(c.bases)})", c.node.lineno, f"{n} is a subclass of {rel}: every `except {rel[0]}` clause (which precedes `except {n}` in the handler chains) catches it and reports the status of {rel[0]}", file=c.module.relpath)
        else:
            rep.ok(rule, desc + " is unrelated to the other stop exceptions")


_old_run07 = run


def run(ctx, rep):  # noqa: F811
    _old_run07(ctx, rep)
    rep.rule("R7.12", "the internal stop exceptions are pairwise unrelated classes")
    r712(ctx, rep)
