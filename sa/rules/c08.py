"""C08 - minimize always returns: no escape of internal exceptions, NaN-safe.

R8.1  interprocedural exception-escape analysis: no internal exception class
      (MaxEvalError, TargetSuccess, FeasibleSuccess, CallbackSuccess,
      StopIteration of the callback, LinAlgError, ZeroDivisionError) has an
      uncaught path to the exit of minimize, nor ZeroDivisionError out of a
      public subproblem solver.
R8.2  barrier before return: every value returned by the evaluation routine
      is, on every path, NaN-replaced and clamped to +-BARRIER; BARRIER is a
      finite expression.
R8.4  producer/consumer agreement of the constraint lists: everything that
      flows into NonlinearConstraints is a NonlinearConstraint object.
R8.5  every return of minimize is a result built by the result builder, and
      the builder definitely assigns every documented field.
Not decided: termination; exceptions raised implicitly by numpy/scipy.
"""
from __future__ import annotations

import ast

from ..astutil import norm, dotted, const_value
from ..loader import AnalysisError
from ..facts import is_subclass
from .. import tables as T
from ..types import USERDICT, USERNLC, elem

INTERNAL = ["MaxEvalError", "TargetSuccess", "FeasibleSuccess", "CallbackSuccess",
            "StopIteration", "LinAlgError", "ZeroDivisionError"]
PUBLIC_SOLVERS = [
    "cobyqa.subsolvers.optim:tangential_byrd_omojokun",
    "cobyqa.subsolvers.optim:constrained_tangential_byrd_omojokun",
    "cobyqa.subsolvers.optim:normal_byrd_omojokun",
    "cobyqa.subsolvers.geometry:cauchy_geometry",
    "cobyqa.subsolvers.geometry:spider_geometry",
]
RESULT_FIELDS = ["message", "success", "status", "x", "fun", "maxcv", "nfev", "nit"]


def run(ctx, rep):
    rep.rule("R8.1", "escape(minimize) and escape(public subsolvers) contain no internal exception class (explicit raises, propagated over the call graph, filtered by handlers; dead branches removed)")
    rep.rule("R8.2", "every value returned by Problem.__call__ is NaN-replaced and clamped to +-BARRIER on every path; BARRIER finite")
    rep.rule("R8.4", "values flowing into NonlinearConstraints are NonlinearConstraint objects (no dict), attribute accesses in the consumer match the producer's element types")
    rep.rule("R8.5", "every return of minimize is _build_result(...); _build_result assigns all documented fields on every path")
    r81(ctx, rep)
    r82(ctx, rep)
    r84(ctx, rep)
    r85(ctx, rep)
    rep.rule("R8.6", "every nanmin/nanmax in the selection routine is guarded by a test that the same operand has a defined entry (otherwise an IndexError escapes)")
    from .c03 import check_nan_reductions
    check_nan_reductions(ctx, rep, "R8.6")
    from ..report import Renamed
    rep.rule("R8.7", "NaN constraint values stay visible in the violation, so that a result with undefined constraints is never labelled feasible/successful (see C02 R2.6)")
    from . import c02
    c02.r26(ctx, Renamed(rep, to="R8.7"))
    rep.rule("R8.8", "no condition of the preprocessing tests the same operand twice; scaling requires finite lower and upper bounds (see C10)")
    from . import common
    common.check_duplicate_operands(ctx, rep, "R8.8", ["cobyqa.problem:Problem.__init__", "cobyqa.problem:BoundConstraints.__init__", "cobyqa.problem:LinearConstraints.__init__", "cobyqa.main:minimize"])
    from . import c10
    c10.run(ctx, Renamed(rep, to="R8.8"), r1="R8.8", only_transform=True)
    rep.rule("R8.12", "values reported to the user stay raw: the history is written before the barrier rewrite and before the callback can end the run (see C05 R5.4, C02 R2.1)")
    from . import c05 as _c05h, c02 as _c02h
    _c05h.r54(ctx, Renamed(rep, to="R8.12"))
    _c02h.check_raw_values(ctx, Renamed(rep, to="R8.12"), "R8.12", ["_fun_history", "_maxcv_history", "_x_history"])
    rep.rule("R8.11", "every attribute read on self resolves to a method, property or assigned field of its class (no AttributeError in rarely taken branches)")
    r811(ctx, rep)
    rep.rule("R8.10", "the barrier constant can be squared without overflow (it replaces NaN/inf values that the models then square): evaluated statically with the IEEE double parameters")
    r810(ctx, rep)
    rep.rule("R8.9", "reduced-space points only meet reduced-space bounds/matrices (a dimension mismatch raises inside numpy and escapes) (see C02 R2.5)")
    from .. import spaces
    if spaces.check_reduced_operands(ctx, Renamed(rep, to="R8.9"), "R8.9") < 8:
        raise AnalysisError("reduced-space operations not found")


def r81(ctx, rep):
    exc = ctx.facts.exc
    bases = exc.bases
    m = ctx.func(T.MINIMIZE)
    exc.check(m.qual)
    raised = exc.raises[m.qual]
    # the analysis must at least see the internal protocol being raised
    n_sites = 0
    for f in ctx.repo.funcs.values():
        for node in ast.walk(f.node):
            if isinstance(node, ast.Raise) and node.exc is not None:
                from ..facts import exc_name
                if exc_name(node.exc) in INTERNAL:
                    n_sites += 1
    if n_sites < 6:
        raise AnalysisError(f"only {n_sites} raise sites of internal exception classes found (floor 6)")
    rep.analysed["internal_raise_sites"] = n_sites
    for cls in INTERNAL:
        hits = {c: w for c, w in raised.items() if is_subclass(c, cls, bases) or c == cls}
        if not hits:
            rep.ok("R8.1", f"minimize: no uncaught path for {cls}")
        for c, w in hits.items():
            if cls != c and cls == "StopIteration":
                continue  # reported under its own class
            rep.bad("R8.1", f"minimize: {c} escapes")
            first = w[0]
            # the finding is keyed by the statement in minimize through which
            # the exception leaves
            rep.finding("R8.1", m, first[2], first[1],
                        f"internal exception {c} can escape minimize",
                        witness=exc.fmt_witness(w))
    for q in PUBLIC_SOLVERS:
        f = ctx.func(q)
        exc.check(q)
        r = exc.raises[q]
        for cls in ("ZeroDivisionError", "LinAlgError"):
            hits = {c: w for c, w in r.items() if is_subclass(c, cls, bases)}
            if cls == "LinAlgError":
                continue
            if hits:
                for c, w in hits.items():
                    rep.bad("R8.1", f"{f.local}: {c} escapes")
                    rep.finding("R8.1", f, w[0][2], w[0][1], f"{c} can escape the subproblem solver", witness=exc.fmt_witness(w))
            else:
                rep.ok("R8.1", f"{f.local}: no uncaught path for {cls}")
    # evidence: what does escape (documented classes)
    rep.extra["escape_set_of_minimize"] = {c: exc.fmt_witness(w)[:200] for c, w in raised.items()}


# ---------------------------------------------------------------------------
def _is_barrier(e, f, ctx):
    """+1 for BARRIER, -1 for -BARRIER, 0 otherwise."""
    if isinstance(e, ast.UnaryOp) and isinstance(e.op, ast.USub):
        return -_is_barrier(e.operand, f, ctx)
    if isinstance(e, ast.Name):
        r = ctx.repo.resolve_name(f.module, e.id)
        if r is not None and r[0] == "global" and r[2] == "BARRIER":
            return 1
    if isinstance(e, ast.Attribute) and e.attr == "BARRIER":
        return 1
    return 0


def _call_short(e):
    if isinstance(e, ast.Call):
        d = dotted(e.func)
        if d:
            return d.split(".")[-1]
    return None


def clamp_operand(e, f, ctx):
    """If e clamps some operand to [-BARRIER, BARRIER] return the operand."""
    s = _call_short(e)
    if s in ("max", "maximum", "fmax") and len(e.args) == 2:
        for a, b in ((e.args[0], e.args[1]), (e.args[1], e.args[0])):
            if _is_barrier(b, f, ctx) == -1 and _call_short(a) in ("min", "minimum", "fmin") and len(a.args) == 2:
                for x, y in ((a.args[0], a.args[1]), (a.args[1], a.args[0])):
                    if _is_barrier(y, f, ctx) == 1:
                        return x
    if s in ("min", "minimum", "fmin") and len(e.args) == 2:
        for a, b in ((e.args[0], e.args[1]), (e.args[1], e.args[0])):
            if _is_barrier(b, f, ctx) == 1 and _call_short(a) in ("max", "maximum", "fmax") and len(a.args) == 2:
                for x, y in ((a.args[0], a.args[1]), (a.args[1], a.args[0])):
                    if _is_barrier(y, f, ctx) == -1:
                        return x
    if s == "clip":
        args = list(e.args)
        kws = {k.arg: k.value for k in e.keywords}
        lo = args[1] if len(args) > 1 else kws.get("a_min", kws.get("min"))
        hi = args[2] if len(args) > 2 else kws.get("a_max", kws.get("max"))
        if args and lo is not None and hi is not None and _is_barrier(lo, f, ctx) == -1 and _is_barrier(hi, f, ctx) == 1:
            return args[0]
    return None


def _isnan_of(e):
    """np.isnan(v) -> v name"""
    if _call_short(e) == "isnan" and e.args and isinstance(e.args[0], ast.Name):
        return e.args[0].id
    return None


def nan_replacement(stmt, f, ctx):
    """v[np.isnan(v)] = BARRIER  /  v = np.nan_to_num(v, nan=BARRIER)  /
    v = np.where(np.isnan(v), BARRIER, v)  /  v = BARRIER if isnan(v) else v"""
    if not isinstance(stmt, ast.Assign) or len(stmt.targets) != 1:
        return None
    t, v = stmt.targets[0], stmt.value
    if isinstance(t, ast.Subscript) and isinstance(t.value, ast.Name):
        if _isnan_of(t.slice) == t.value.id and _is_barrier(v, f, ctx) == 1:
            return t.value.id
    if isinstance(t, ast.Name):
        if _call_short(v) == "nan_to_num" and v.args and isinstance(v.args[0], ast.Name) and v.args[0].id == t.id:
            for kw in v.keywords:
                if kw.arg == "nan" and _is_barrier(kw.value, f, ctx) == 1:
                    return t.id
        if _call_short(v) == "where" and len(v.args) == 3 and _isnan_of(v.args[0]) == t.id and _is_barrier(v.args[1], f, ctx) == 1 and isinstance(v.args[2], ast.Name) and v.args[2].id == t.id:
            return t.id
        if isinstance(v, ast.IfExp) and _isnan_of(v.test) == t.id and _is_barrier(v.body, f, ctx) == 1 and isinstance(v.orelse, ast.Name) and v.orelse.id == t.id:
            return t.id
    return None


def barrier_states(ctx, f):
    """Forward must-analysis: facts ('nf', v) = v has no NaN, ('cl', v) = v is
    NaN-free and clamped."""
    cfg = ctx.cfg(f)
    from ..cfg import defs_of

    def transfer(node, state, label):
        if node.kind == "test":
            v = _isnan_of(node.ast.test)
            if v is not None and label == "false":
                return state | {("nf", v)}
            if isinstance(node.ast.test, ast.UnaryOp) and isinstance(node.ast.test.op, ast.Not):
                v = _isnan_of(node.ast.test.operand)
                if v is not None and label == "true":
                    return state | {("nf", v)}
            return state
        if node.kind != "stmt":
            ds = defs_of(node)
            return frozenset(x for x in state if x[1] not in ds)
        s = node.ast
        v = nan_replacement(s, f, ctx)
        if v is not None:
            return state | {("nf", v)}
        if isinstance(s, ast.Assign) and len(s.targets) == 1 and isinstance(s.targets[0], ast.Name):
            name = s.targets[0].id
            if _is_barrier(s.value, f, ctx) != 0 or isinstance(const_value(s.value), (int, float)):
                cv = const_value(s.value)
                if cv is None or cv == cv:  # not NaN literal
                    return frozenset(x for x in state if x[1] != name) | {("nf", name)}
            op = clamp_operand(s.value, f, ctx)
            if op is not None and isinstance(op, ast.Name) and ("nf", op.id) in state:
                return frozenset(x for x in state if x[1] != name) | {("nf", name), ("cl", name)}
        ds = defs_of(node)
        if ds:
            strong = {k for k, st in ds.items() if st}
            weak = {k for k, st in ds.items() if not st}
            # a weak (element) store that is not a NaN replacement may put
            # anything into the array
            return frozenset(x for x in state if x[1] not in strong and x[1] not in weak)
        return state

    def join(a, b):
        return a & b

    return cfg, cfg.solve_forward(frozenset(), transfer, join)


def r82(ctx, rep):
    f = ctx.func(T.EVAL)
    cfg, states = barrier_states(ctx, f)
    rets = [n for n in cfg.nodes if n.kind == "stmt" and isinstance(n.ast, ast.Return)]
    if not rets:
        raise AnalysisError("the evaluation routine has no return statement")
    for n in rets:
        val = n.ast.value
        elts = val.elts if isinstance(val, ast.Tuple) else ([val] if val is not None else [])
        if len(elts) < 3:
            rep.bad("R8.2", f"return at line {n.line}")
            rep.finding("R8.2", f, norm(n.ast), n.line, "the evaluation routine no longer returns (fun, cub, ceq)")
            continue
        st = states.get(n.id, frozenset())
        for e in elts:
            desc = f"{f.local}:{n.line} returned value `{norm(e)}`"
            good = False
            if isinstance(e, ast.Name):
                good = ("cl", e.id) in st
            else:
                op = clamp_operand(e, f, ctx)
                good = op is not None and isinstance(op, ast.Name) and ("nf", op.id) in st
            if good:
                rep.ok("R8.2", desc + " NaN-replaced and clamped on every path")
            else:
                rep.bad("R8.2", desc)
                rep.finding("R8.2", f, norm(e), n.line,
                            f"value `{norm(e)}` returned to the solver is not NaN-replaced and clamped to +-BARRIER on every path "
                            f"(non-finite values would enter the models)")
    # BARRIER finite
    smod = ctx.repo.modules.get("cobyqa.settings")
    if smod is None or "BARRIER" not in smod.globals:
        raise AnalysisError("settings.BARRIER not found")
    bexpr = smod.globals["BARRIER"]
    bad = None
    for sub in ast.walk(bexpr):
        if isinstance(sub, ast.Attribute) and sub.attr.lower() in ("inf", "nan", "infty", "max"):
            bad = norm(sub)
        if isinstance(sub, ast.Name) and sub.id.lower() in ("inf", "nan"):
            bad = sub.id
        if isinstance(sub, ast.Constant) and isinstance(sub.value, str) and sub.value.lower().strip("+-") in ("inf", "nan", "infinity"):
            bad = sub.value
        if isinstance(sub, ast.Constant) and isinstance(sub.value, float) and (sub.value != sub.value or sub.value in (float("inf"), float("-inf"))):
            bad = repr(sub.value)
    if bad:
        rep.bad("R8.2", "BARRIER finite")
        rep.finding("R8.2", "settings", norm(bexpr), getattr(bexpr, "lineno", 0), f"BARRIER is built from a non-finite quantity ({bad})", file=smod.relpath)
    else:
        rep.ok("R8.2", f"BARRIER = {norm(bexpr)[:80]} is a finite expression")


def _narrowed_away_from_dict(value, node):
    """True when an enclosing isinstance test shows `value` is not a dict."""
    txt = norm(value)
    child = node
    cur = getattr(node, "_parent", None)
    while cur is not None:
        if isinstance(cur, ast.If):
            t = cur.test
            in_body = any(child is s for s in cur.body)
            in_else = any(child is s for s in cur.orelse)
            tests = t.values if isinstance(t, ast.BoolOp) and isinstance(t.op, ast.And) else [t]
            for tt in tests:
                if isinstance(tt, ast.Call) and isinstance(tt.func, ast.Name) and tt.func.id == "isinstance" and len(tt.args) == 2 and norm(tt.args[0]) == txt:
                    is_dict = norm(tt.args[1]) == "dict"
                    if in_body and not is_dict:
                        return True
                    if in_else and is_dict and not isinstance(t, ast.BoolOp):
                        return True
        child = cur
        cur = getattr(cur, "_parent", None)
    return False


def r84(ctx, rep, rule="R8.4"):
    res = ctx.res
    n = 0
    for f in ctx.repo.funcs.values():
        for node in ast.walk(f.node):
            if isinstance(node, ast.Attribute) and isinstance(node.ctx, ast.Load):
                bt = res.type_of(node.value, f)
                if USERDICT in bt and node.attr not in ("get", "items", "keys", "values", "setdefault", "copy", "pop", "update") and not _narrowed_away_from_dict(node.value, node):
                    n += 1
                    rep.bad(rule, f"{f.local}:{node.lineno} {norm(node)}")
                    rep.finding(rule, f, norm(node), node.lineno,
                                f"attribute `.{node.attr}` is read from a value that can be a dict constraint "
                                f"(dict constraints are handed over un-normalised): AttributeError at run time")
            elif isinstance(node, ast.Subscript) and isinstance(node.slice, ast.Constant) and isinstance(node.slice.value, str):
                bt = res.type_of(node.value, f)
                if bt and USERNLC in bt and USERDICT not in bt:
                    rep.bad(rule, f"{f.local}:{node.lineno} {norm(node)}")
                    rep.finding(rule, f, norm(node), node.lineno, "string subscript on a NonlinearConstraint object")
    # producer side: what reaches NonlinearConstraints(...)
    c = ctx.repo.cls("NonlinearConstraints")
    init = c.methods.get("__init__")
    if init is None:
        raise AnalysisError("NonlinearConstraints.__init__ not found")
    for ev in ctx.calls_to(init.qual):
        if not ev.node.args:
            continue
        t = res.type_of(ev.node.args[0], ev.func)
        et = elem(t)
        desc = f"{ev.func.local}:{ev.line} NonlinearConstraints({norm(ev.node.args[0])}) element kinds {{{', '.join(sorted(a[1] for a in et if a[0] == 'ext'))}}}"
        if USERDICT in et:
            rep.bad(rule, desc)
            rep.finding(rule, ev.func, ev.text(), ev.line,
                        "dict constraints reach NonlinearConstraints without being converted to NonlinearConstraint objects")
        else:
            rep.ok(rule, desc)
    if n == 0:
        rep.ok(rule, "no attribute read on a dict-typed constraint value")


def r85(ctx, rep):
    m = ctx.func(T.MINIMIZE)
    br = ctx.func(T.BUILD_RESULT)
    for node in ast.walk(m.node):
        if isinstance(node, ast.Return) and ctx.res._owner(node) is m.node:
            ok = False
            if isinstance(node.value, ast.Call):
                ok = any(t.kind == "repo" and t.name == br.qual for t in ctx.res.call_targets(node.value, m))
            elif isinstance(node.value, ast.Name):
                # result variable: all reaching defs are _build_result calls
                from ..valueflow import ValueFlow
                vf = ValueFlow(ctx, sources=(br.qual,))
                o = vf.origins(node.value, m)
                ok = bool(o) and all(x.kind == "src" for x in o)
            if ok:
                rep.ok("R8.5", f"minimize:{node.lineno} returns a built result")
            else:
                rep.bad("R8.5", f"minimize:{node.lineno} {norm(node)[:60]}")
                rep.finding("R8.5", m, norm(node)[:120], node.lineno, "minimize returns something that is not the result of the result builder")
    # definite field assignment in the builder
    cfg = ctx.cfg(br)
    rets = [n for n in cfg.nodes if n.kind == "stmt" and isinstance(n.ast, ast.Return)]
    for rn in rets:
        if not isinstance(rn.ast.value, ast.Name):
            continue
        rv = rn.ast.value.id
        for fld in RESULT_FIELDS:
            stores = [n.id for n in cfg.nodes if n.kind == "stmt" and isinstance(n.ast, ast.Assign)
                      and any(isinstance(t, ast.Attribute) and isinstance(t.value, ast.Name) and t.value.id == rv and t.attr == fld for t in n.ast.targets)]
            ctor = [n.id for n in cfg.nodes if n.kind == "stmt" and isinstance(n.ast, ast.Assign)
                    and isinstance(n.ast.value, ast.Call) and any(kw.arg == fld for kw in n.ast.value.keywords)
                    and any(isinstance(t, ast.Name) and t.id == rv for t in n.ast.targets)]
            if any(cfg.dominates(s, rn.id) for s in stores + ctor):
                rep.ok("R8.5", f"_build_result: result.{fld} assigned on every path")
            else:
                rep.bad("R8.5", f"_build_result: result.{fld}")
                rep.finding("R8.5", br, f"result.{fld}", rn.line, f"field `{fld}` of the result is not assigned on every path to the return")


def r810(ctx, rep):
    from .. import minieval
    mod = ctx.repo.modules.get("cobyqa.settings")
    if mod is None or "BARRIER" not in mod.globals:
        raise AnalysisError("settings.BARRIER not found")
    v = mod.globals["BARRIER"]
    env = minieval.Env({}, {
        "np.finfo(float).maxexp": 1024, "np.finfo(float).minexp": -1022, "np.finfo(float).max": 1.7976931348623157e308,
        "np.finfo(float).eps": 2.220446049250313e-16, "np.finfo(float).tiny": 2.2250738585072014e-308,
        "numpy.finfo(float).maxexp": 1024, "numpy.finfo(float).minexp": -1022,
    })
    try:
        val = minieval.ev(v, env)
    except minieval.Unsupported as exc:
        if "arithmetic error" in str(exc):
            val = float("inf")
        else:
            raise AnalysisError(f"settings.BARRIER: the definition `{norm(v)[:60]}` cannot be evaluated statically ({exc})")
    desc = f"settings.BARRIER = {norm(v)[:60]} = {val!r}"
    good = isinstance(val, (int, float)) and val == val and 1.0 < val < float("inf")
    if good:
        try:
            sq = float(val) * float(val)
            good = sq < float("inf") and float(val) >= 2.0 ** 20
        except OverflowError:
            good = False
    if good:
        rep.ok("R8.10", desc + " (finite, square finite)")
    else:
        rep.bad("R8.10", desc)
        rep.finding("R8.10", "settings", norm(v)[:100], getattr(v, "lineno", 0),
                    f"the barrier value {val!r} cannot be squared without overflow (or is not a large finite number): a NaN/inf returned by the user is replaced by it, the models square it, "
                    "and the run continues with inf/NaN (LinAlgError or NaN points handed to the user)", file="cobyqa/settings.py")


def r811(ctx, rep):
    """every attribute read on `self` names something the class defines: a
    method, a property, a class attribute or a field that some method of the
    class (or a base class of the package) assigns.  A read of an undefined
    attribute raises AttributeError in the middle of a run."""
    n = 0
    for c in ctx.repo.classes.values():
        defined = set(c.methods) | set(c.getters) | set(c.setters) | set(c.class_attrs)
        # fields assigned anywhere in the class
        for g in list(c.methods.values()) + list(c.getters.values()) + list(c.setters.values()):
            sn = g.self_name
            if not sn:
                continue
            for node in ast.walk(g.node):
                if isinstance(node, ast.Attribute) and isinstance(node.ctx, (ast.Store, ast.Del)) and isinstance(node.value, ast.Name) and node.value.id == sn:
                    defined.add(node.attr)
        bases = [b.split(".")[-1] for b in c.bases]
        external_base = any(b not in ctx.repo.classes and b not in ("object",) for b in bases)
        for b in bases:
            bc = ctx.repo.classes.get(b)
            if bc is not None:
                defined |= set(bc.methods) | set(bc.getters) | set(bc.class_attrs)
        if external_base:
            continue        # attributes may come from a library base class (Enum, Exception, ...)
        for g in list(c.methods.values()) + list(c.getters.values()) + list(c.setters.values()):
            sn = g.self_name
            if not sn:
                continue
            for node in ast.walk(g.node):
                if isinstance(node, ast.Attribute) and isinstance(node.ctx, ast.Load) and isinstance(node.value, ast.Name) and node.value.id == sn:
                    if node.attr.startswith("__") and node.attr.endswith("__"):
                        continue
                    n += 1
                    if node.attr not in defined:
                        rep.bad("R8.11", f"{g.local}:{node.lineno} self.{node.attr}")
                        rep.finding("R8.11", g, f"{sn}.{node.attr}", node.lineno,
                                    f"`{sn}.{node.attr}` is read but class {c.name} defines no such method, property or field: AttributeError escapes when this statement runs")
    if n < 300:
        raise AnalysisError(f"only {n} attribute reads on self found (floor 300)")
    rep.ok("R8.11", f"{n} attribute reads on self resolve to a method, property or assigned field of their class")
