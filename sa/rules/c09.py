"""C09 - stopping requests take effect at the very evaluation that triggers
them.

R9.1  after a stop exception is caught in minimize no user code can run: from
      every handler of TargetSuccess / FeasibleSuccess / CallbackSuccess no
      path of minimize reaches a call that may run user code (the forced
      evaluation of best_eval on an empty filter is excluded by the checked
      fact that every evaluation leaves the filter non-empty).
R9.2  at each evaluation site the stopping tests follow the evaluation on
      every path, with no user code in between; their guards are the
      documented ones (R7.4).
R9.3  the callback's StopIteration is translated to CallbackSuccess inside the
      evaluation routine (raw StopIteration does not leave it), by a handler
      whose try body contains the callback call and which re-raises at once.
R9.4  converse: TargetSuccess/FeasibleSuccess are raised only under their
      guards, CallbackSuccess only in the handler of the callback's
      StopIteration; statuses 1/3/4 only in their handlers (C07 R7.1).
R9.5  the evaluation counter is incremented before the callback can stop the
      run (nfev = index of the triggering evaluation).
"""
from __future__ import annotations

import ast

from ..astutil import norm, enclosing_loops
from ..loader import AnalysisError
from ..facts import exc_name, handler_classes
from ..callgraph import lam_key
from .. import tables as T
from . import common
from .c05 import reaches_eval, _first_evaluation, counter_chain, increment_sites
from .c07 import check_raise_guards, enclosing_context, mentions

STOP = ("TargetSuccess", "FeasibleSuccess", "CallbackSuccess")


def empty_filter_eval_events(ctx):
    """call events of the evaluation routine made under the empty-filter test
    inside Problem (dead once any evaluation has been made)."""
    out = set()
    from .c05 import _filter_grows_on_empty, _cmp_parts
    from ..astutil import const_value
    if not _filter_grows_on_empty(ctx):
        return out
    for ev in ctx.calls_to(T.EVAL):
        f = ev.func
        if f.cls is None or f.cls.name != "Problem":
            continue
        from .c05 import empty_filter_branch
        for kind, what, n in enclosing_context(ev.stmt, f.node):
            if empty_filter_branch(kind, what):
                out.add(id(ev.node))
    return out


def user_code_reach(ctx):
    """call-graph nodes from which user code is reachable once at least one
    evaluation has been made."""
    live = ctx.facts.live
    pruned = empty_filter_eval_events(ctx)
    sinks = [ev for ev in ctx.sink_events() if not live.is_dead(ev)]
    classes = common.sink_classes(ctx, sinks)

    def edge_ok(ev):
        return not live.is_dead(ev) and id(ev.node) not in pruned
    reach = common.sink_reach(ctx, sinks, classes, edge_ok)
    return {k for k, v in reach.items() if v}, pruned


def events_reaching_user_code(ctx, f, ucr, pruned):
    live = ctx.facts.live
    out = []
    for ev in ctx.events(f, include_lambda=False):
        if live.is_dead(ev) or id(ev.node) in pruned:
            continue
        if ev.sink_targets():
            out.append(ev)
            continue
        for t in ev.targets:
            if t.kind == "repo" and t.name in ucr:
                out.append(ev)
                break
            if t.kind == "lambda" and t.detail is not None and lam_key(t.detail) in ucr:
                out.append(ev)
                break
    return out


def run(ctx, rep):
    rep.rule("R9.1", "from every handler of a stop exception in minimize no path reaches a call that may run user code")
    rep.rule("R9.2", "after each evaluation call the target/feasibility tests are reached on every normal path before any further user code, loop head or return")
    rep.rule("R9.3", "StopIteration of the callback is translated to CallbackSuccess by a handler around the callback call that re-raises at once; raw StopIteration does not leave the evaluation routine")
    rep.rule("R9.4", "raise sites of the stop exceptions are guarded by the documented conditions")
    rep.rule("R9.5", "the evaluation counter increment dominates the callback call")
    ucr, pruned = user_code_reach(ctx)
    r91(ctx, rep, ucr, pruned)
    r92(ctx, rep, ucr, pruned)
    r93(ctx, rep)
    check_raise_guards(ctx, rep, "R9.4")
    r95(ctx, rep)
    from ..report import Renamed
    rep.rule("R9.6", "the values on which the stopping tests are made are NaN-replaced by the barrier (an undefined constraint never counts as satisfied) - see C08 R8.2")
    from . import c08
    c08.r82(ctx, Renamed(rep, to="R9.6"))
    rep.rule("R9.7", "each stop exception is handled by its own handler leaving with its own status (see C07 R7.1/R7.3)")
    from . import c07
    m_ = ctx.func(T.MINIMIZE)
    c07.r71_r73(ctx, Renamed(rep, to="R9.7"), m_, ctx.func(T.BUILD_RESULT), c07.enum_members(ctx))
    rep.rule("R9.9", "the tolerance / target used by the stop tests is the one the selection of the returned point uses: one option key per value (see C19 R19.9)")
    from . import c19 as _c19
    _c19.r199(ctx, Renamed(rep, to="R9.9"), m_, _c19.enum_tables(ctx), rule="R9.9")
    rep.rule("R9.10", "the returned point satisfies the request that ended the run: the selection uses the same inclusive feasibility test as the stop tests and the penalty in force (see C03 R3.2, R3.4)")
    from . import c03 as _c03
    _c03.r32(ctx, Renamed(rep, to="R9.10"))
    if _c03.check_penalty_forwarding(ctx, Renamed(rep, to="R9.10"), "R9.10") < 2:
        raise AnalysisError("evaluation call sites with a penalty argument not found")
    rep.rule("R9.8", "nfev at a stop is the index of the triggering evaluation: the counter counts every evaluation (see C05 R5.2)")
    from . import c05 as _c05
    _c05.r52(ctx, Renamed(rep, to="R9.8"))


def r91(ctx, rep, ucr, pruned):
    m = ctx.func(T.MINIMIZE)
    cfg = ctx.cfg(m)
    evs = events_reaching_user_code(ctx, m, ucr, pruned)
    ev_nodes = {}
    for ev in evs:
        nid = cfg.node_containing(ev.node)
        if nid is not None:
            ev_nodes.setdefault(nid, ev)
    n = 0
    for node in ast.walk(m.node):
        if not isinstance(node, ast.ExceptHandler):
            continue
        hc = handler_classes(node) or []
        stops = [c for c in hc if c in STOP]
        if not stops:
            continue
        n += 1
        hn = cfg.node_of(node)
        reach = cfg.reachable(hn)
        hit = sorted(x for x in reach if x in ev_nodes and x != hn)
        desc = f"minimize:{node.lineno} except {stops[0]}"
        if hit:
            ev = ev_nodes[hit[0]]
            rep.bad("R9.1", desc)
            rep.finding("R9.1", m, f"except {stops[0]} -> {ev.text()[:60]}", node.lineno,
                        f"after {stops[0]} is caught the run can still reach `{ev.text()[:60]}` (line {ev.line}), which may run user code: the stop request does not end the run at the triggering evaluation")
        else:
            rep.ok("R9.1", desc + " - no user code reachable afterwards")
    if n < 9:
        raise AnalysisError(f"only {n} handlers of stop exceptions in minimize (floor 9)")


def r92(ctx, rep, ucr, pruned):
    live = ctx.facts.live
    reach = common.reachable_funcs(ctx, live=live)
    sites = [ev for ev in ctx.calls_to(T.EVAL) if not live.is_dead(ev) and ev.func.qual in reach and id(ev.node) not in pruned]
    sites = [ev for ev in sites if not (ev.func.cls is not None and ev.func.cls.name == "Problem")]
    if len(sites) < 3:
        raise AnalysisError(f"only {len(sites)} evaluation call sites outside Problem (floor 3)")
    for ev in sites:
        f = ev.func
        cfg = ctx.cfg(f)
        c = cfg.node_containing(ev.node)
        # guard tests of the two stop raises in f
        guards = {}
        for n in cfg.nodes:
            if n.kind == "stmt" and isinstance(n.ast, ast.Raise) and exc_name(n.ast.exc) in ("TargetSuccess", "FeasibleSuccess"):
                ctxs = enclosing_context(n.ast, f.node)
                tests = [cfg.node_of(x[2]) for x in ctxs if x[0] in ("if-true", "if-false")]
                if tests:
                    # nested ifs spell a conjunction: the stop test starts at the
                    # outermost enclosing test that still examines the result
                    # of this evaluation
                    rd = cfg.reaching_defs()
                    g0 = tests[0]
                    for t_ in tests[1:]:
                        tn = cfg.nodes[t_]
                        names_ = [x.id for x in ast.walk(tn.expr()) if isinstance(x, ast.Name) and isinstance(x.ctx, ast.Load)]
                        dep = False
                        for nm in names_:
                            ds = rd.get(t_, {}).get(nm)
                            if ds and cfg.entry not in ds and all(cfg.dominates(c, d) for d in ds):
                                dep = True
                        if dep:
                            g0 = t_
                        else:
                            break
                    guards.setdefault(exc_name(n.ast.exc), set()).add(g0)
        for cls in ("TargetSuccess", "FeasibleSuccess"):
            desc = f"{f.local}:{ev.line} evaluation followed by the {cls} test"
            if cls not in guards:
                rep.bad("R9.2", desc)
                rep.finding("R9.2", f, f"{ev.text()[:50]} / no {cls} test", ev.line, f"the function evaluates the problem but never tests for {cls}")
                continue
            g = guards[cls]
            ok, why = _tests_follow(ctx, f, cfg, c, g, ucr, pruned, sites)
            if ok:
                rep.ok("R9.2", desc)
            else:
                rep.bad("R9.2", desc)
                rep.finding("R9.2", f, f"{ev.text()[:50]} -> {cls} test", ev.line, f"the {cls} test does not follow this evaluation on every path: {why}")


def _tests_follow(ctx, f, cfg, c, guards, ucr, pruned, sites):
    """BFS from the evaluation node c; every path must hit a guard node before
    reaching the function exit, c again, another evaluation, or user code."""
    evs = events_reaching_user_code(ctx, f, ucr, pruned)
    bad_nodes = {}
    for e in evs:
        nid = cfg.node_containing(e.node)
        if nid is not None and nid != c:
            bad_nodes[nid] = e
    re = reaches_eval(ctx)
    for e in ctx.events(f):
        if e.kind == "call" and any(t.kind == "repo" and t.name in re for t in e.targets) and not ctx.facts.live.is_dead(e) and id(e.node) not in pruned:
            nid = cfg.node_containing(e.node)
            if nid is not None and nid != c:
                bad_nodes.setdefault(nid, e)
    loop_body = {}
    for n in cfg.nodes:
        if n.kind == "for":
            loop_body[n.id] = {cfg.by_ast[id(s)] for s in ast.walk(n.ast) if id(s) in cfg.by_ast and s is not n.ast}
    seen = set()
    st = [(c, b, l, frozenset()) for b, l in cfg.succ[c] if l not in ("exc", "raise")]
    while st:
        u, v, lab, first = st.pop()
        if (u, v, first) in seen:
            continue
        seen.add((u, v, first))
        if v in guards:
            continue
        if v == cfg.exit:
            return False, "a path returns from the function without the test"
        if v == c:
            return False, "a path comes back to the evaluation without the test"
        if v in bad_nodes:
            return False, f"`{bad_nodes[v].text()[:50]}` (line {bad_nodes[v].line}) can run before the test"
        node = cfg.nodes[v]
        if node.kind == "stmt" and isinstance(node.ast, ast.Raise):
            if exc_name(node.ast.exc) in ("MaxEvalError",):
                return False, f"the budget test at line {node.line} can end the run before the stopping tests of this evaluation are made"
            continue
        if node.kind == "for":
            entering = u not in loop_body.get(v, ())
            it = node.ast.iter
            zero_based = isinstance(it, ast.Call) and getattr(it.func, "id", None) == "range" and len(it.args) == 1 and isinstance(node.ast.target, ast.Name)
            if entering and zero_based:
                first = first | {(v, node.ast.target.id)}
            elif not entering:
                first = frozenset(x for x in first if x[0] != v)
        decided = None
        if node.kind == "test" and first:
            decided = _eval_first_iter(node.ast.test, {name: 0 for _, name in first})
        for b, l in cfg.succ[v]:
            if l in ("exc", "raise"):
                continue
            # a for loop over a validated positive count is entered at least once
            if node.kind == "for" and l == "exit" and u not in loop_body.get(v, ()):
                continue
            if decided is True and l == "false":
                continue
            if decided is False and l == "true":
                continue
            st.append((v, b, l, first))
    return True, ""


def _eval_first_iter(test, env):
    """Decide `k <op> const` tests with the loop index known to be 0."""
    from ..astutil import const_value, cmp_op_str
    if isinstance(test, ast.Compare) and len(test.ops) == 1 and isinstance(test.comparators[0], ast.Name) and test.comparators[0].id in env and not (isinstance(test.left, ast.Name) and test.left.id in env):
        # mirrored spelling  N <= k  ==  k >= N
        flip = {ast.Lt: ast.Gt, ast.LtE: ast.GtE, ast.Gt: ast.Lt, ast.GtE: ast.LtE, ast.Eq: ast.Eq, ast.NotEq: ast.NotEq}.get(type(test.ops[0]))
        if flip is not None:
            test = ast.Compare(left=test.comparators[0], ops=[flip()], comparators=[test.left])
    if isinstance(test, ast.Compare) and len(test.ops) == 1 and isinstance(test.left, ast.Name) and test.left.id in env:
        cv = const_value(test.comparators[0])
        # validated positive integer budgets / counts: index 0 is below them
        if cv is None and mentions(test.comparators[0], "MAX_EVAL", "maxfev", "NPT", "nb_points") and isinstance(test.comparators[0], ast.Subscript) and env[test.left.id] == 0:
            return {"==": False, "!=": True, "<": True, "<=": True, ">": False, ">=": False}.get(cmp_op_str(test.ops[0]))
        if isinstance(cv, (int, float)):
            a = env[test.left.id]
            return {"==": a == cv, "!=": a != cv, "<": a < cv, "<=": a <= cv, ">": a > cv, ">=": a >= cv}.get(cmp_op_str(test.ops[0]))
    return None


def r93(ctx, rep):
    E = ctx.func(T.EVAL)
    exc = ctx.facts.exc
    exc.check(E.qual)
    raised = exc.raises[E.qual]
    if "StopIteration" in raised:
        rep.bad("R9.3", "raw StopIteration leaves the evaluation routine")
        rep.finding("R9.3", E, "StopIteration escapes", raised["StopIteration"][0][1],
                    "a StopIteration raised by the callback is not translated to CallbackSuccess inside the evaluation routine",
                    witness=exc.fmt_witness(raised["StopIteration"]))
    else:
        rep.ok("R9.3", "raw StopIteration does not leave the evaluation routine")
    if "CallbackSuccess" not in raised:
        rep.bad("R9.3", "CallbackSuccess raised")
        rep.finding("R9.3", E, "no CallbackSuccess", E.node.lineno, "the evaluation routine never signals the callback's stop request (CallbackSuccess is not raised)")
    else:
        rep.ok("R9.3", "CallbackSuccess leaves the evaluation routine")
    # every raise CallbackSuccess is the first statement of a StopIteration handler
    n = 0
    for f in ctx.repo.funcs.values():
        for node in ast.walk(f.node):
            if isinstance(node, ast.Raise) and exc_name(node.exc) == "CallbackSuccess":
                n += 1
                h = getattr(node, "_parent", None)
                desc = f"{f.local}:{node.lineno} raise CallbackSuccess"
                good = isinstance(h, ast.ExceptHandler) and (handler_classes(h) or []) == ["StopIteration"] and h.body[0] is node
                if good:
                    tr = getattr(h, "_parent", None)
                    has_cb = False
                    for ev in ctx.events(f):
                        if any(t.name == "UserCb" for t in ev.sink_targets()):
                            cur = ev.node
                            while cur is not None:
                                if isinstance(tr, ast.Try) and any(cur is s for s in tr.body):
                                    has_cb = True
                                cur = getattr(cur, "_parent", None)
                    if has_cb:
                        rep.ok("R9.4", desc + " - first statement of the StopIteration handler around the callback call")
                        continue
                rep.bad("R9.4", desc)
                rep.finding("R9.4", f, norm(node), node.lineno, "CallbackSuccess is raised outside the handler that catches the callback's StopIteration (status 3 could be reported without the callback asking to stop)")
    if n < 1:
        raise AnalysisError("no raise CallbackSuccess found")


def r95(ctx, rep):
    E = ctx.func(T.EVAL)
    fields = {x for x in counter_chain(ctx) if x[0] != "<external>"}
    sites = increment_sites(ctx, fields)
    cfg = ctx.cfg(E)
    cbs = [ev for ev in ctx.events(E) if any(t.name == "UserCb" for t in ev.sink_targets())]
    if not cbs:
        raise AnalysisError("no callback call in the evaluation routine")
    inc_nodes = []
    for f, node in sites:
        if f.qual == E.qual:
            inc_nodes.append(cfg.node_of(node))
        else:
            # increment inside a callee: the call event in E
            for ev in ctx.events(E):
                if any(t.kind == "repo" and t.name == f.qual for t in ev.targets):
                    inc_nodes.append(cfg.node_containing(ev.node))
    for ev in cbs:
        nid = cfg.node_containing(ev.node)
        desc = f"{E.local}:{ev.line} callback call preceded by the counter increment"
        if any(i is not None and cfg.dominates(i, nid) for i in inc_nodes):
            rep.ok("R9.5", desc)
        else:
            rep.bad("R9.5", desc)
            rep.finding("R9.5", E, ev.text(), ev.line, "the callback can stop the run before the evaluation has been counted: nfev would not be the index of the triggering evaluation")
