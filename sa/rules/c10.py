"""C10 - equivalent statements of a problem are solved identically.  Claimed:
the third sentence only (the solver's linear residuals equal the user's at
the corresponding point), as transform-pair agreement; trajectory equality of
paired runs is not a property of program shape and is not decided.

R10.1 the elimination of fixed variables, the scaling of the linear system,
      the rescaling of x0 and the point map of build_x are mutually consistent
      affine transforms: A' = A[:, ~F], b' = b - A[:, F] @ v (same A, matching
      b, complementary masks, v = the value build_x stores under F);
      A'' = A' @ diag(f), b'' = b' - A' @ s with A', b' of the *reduced*
      system; build_x maps x -> x*f + s; x0'' = (x0' - s)/f; f, s = half-width
      and midpoint of the reduced bounds, scaled bounds = [-1, 1].
R10.2 every way of stating bounds / constraints is normalised to one internal
      form: dict constraints become NonlinearConstraint objects whose wrapper
      binds function and args at creation; both branches of _get_bounds build
      Bounds(lower, upper).
"""
from __future__ import annotations

import ast

from ..astutil import norm, dotted, const_value
from ..loader import AnalysisError
from ..affine import affine, NotAffine
from .. import tables as T
from . import common
from .c07 import mentions, _cmp_parts, enclosing_context

PINIT = "cobyqa.problem:Problem.__init__"


def _short(e):
    if isinstance(e, ast.Call):
        d = dotted(e.func)
        return d.split(".")[-1] if d else None
    return None


class Expander:
    """Expand local names through their reaching definitions (sole Assign)."""

    def __init__(self, ctx, f):
        self.cfg = ctx.cfg(f)
        self.rd = self.cfg.reaching_defs()

    def expand(self, e, at):
        if isinstance(e, ast.Name):
            nid = self.cfg.node_containing(at)
            defs = self.rd.get(nid, {}).get(e.id, ()) if nid is not None else ()
            defs = [d for d in defs if d != self.cfg.entry]
            if len(defs) == 1:
                s = self.cfg.nodes[defs[0]].ast
                if isinstance(s, ast.Assign) and len(s.targets) == 1 and isinstance(s.targets[0], ast.Name):
                    return s.value, s
        return e, at


def match_rhs(e):
    """b - M @ v  ->  dict(vec=b expr, mat=M expr, v=v expr)"""
    if isinstance(e, ast.BinOp) and isinstance(e.op, ast.Sub) and isinstance(e.right, ast.BinOp) and isinstance(e.right.op, ast.MatMult):
        return {"vec": e.left, "mat": e.right.left, "v": e.right.right}
    return None


def split_attr(e):
    """obj.attr -> (obj text, attr)"""
    if isinstance(e, ast.Attribute):
        return norm(e.value), e.attr
    return None, None


def col_mask(e):
    """M[:, mask] -> (M expr, mask text)"""
    if isinstance(e, ast.Subscript) and isinstance(e.slice, ast.Tuple) and len(e.slice.elts) == 2 and isinstance(e.slice.elts[0], ast.Slice):
        return e.value, norm(e.slice.elts[1])
    return None, None


def run(ctx, rep, r1="R10.1", r2="R10.2", only_transform=False):
    rep.rule(r1, "fixed-variable elimination, scaling of the linear system, x0 rescaling and build_x are mutually consistent affine transforms with complementary masks")
    if not only_transform:
        rep.rule(r2, "bounds and constraints are normalised to one internal form whatever way they are stated")
    f = ctx.func(PINIT)
    bx = ctx.func(T.BUILD_X)
    from ..inline import expander
    inl = expander(ctx, f)
    inl_bx = expander(ctx, bx)

    class _Ex:
        def expand(self, e, at):
            return inl.expand(e, at), at
    ex = _Ex()
    # the LinearConstraints(...) constructions of the reduced and of the scaled system
    builds = []
    for node in ast.walk(f.node):
        if isinstance(node, ast.Assign) and any(isinstance(t, ast.Attribute) and t.attr == "_linear" for t in node.targets) and isinstance(node.value, ast.Call):
            v = node.value
            lst = v.args[0] if v.args else next((k.value for k in v.keywords if k.arg == "constraints"), None)
            if isinstance(lst, (ast.List, ast.Tuple)):
                builds.append((node, lst.elts))
    if len(builds) != 2:
        raise AnalysisError(f"Problem.__init__: {len(builds)} constructions of the internal linear system found (expected reduced + scaled)")
    # the reduced system is (re)built from the cleaned user system on every path: it is also
    # what drops NaN rows / coefficients, with or without fixed variables
    first = sorted(builds, key=lambda b: b[0].lineno)[0][0]
    conds = [c for c in enclosing_context(first, f.node) if c[0] in ("if-true", "if-false")]
    if conds:
        rep.bad(r1, "reduced system built unconditionally")
        rep.finding(r1, f, norm(first)[:100], first.lineno,
                    f"the internal linear system is only rebuilt under `{norm(conds[0][1])[:60]}`: on the other paths the solver keeps the user's raw constraint objects (NaN limits / coefficients not neutralised, violation computed from them)")
    else:
        rep.ok(r1, f"{f.local}:{first.lineno} the reduced linear system is built on every path")
    builds.sort(key=lambda b: b[0].lineno)
    fixed_mask = "self._fixed_idx"
    stage_info = {}
    for stage, (node, elts) in zip(("reduced", "scaled"), builds):
        if len(elts) != 2:
            rep.bad(r1, f"{stage} system")
            rep.finding(r1, f, f"{stage} system with {len(elts)} blocks", node.lineno, "the internal linear system must consist of one inequality and one equality block")
            continue
        for kind, c in zip(("ub", "eq"), elts):
            desc = f"{f.local}:{c.lineno} {stage} {kind} block"
            if not (_short(c) == "LinearConstraint" and len(c.args) == 3):
                rep.bad(r1, desc)
                rep.finding(r1, f, norm(c)[:100], c.lineno, "block is not LinearConstraint(A, lb, ub)")
                continue
            A, lb, ub = c.args
            A = inl.expand(A, c)
            probs = []
            if kind == "ub":
                if norm(lb).replace(" ", "") not in ("-np.inf", "-numpy.inf"):
                    probs.append(f"lower limit of the inequality block is `{norm(lb)}` instead of -inf")
                rhs_e, rhs_at = ex.expand(ub, c)
            else:
                if norm(inl.expand(lb, c)) != norm(inl.expand(ub, c)):
                    probs.append(f"equality block with different limits `{norm(lb)}` / `{norm(ub)}`")
                rhs_e, rhs_at = ex.expand(ub, c)
            m = match_rhs(rhs_e)
            if m is None:
                probs.append(f"right-hand side `{norm(rhs_e)[:60]}` is not of the form b - M @ v")
            else:
                vobj, vattr = split_attr(m["vec"])
                if stage == "reduced":
                    M, mask = col_mask(m["mat"])
                    mobj, mattr = split_attr(M) if M is not None else (None, None)
                    A_M, A_mask = col_mask(A)
                    aobj, aattr = split_attr(A_M) if A_M is not None else (None, None)
                    if M is None:
                        probs.append(f"`{norm(m['mat'])}` does not select the fixed columns")
                    else:
                        if mask != fixed_mask:
                            probs.append(f"the columns moved to the right-hand side are `{mask}`, not the fixed ones")
                        if A_mask != "~" + fixed_mask:
                            probs.append(f"the matrix keeps columns `{A_mask}`, not the free ones (~{fixed_mask})")
                        if (aobj, aattr) != (mobj, mattr):
                            probs.append(f"the matrix is `{aobj}.{aattr}` but the eliminated columns are taken from `{mobj}.{mattr}`")
                        if mattr != "a_" + kind:
                            probs.append(f"the {kind} block is built from `{mattr}`")
                        if (vobj, vattr) != (mobj, "b_" + kind):
                            probs.append(f"right-hand side starts from `{vobj}.{vattr}` but the matrix is `{mobj}.{mattr}` (must be b_{kind} of the same object)")
                        if mobj != "linear":
                            probs.append(f"the reduced system must be derived from the user's system `linear`, not `{mobj}`")
                    if norm(m["v"]) != "self._fixed_val":
                        probs.append(f"eliminated columns are multiplied by `{norm(m['v'])}`, but build_x puts `self._fixed_val` into the fixed variables")
                else:
                    mobj, mattr = split_attr(m["mat"])
                    # A'' = A' @ diag(f)
                    if not (isinstance(A, ast.BinOp) and isinstance(A.op, ast.MatMult) and _short(A.right) == "diag" and norm(A.right.args[0]) == "self._scaling_factor"):
                        probs.append(f"scaled matrix `{norm(A)[:50]}` is not A' @ diag(self._scaling_factor)")
                    else:
                        aobj, aattr = split_attr(A.left)
                        if (aobj, aattr) != (mobj, mattr):
                            probs.append(f"scaled matrix uses `{aobj}.{aattr}` but the shift is applied with `{mobj}.{mattr}`")
                    if mattr != "a_" + kind:
                        probs.append(f"the {kind} block is built from `{mattr}`")
                    if (vobj, vattr) != (mobj, "b_" + kind):
                        probs.append(f"right-hand side starts from `{vobj}.{vattr}` but the matrix is `{mobj}.{mattr}` (must be b_{kind} of the same, reduced, object)")
                    if mobj != "self._linear":
                        probs.append(f"the scaled system must be derived from the reduced system `self._linear`, not `{mobj}`")
                    if norm(m["v"]) != "self._scaling_shift":
                        probs.append(f"the right-hand side is shifted with `{norm(m['v'])}`; build_x adds `self._scaling_shift`")
            if probs:
                rep.bad(r1, desc)
                rep.finding(r1, f, f"{stage} {kind}: " + "; ".join(probs)[:140], c.lineno,
                            f"the {stage} {kind} block is not the user's constraint expressed in the solver's variables: " + "; ".join(probs))
            else:
                rep.ok(r1, desc + f": A = {norm(A)[:40]}, b = {norm(rhs_e)[:60]}")
    # build_x: x_full[F] = v ; x_full[~F] = x*f + s
    free = None
    for node in ast.walk(bx.node):
        if isinstance(node, ast.Assign) and isinstance(node.targets[0], ast.Subscript):
            m = norm(inl_bx.expand(node.targets[0].slice, node))
            if m == "~" + fixed_mask:
                free = inl_bx.expand(node.value, node)
    if free is None:
        raise AnalysisError("build_x: store under the free mask not found")
    xparam = bx.params[1]

    def sym(n):
        t = norm(n)
        if t == xparam:
            return None
        return None
    try:
        # x*f + s as a polynomial in symbols x, f, s : check structurally
        ok = isinstance(free, ast.BinOp) and isinstance(free.op, ast.Add)
        mult = free.left if ok and isinstance(free.left, ast.BinOp) and isinstance(free.left.op, ast.Mult) else (free.right if ok and isinstance(free.right, ast.BinOp) and isinstance(free.right.op, ast.Mult) else None)
        other = (free.right if mult is free.left else free.left) if mult is not None else None
        ok = mult is not None and {norm(mult.left), norm(mult.right)} == {xparam, "self._scaling_factor"} and norm(other) == "self._scaling_shift"
    except Exception:
        ok = False
    if ok:
        rep.ok(r1, f"build_x: free variables = {xparam} * scaling_factor + scaling_shift")
    else:
        rep.bad(r1, "build_x point map")
        rep.finding(r1, bx, norm(free)[:100], bx.node.lineno, "build_x does not map the reduced point as x * scaling_factor + scaling_shift (the map the scaled linear system assumes)")
    # x0 rescaling = inverse of the point map; factor/shift definitions
    defs = {}
    for node in ast.walk(f.node):
        if isinstance(node, ast.Assign) and len(node.targets) == 1 and isinstance(node.targets[0], ast.Attribute) and node.targets[0].attr in ("_scaling_factor", "_scaling_shift"):
            defs.setdefault(node.targets[0].attr, []).append(node)

    def symb(n):
        t = norm(n)
        if t in ("self._bounds.xu", "self.bounds.xu"):
            return "xu"
        if t in ("self._bounds.xl", "self.bounds.xl"):
            return "xl"
        return None

    for attr, want, label in (("_scaling_factor", {"xu": 0.5, "xl": -0.5}, "half-width"), ("_scaling_shift", {"xu": 0.5, "xl": 0.5}, "midpoint")):
        nodes = sorted(defs.get(attr, []), key=lambda n: n.lineno)
        if len(nodes) != 2:
            rep.bad(r1, f"{attr} definitions")
            rep.finding(r1, f, f"{attr}", f.node.lineno, f"`{attr}` must be defined once in the scaling branch and once (identity) otherwise")
            continue
        first, second = nodes
        try:
            co = affine(inl.expand(first.value, first), symb)
            co = {k: v for k, v in co.items() if v != 0.0}
            good = co == want
        except NotAffine:
            good = False
        if good:
            rep.ok(r1, f"{f.local}:{first.lineno} {attr} = {label} of the reduced bounds")
        else:
            rep.bad(r1, f"{attr}")
            rep.finding(r1, f, norm(first)[:100], first.lineno, f"`{attr}` is not the {label} of the reduced bounds (scaled box [-1, 1] would not map onto [xl, xu])")
        ident = _short(second.value) == ("ones" if attr == "_scaling_factor" else "zeros")
        if ident:
            rep.ok(r1, f"{f.local}:{second.lineno} {attr} = identity without scaling")
        else:
            rep.bad(r1, f"{attr} identity")
            rep.finding(r1, f, norm(second)[:100], second.lineno, f"without scaling `{attr}` must be the identity transform")
    # scaled bounds are [-1, 1]
    okb = False
    for node in ast.walk(f.node):
        if isinstance(node, ast.Assign) and any(isinstance(t, ast.Attribute) and t.attr == "_bounds" for t in node.targets):
            for sub in ast.walk(node.value):
                if _short(sub) == "Bounds" and len(sub.args) == 2:
                    a, b = sub.args
                    if isinstance(a, ast.UnaryOp) and isinstance(a.op, ast.USub) and _short(a.operand) == "ones" and _short(b) == "ones":
                        okb = True
    if okb:
        rep.ok(r1, "scaled bounds are [-1, 1]^n")
    else:
        rep.bad(r1, "scaled bounds")
        rep.finding(r1, f, "Bounds(-ones, ones)", f.node.lineno, "with scaling the internal bounds must be [-1, 1]^n (the image of [xl, xu] under the inverse point map)")
    # scaling is applied only to a feasible box with finite lower AND upper bounds
    sc = None
    for node in ast.walk(f.node):
        if isinstance(node, ast.Assign) and any(isinstance(t, ast.Name) and t.id == "scale" for t in node.targets) and isinstance(node.value, ast.BoolOp):
            sc = node
    if sc is None:
        raise AnalysisError("Problem.__init__: the guard of the scaling branch was not found")
    conj = [norm(v).replace(" ", "") for v in sc.value.values]
    need = {"lower": any("isfinite" in c and ".xl" in c for c in conj), "upper": any("isfinite" in c and ".xu" in c for c in conj), "feasible": any("is_feasible" in c for c in conj)}
    if isinstance(sc.value.op, ast.And) and all(need.values()):
        rep.ok(r1, f"{f.local}:{sc.lineno} scaling only for a feasible box with finite lower and upper bounds")
    else:
        rep.bad(r1, "scaling guard")
        rep.finding(r1, f, norm(sc)[:160], sc.lineno, f"the scaling guard does not require {[k for k, v in need.items() if not v] or 'a conjunction'}: with an infinite bound the scaling factor/shift are infinite and the internal x0 becomes NaN")
    # (x0 - s)/f checked in C01 R1.5; re-check here for the claim's completeness
    okx = False
    for node in ast.walk(f.node):
        if isinstance(node, ast.Assign) and any(isinstance(t, ast.Attribute) and t.attr == "_x0" for t in node.targets):
            v = inl.expand(node.value, node)
            if isinstance(v, ast.BinOp) and isinstance(v.op, ast.Div) and norm(v.right) == "self._scaling_factor" and isinstance(v.left, ast.BinOp) and isinstance(v.left.op, ast.Sub) and norm(v.left.right) == "self._scaling_shift" and norm(v.left.left) == "self._x0":
                okx = True
    if okx:
        rep.ok(r1, "x0 is rescaled with the inverse point map (x0 - shift) / factor")
    else:
        rep.bad(r1, "x0 rescale")
        rep.finding(r1, f, "x0 rescaling", f.node.lineno, "x0 is not rescaled with the inverse of the build_x point map")
    # reduced bounds / x0 use the complement of the fixed mask
    for node in ast.walk(f.node):
        if isinstance(node, ast.Assign) and any(isinstance(t, ast.Attribute) and t.attr in ("_bounds", "_x0") for t in node.targets):
            for sub in ast.walk(inl.expand(node.value, node)):
                if isinstance(sub, ast.Subscript) and mentions(sub.slice, "_fixed_idx"):
                    if norm(sub.slice) == "~" + fixed_mask:
                        rep.ok(r1, f"{f.local}:{node.lineno} `{norm(sub)[:40]}` keeps the free variables")
                    else:
                        rep.bad(r1, "free mask")
                        rep.finding(r1, f, norm(sub), node.lineno, "the reduced bounds / x0 are not restricted to the free variables")
    if only_transform:
        return
    from ..report import Renamed
    rep.rule("R10.3", "the n-dependent defaults and the nb_points bound use the dimension of the reduced problem (see C19 R19.7); violations are evaluated in the space of their system (see C02 R2.5)")
    from . import c19
    c19.r197(ctx, Renamed(rep, to="R10.3"), ctx.func(c19.OPT_FUNC), ctx.func(T.MINIMIZE))
    from .. import spaces
    spaces.check_reduced_operands(ctx, Renamed(rep, to="R10.3"), "R10.3")
    rep.rule("R10.4", "regrouping linear constraints does not lose rows: the inequality and equality blocks of LinearConstraints are built under independent guards (see C17 R17.1)")
    from . import c17
    c17.r171(ctx, Renamed(rep, to="R10.4"))
    c17.r172(ctx, Renamed(rep, to="R10.4"))
    # ---- R10.2 -----------------------------------------------------------------
    from .c08 import r84
    r84(ctx, rep, rule=r2)
    common.check_closure_capture(ctx, rep, r2)
    gb = ctx.func("cobyqa.main:_get_bounds")
    n = 0
    inl_gb = expander(ctx, gb)
    for node in ast.walk(gb.node):
        if isinstance(node, ast.Return) and _short(node.value) == "Bounds":
            n += 1
            a = [norm(inl_gb.expand(x, node)).replace(" ", "") for x in node.value.args]
            good = False
            if len(a) == 2:
                if a[0].endswith(".lb") and a[1].endswith(".ub"):
                    good = True
                if a[0].endswith("[:,0]") and a[1].endswith("[:,1]"):
                    good = True
                if "-np.inf" in a[0] and "np.inf" in a[1] and "-np.inf" not in a[1]:
                    good = True
            if good:
                rep.ok(r2, f"{gb.local}:{node.lineno} Bounds({', '.join(a)})")
            else:
                rep.bad(r2, "bounds normalisation")
                rep.finding(r2, gb, norm(node)[:100], node.lineno, "this way of stating the bounds is not normalised to Bounds(lower, upper)")
    if n < 3:
        raise AnalysisError("_get_bounds: fewer than 3 Bounds(...) returns")


# ---------------------------------------------------------------------------
def r105(ctx, rep, rule="R10.5"):
    """dict constraints: {'type': 'eq'} is fun(x) = 0, {'type': 'ineq'} is
    fun(x) >= 0 (scipy's convention): the NonlinearConstraint built for it has
    lb = 0 and ub = 0 for 'eq', ub = +inf for 'ineq'."""
    f = ctx.func("cobyqa.main:_get_constraints")
    found = 0
    for node in ast.walk(f.node):
        if not (isinstance(node, ast.Call) and (dotted(node.func) or "").split(".")[-1] == "NonlinearConstraint" and len(node.args) + len(node.keywords) >= 3):
            continue
        args = list(node.args) + [None] * 3
        lb = args[1] if args[1] is not None else next((k.value for k in node.keywords if k.arg == "lb"), None)
        ub = args[2] if args[2] is not None else next((k.value for k in node.keywords if k.arg == "ub"), None)
        if lb is None or ub is None:
            continue
        # only the construction that depends on the dict's 'type'
        if not any(isinstance(x, ast.Constant) and x.value in ("eq", "ineq") for x in ast.walk(node)):
            # the type may be tested by an enclosing if
            ctxs = [c for c in enclosing_context(node, f.node) if c[0] in ("if-true", "if-false") and any(isinstance(x, ast.Constant) and x.value in ("eq", "ineq") for x in ast.walk(c[1]))]
            if not ctxs:
                continue
            kind, test, _n = ctxs[0]
            p = _cmp_parts(test)
            if not (p and isinstance(p[2], ast.Constant) and p[1] in ("==", "!=")):
                raise AnalysisError(f"_get_constraints:{node.lineno} test of the dict constraint type has an unfamiliar shape")
            is_eq = (p[2].value == "eq") == ((p[1] == "==") == (kind == "if-true"))
            found += 1
            desc = f"_get_constraints:{node.lineno} dict constraint of type {'eq' if is_eq else 'ineq'} -> NonlinearConstraint(fun, {norm(lb)}, {norm(ub)})"
            good = const_value(lb) == 0.0 and ((is_eq and const_value(ub) == 0.0) or (not is_eq and norm(ub).replace(" ", "") in ("np.inf", "numpy.inf", "inf", "float('inf')")))
            if good:
                rep.ok(rule, desc)
            else:
                rep.bad(rule, desc)
                rep.finding(rule, f, norm(node)[:120], node.lineno, "a dict constraint is not translated as scipy defines it ('eq': fun(x) = 0, 'ineq': fun(x) >= 0)")
            continue
        found += 1
        desc = f"_get_constraints:{node.lineno} dict constraint -> NonlinearConstraint(fun, {norm(lb)}, {norm(ub)[:50]})"
        good = const_value(lb) == 0.0
        if isinstance(ub, ast.IfExp):
            p = _cmp_parts(ub.test)
            if p and isinstance(p[2], ast.Constant) and p[2].value in ("eq", "ineq") and p[1] in ("==", "!="):
                eq_branch, other = (ub.body, ub.orelse) if (p[2].value == "eq") == (p[1] == "==") else (ub.orelse, ub.body)
                good = good and const_value(eq_branch) == 0.0 and norm(other).replace(" ", "") in ("np.inf", "numpy.inf", "inf")
            else:
                raise AnalysisError(f"_get_constraints:{node.lineno} test of the dict constraint type has an unfamiliar shape")
        else:
            raise AnalysisError(f"_get_constraints:{node.lineno} upper limit of a dict constraint has an unfamiliar shape")
        if good:
            rep.ok(rule, desc + " ('eq' -> 0, 'ineq' -> +inf)")
        else:
            rep.bad(rule, desc)
            rep.finding(rule, f, norm(node)[:140], node.lineno, "a dict constraint is not translated as scipy defines it ('eq': fun(x) = 0, i.e. lb = ub = 0; 'ineq': fun(x) >= 0, i.e. lb = 0, ub = +inf)")
    if found < 1:
        raise AnalysisError("_get_constraints: construction of a NonlinearConstraint from a dict constraint not found")
    # duplicated operands in the validation code of the front door (copy/paste slips
    # that make a test check the same thing twice)
    k = common.check_duplicate_operands(ctx, rep, rule, ["cobyqa.main:_get_bounds", "cobyqa.main:_get_constraints", "cobyqa.problem:Problem.__init__"])
    if k < 3:
        raise AnalysisError("front-door validation conditions not found")


_old_run10 = run


def run(ctx, rep, r1="R10.1", r2="R10.2", only_transform=False):  # noqa: F811
    _old_run10(ctx, rep, r1=r1, r2=r2, only_transform=only_transform)
    if not only_transform:
        rep.rule("R10.5", "dict constraints are translated with scipy's convention ('eq': = 0, 'ineq': >= 0); front-door validation tests do not test the same operand twice")
        r105(ctx, rep)
