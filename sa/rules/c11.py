"""C11 - minimize is deterministic, leaves its arguments untouched and is
re-entrant.  Effect / purity analysis.

R11.1 no shared mutable state: no global/nonlocal, no store or mutating call
      on a module-level object, class attribute, function attribute or
      mutable default argument, no memoising decorator, no process-global
      setter.  Expected count 0 -> a synthetic positive control (the 1.1.2
      module-level cache) must be flagged on every run.
R11.2 no nondeterminism source (random, time, uuid, id/hash, set iteration,
      threads/processes).
R11.3 caller-owned objects are not written: interprocedural ownership
      analysis from the parameters of minimize; every in-place write site of
      the package must target an object that cannot alias them.
R11.4 the factorisation cache is per interpolation set: only build_system and
      Interpolation.__init__ write it, as an attribute of the interpolation
      object, and the cached key is a copy.
"""
from __future__ import annotations

import ast

from ..astutil import norm, dotted
from ..loader import AnalysisError, Repo
from .. import tables as T
from ..ownership import Ownership, MUTATING_METHODS

GLOBAL_SETTERS = {
    "seterr", "seterrcall", "set_printoptions", "setbufsize", "simplefilter", "filterwarnings", "resetwarnings",
    "setrecursionlimit", "setlocale", "seed", "set_state", "setswitchinterval", "putenv", "chdir", "umask",
    "set_string_function", "setdefaulttimeout",
}
NONDET_MODULES = {"random", "time", "datetime", "uuid", "secrets", "threading", "multiprocessing", "concurrent", "asyncio", "socket", "tempfile"}
NONDET_CALLS = {"urandom", "getpid", "getrandbits", "default_rng", "RandomState", "perf_counter", "monotonic", "time_ns", "now", "today"}
MEMO_DECORATORS = {"cache", "lru_cache", "cached_property", "memoize"}

CONTROL = '''
import numpy as np
_cache = {"xpt": None, "a": None}
_seen = []
class Holder:
    registry = {}
    def put(self, k, v):
        Holder.registry[k] = v
def build(xpt, log=[]):
    global _calls
    _calls = 1
    if _cache["xpt"] is not None and np.array_equal(xpt, _cache["xpt"]):
        return _cache["a"]
    a = xpt @ xpt.T
    _cache["xpt"] = np.copy(xpt)
    _cache["a"] = a
    _seen.append(1)
    log.append(2)
    build.count = 3
    np.seterr(all="ignore")
    return a
'''


def scan_shared_state(mod_name, tree, report):
    """report(kind, node, text, message)"""
    mod_names = set()
    imported = set()
    for node in tree.body:
        if isinstance(node, ast.Assign):
            for t in node.targets:
                for n in ast.walk(t):
                    if isinstance(n, ast.Name):
                        mod_names.add(n.id)
        elif isinstance(node, (ast.Import, ast.ImportFrom)):
            for al in node.names:
                imported.add((al.asname or al.name).split(".")[0])
        elif isinstance(node, (ast.FunctionDef, ast.ClassDef)):
            mod_names.add(node.name)
    classes = {n.name: n for n in tree.body if isinstance(n, ast.ClassDef)}
    funcs = [n for n in ast.walk(tree) if isinstance(n, (ast.FunctionDef, ast.AsyncFunctionDef))]
    for fn in funcs:
        a = fn.args
        params = {x.arg for x in a.posonlyargs + a.args + a.kwonlyargs}
        if a.vararg:
            params.add(a.vararg.arg)
        if a.kwarg:
            params.add(a.kwarg.arg)
        local = set(params)
        declared_global = set()
        for node in ast.walk(fn):
            if isinstance(node, (ast.Global, ast.Nonlocal)):
                declared_global |= set(node.names)
                report("global", node, norm(node), f"`{norm(node)}`: the function rebinds a module-level / enclosing variable")
            if isinstance(node, ast.Name) and isinstance(node.ctx, ast.Store):
                local.add(node.id)
            if isinstance(node, (ast.For, ast.comprehension)):
                for n in ast.walk(node.target):
                    if isinstance(n, ast.Name):
                        local.add(n.id)
            if isinstance(node, ast.ExceptHandler) and node.name:
                local.add(node.name)
            if isinstance(node, ast.With):
                for it in node.items:
                    if it.optional_vars is not None:
                        for n in ast.walk(it.optional_vars):
                            if isinstance(n, ast.Name):
                                local.add(n.id)
        local -= declared_global
        # mutable default arguments
        for d in list(a.defaults) + [x for x in a.kw_defaults if x is not None]:
            if isinstance(d, (ast.List, ast.Dict, ast.Set)) or (isinstance(d, ast.Call) and (dotted(d.func) or "") in ("list", "dict", "set", "np.zeros", "np.empty", "np.array")):
                report("mutable-default", d, norm(d), f"mutable default argument `{norm(d)}` in {fn.name}: shared between calls")
        for dec in fn.decorator_list:
            dn = (dotted(dec.func if isinstance(dec, ast.Call) else dec) or "").split(".")[-1]
            if dn in MEMO_DECORATORS:
                report("memo", dec, norm(dec), f"`@{norm(dec)}` on {fn.name} keeps results between calls")

        def is_shared_base(e):
            """expression denotes a module-level object / class attribute /
            function attribute"""
            base = e
            chain = []
            while isinstance(base, (ast.Attribute, ast.Subscript)):
                chain.append(base)
                base = base.value
            if isinstance(base, ast.Call):
                d = dotted(base.func) or ""
                if d in ("type",) or d.endswith("__class__"):
                    return "class attribute via type(...)"
                return None
            if not isinstance(base, ast.Name):
                return None
            nm = base.id
            if nm in local:
                # self.__class__.x / cls.x
                for c in chain:
                    if isinstance(c, ast.Attribute) and c.attr == "__class__":
                        return "class attribute via __class__"
                if nm == "cls" and chain:
                    return "class attribute via cls"
                return None
            if nm in classes or nm in mod_names or nm in declared_global:
                return f"module-level object `{nm}`"
            if nm in imported:
                return f"imported object `{nm}`"
            return None

        for node in ast.walk(fn):
            tgts = []
            if isinstance(node, ast.Assign):
                tgts = node.targets
            elif isinstance(node, ast.AugAssign):
                tgts = [node.target]
            elif isinstance(node, ast.Delete):
                tgts = node.targets
            for t in tgts:
                for el in (t.elts if isinstance(t, (ast.Tuple, ast.List)) else [t]):
                    if isinstance(el, (ast.Subscript, ast.Attribute)):
                        why = is_shared_base(el.value if isinstance(el, (ast.Subscript, ast.Attribute)) else el)
                        if why:
                            report("shared-store", node, norm(el), f"store into {why}: `{norm(node)[:80]}` - state shared between calls and threads")
                    elif isinstance(el, ast.Name) and el.id in declared_global:
                        report("shared-store", node, norm(el), f"assignment to the global `{el.id}`")
            if isinstance(node, ast.Call) and isinstance(node.func, ast.Attribute):
                if node.func.attr in MUTATING_METHODS | {"__setitem__", "update"}:
                    why = is_shared_base(node.func.value) if not isinstance(node.func.value, ast.Name) or node.func.value.id not in local else None
                    if isinstance(node.func.value, ast.Name) and node.func.value.id not in local and (node.func.value.id in mod_names or node.func.value.id in declared_global):
                        why = f"module-level object `{node.func.value.id}`"
                    if why and not (isinstance(node.func.value, ast.Name) and node.func.value.id in imported):
                        report("shared-mutation", node, norm(node.func), f"mutating call on {why}: `{norm(node)[:80]}`")
                    # mutable default argument mutated
                if node.func.attr in GLOBAL_SETTERS:
                    base = node.func.value
                    while isinstance(base, ast.Attribute):
                        base = base.value
                    if isinstance(base, ast.Name) and base.id in imported:
                        report("global-setter", node, norm(node.func), f"`{norm(node)[:60]}` changes process-global state")
            if isinstance(node, (ast.Assign, ast.AugAssign)):
                for t in (node.targets if isinstance(node, ast.Assign) else [node.target]):
                    if isinstance(t, ast.Subscript) and (dotted(t.value) or "").endswith("environ"):
                        report("global-setter", node, norm(t), "os.environ is modified")
    # mutable class attributes (non-enum classes)
    for cn, c in classes.items():
        bases = [norm(b) for b in c.bases]
        if any("Enum" in b for b in bases):
            continue
        for item in c.body:
            if isinstance(item, ast.Assign) and isinstance(item.value, (ast.List, ast.Dict, ast.Set, ast.Call)) and not (isinstance(item.value, ast.Call) and (dotted(item.value.func) or "") in ("property", "staticmethod", "classmethod", "frozenset", "tuple")):
                report("mutable-class-attr", item, f"{cn}.{norm(item.targets[0])}", f"mutable class attribute `{cn}.{norm(item.targets[0])}` is shared by all instances and threads")


def scan_nondeterminism(mod_name, tree, report):
    imported = {}
    for node in ast.walk(tree):
        if isinstance(node, ast.Import):
            for al in node.names:
                imported[(al.asname or al.name).split(".")[0]] = al.name
        elif isinstance(node, ast.ImportFrom):
            for al in node.names:
                imported[al.asname or al.name] = f"{node.module}.{al.name}"
    for local, full in imported.items():
        root = full.split(".")[0]
        if root in NONDET_MODULES:
            report("nondet-import", tree, f"import {full}", f"module `{full}` (time / randomness / concurrency) is imported by the solver")
    for node in ast.walk(tree):
        if isinstance(node, ast.Call):
            d = dotted(node.func) or ""
            parts = d.split(".")
            if parts[0] in imported and imported[parts[0]].split(".")[0] in NONDET_MODULES:
                report("nondet-call", node, d, f"`{norm(node)[:60]}` is a source of nondeterminism")
            if len(parts) >= 2 and parts[-2] == "random":
                report("nondet-call", node, d, f"`{norm(node)[:60]}` uses a random number generator")
            if parts[-1] in NONDET_CALLS:
                report("nondet-call", node, d, f"`{norm(node)[:60]}` is a source of nondeterminism")
            if d in ("id", "hash") :
                report("nondet-call", node, d, f"`{norm(node)[:60]}`: id()/hash() values differ between runs")
        if isinstance(node, (ast.For, ast.comprehension)):
            it = node.iter
            if isinstance(it, ast.Set) or (isinstance(it, ast.Call) and (dotted(it.func) or "") in ("set", "frozenset")) or isinstance(it, ast.SetComp):
                report("nondet-order", it, norm(it), f"iteration over a set `{norm(it)[:50]}` has no deterministic order")


def run(ctx, rep):
    rep.rule("R11.1", "no global/nonlocal, no store or mutating call on module-level objects / class attributes / function attributes / mutable defaults, no memoising decorator, no process-global setter (np.printoptions as a context manager accepted)")
    rep.rule("R11.2", "no use of random/time/uuid/threads/processes, id()/hash(), or iteration over sets")
    rep.rule("R11.3", "ownership analysis: no in-place write site of the package targets an object that may alias a parameter of minimize")
    rep.rule("R11.4", "only Interpolation.__init__ and build_system write _lhs_cache, as an attribute of the interpolation object, with a copied key")
    # ---- positive control -------------------------------------------------
    hits = []
    scan_shared_state("<control>", ast.parse(CONTROL), lambda k, n, t, m: hits.append(k))
    need = {"global", "shared-store", "shared-mutation", "mutable-default", "global-setter", "mutable-class-attr"}
    if not need <= set(hits):
        raise AnalysisError(f"positive control of the shared-state scanner failed: kinds {sorted(set(hits))}, expected {sorted(need)}")
    rep.ok("R11.1", f"positive control (synthetic module with a module-level cache): {len(hits)} constructs flagged, kinds {sorted(set(hits))}")
    hits2 = []
    scan_nondeterminism("<control>", ast.parse("import random, time\nimport numpy as np\ndef f(x):\n    for k in set(x):\n        pass\n    return np.random.rand() + random.random() + time.time() + id(x)\n"), lambda k, n, t, m: hits2.append(k))
    if not {"nondet-import", "nondet-call", "nondet-order"} <= set(hits2):
        raise AnalysisError("positive control of the nondeterminism scanner failed")
    rep.ok("R11.2", f"positive control: {len(hits2)} constructs flagged")
    # ---- the package ---------------------------------------------------------
    n_funcs = 0
    for mod in ctx.repo.modules.values():
        def mk(rule):
            def report(kind, node, text, message, mod=mod, rule=rule):
                fn = _enclosing_func(ctx, mod, node)
                rep.bad(rule, f"{mod.relpath}:{getattr(node, 'lineno', 0)} {kind} {text}")
                rep.finding(rule, fn if fn is not None else mod.name, f"{kind}: {text}", getattr(node, "lineno", 0), message, file=mod.relpath)
            return report
        scan_shared_state(mod.name, mod.tree, mk("R11.1"))
        scan_nondeterminism(mod.name, mod.tree, mk("R11.2"))
        n_funcs += sum(1 for n in ast.walk(mod.tree) if isinstance(n, (ast.FunctionDef, ast.AsyncFunctionDef)))
    rep.ok("R11.1", f"{len(ctx.repo.modules)} modules / {n_funcs} functions scanned for shared mutable state")
    rep.ok("R11.2", f"{len(ctx.repo.modules)} modules scanned for nondeterminism sources")
    r113(ctx, rep)
    r114(ctx, rep)
    rep.rule("R11.5", "every np.empty buffer is completely defined (full store / complementary masks / slice partition / full loop) before it is read")
    k = check_uninitialised(ctx, rep, "R11.5")
    if k < 4:
        raise AnalysisError(f"only {k} uninitialised-buffer allocations found (floor 4)")


def _enclosing_func(ctx, mod, node):
    cur = node
    while cur is not None:
        if isinstance(cur, (ast.FunctionDef, ast.AsyncFunctionDef)):
            for f in ctx.repo.funcs.values():
                if f.node is cur:
                    return f
        cur = getattr(cur, "_parent", None)
    return None


def r113(ctx, rep):
    own = Ownership(ctx)
    n_sites = 0
    n_tainted_params = len(own.tparams)
    for f in ctx.repo.funcs.values():
        if f.module.name.endswith("versions"):
            continue
        for kind, base, node in own.write_sites(f):
            n_sites += 1
            hit = own.expr_tainted(f, base, at=node if not isinstance(node, ast.Call) else base)
            desc = f"{f.local}:{node.lineno} {kind} on `{norm(base)[:40]}`"
            if hit:
                rep.bad("R11.3", desc)
                rep.finding("R11.3", f, f"{kind} {norm(base)}", node.lineno,
                            f"in-place write `{norm(node)[:80]}` targets an object that may alias the caller's argument ({', '.join(hit[:3])}); minimize must not modify x0, bounds, constraint arrays, args or options")
            else:
                rep.ok("R11.3", desc + " - target cannot alias a caller-owned object")
    if n_sites < 60:
        raise AnalysisError(f"only {n_sites} in-place write sites found (floor 60)")
    rep.analysed["write_sites"] = n_sites
    rep.analysed["params_that_may_alias_caller_objects"] = sorted(f"{q.split(':')[1]}.{p}" for q, p in own.tparams)
    rep.analysed["fields_that_may_alias_caller_objects"] = sorted(f"{c}.{a}" for c, a in own.tfields)
    rep.analysed["alias_unknowns_assumed_fresh"] = dict(sorted(own.unknown.items(), key=lambda kv: -kv[1])[:12])
    # options are re-bound to a fresh dict before the first hand-off
    m = ctx.func(T.MINIMIZE)
    for ev in ctx.events(m):
        if ev.kind == "call" and any(t.kind == "repo" and t.func.name in ("_set_default_options", "__init__") for t in ev.targets):
            for a in ev.node.args:
                if isinstance(a, ast.Name) and a.id == "options":
                    hit = own.expr_tainted(m, a, at=a)
                    desc = f"minimize:{ev.line} `options` handed to {ev.text()[:30]}"
                    if hit:
                        rep.bad("R11.3", desc)
                        rep.finding("R11.3", m, ev.text()[:80], ev.line, "the caller's options dict is handed to code that completes / modifies it without being copied first")
                    else:
                        rep.ok("R11.3", desc + " is a fresh dict")


def r114(ctx, rep, rule="R11.4"):
    writers = []
    for f in ctx.repo.funcs.values():
        for node in ast.walk(f.node):
            if isinstance(node, (ast.Assign, ast.AugAssign)):
                for t in (node.targets if isinstance(node, ast.Assign) else [node.target]):
                    base = t
                    while isinstance(base, ast.Subscript):
                        base = base.value
                    if isinstance(base, ast.Attribute) and base.attr == "_lhs_cache":
                        writers.append((f, node, base))
    if not writers:
        raise AnalysisError("no writer of _lhs_cache found")
    allowed = {"cobyqa.models:Interpolation.__init__", "cobyqa.models:build_system"}
    for f, node, base in writers:
        desc = f"{f.local}:{node.lineno} `{norm(node)[:60]}`"
        recv_ok = isinstance(base.value, ast.Name) and (base.value.id == f.self_name or base.value.id in f.params)
        if f.qual in allowed and recv_ok:
            rep.ok(rule, desc + " - per-instance cache")
        else:
            rep.bad(rule, desc)
            rep.finding(rule, f, norm(node)[:100], node.lineno, "the factorisation cache is written outside its owner or not as an attribute of the interpolation object")
    bs = ctx.func("cobyqa.models:build_system")
    from ..alias import Alias
    al = Alias(ctx, bs)
    found = False
    for node in ast.walk(bs.node):
        if isinstance(node, ast.Dict):
            for k, v in zip(node.keys, node.values):
                if isinstance(k, ast.Constant) and k.value == "xpt":
                    found = True
                    r = al.roots(v, v)
                    if r:
                        rep.bad(rule, "cache key copy")
                        rep.finding(rule, bs, norm(v), v.lineno, "the interpolation points stored as the cache key are not a copy: a later in-place change of the points would silently change the key")
                    else:
                        rep.ok(rule, f"build_system:{v.lineno} cache key `{norm(v)}` is a copy")
    hit_test = False
    for node in ast.walk(bs.node):
        if isinstance(node, ast.Call) and (dotted(node.func) or "").endswith("array_equal") and any("xpt" in norm(a) for a in node.args) and any("_cache" in norm(a) or "cache" in norm(a) for a in node.args):
            hit_test = True
    if found and hit_test:
        rep.ok(rule, "cache hit is decided by comparing the interpolation points with the cached copy")
    else:
        rep.bad(rule, "cache key test")
        rep.finding(rule, bs, "cache hit test", bs.node.lineno, "the cache is not keyed by the interpolation points (np.array_equal of xpt with the cached copy)")


# ---------------------------------------------------------------------------
def _short(e):
    if isinstance(e, ast.Call):
        d = dotted(e.func)
        return d.split(".")[-1] if d else None
    return None


def _getter_norm(f, e, depth=3):
    """text of e with single-return property getters of the own class expanded"""
    from ..inline import _clone
    if f.cls is None or f.self_name is None:
        return norm(e)

    class _X(ast.NodeTransformer):
        def visit_Attribute(self, n):
            self.generic_visit(n)
            if isinstance(n.value, ast.Name) and n.value.id == f.self_name and n.attr in f.cls.getters:
                g = f.cls.getters[n.attr]
                body = g.body()
                if len(body) == 1 and isinstance(body[0], ast.Return) and body[0].value is not None and g.self_name:
                    v = _clone(body[0].value)
                    for x in ast.walk(v):
                        if isinstance(x, ast.Name) and x.id == g.self_name:
                            x.id = f.self_name
                    return v
            return n
    cur = _clone(e)
    for _ in range(depth):
        cur = _X().visit(cur)
    return norm(cur)


def check_uninitialised(ctx, rep, rule):
    """Every np.empty / np.empty_like buffer is completely defined before it
    is read: one full store, stores under a mask and its complement, a slice
    partition, or an element store in a loop over its whole length.  Reading
    uninitialised memory makes results depend on stale heap contents (not
    deterministic, not thread-independent)."""
    n = 0
    for f in ctx.repo.funcs.values():
        cfg = None
        for node in ast.walk(f.node):
            if not (isinstance(node, ast.Assign) and _short(node.value) in ("empty", "empty_like") and len(node.targets) == 1):
                continue
            tgt = node.targets[0]
            shape = node.value.args[0] if node.value.args else None
            # zero-sized allocations hold no element
            def zero_sized(sh):
                if isinstance(sh, ast.Constant) and sh.value == 0:
                    return True
                if isinstance(sh, ast.Tuple) and sh.elts and isinstance(sh.elts[0], ast.Constant) and sh.elts[0].value == 0:
                    return True
                return False
            if shape is not None and zero_sized(shape):
                continue
            name = norm(tgt)
            n += 1
            # statements following the allocation in the same block
            par = getattr(node, "_parent", None)
            body = None
            for fld in ("body", "orelse", "finalbody"):
                lst = getattr(par, fld, None)
                if isinstance(lst, list) and any(x is node for x in lst):
                    body = lst
            if body is None:
                continue
            i0 = [i for i, x in enumerate(body) if x is node][0]
            stores = []
            covered = False
            first_read = None
            for st in body[i0 + 1:]:
                # a store statement?
                handled = False
                if isinstance(st, ast.Assign):
                    for t in st.targets:
                        tl = t.elts if isinstance(t, (ast.Tuple, ast.List)) else [t]
                        for el in tl:
                            if isinstance(el, ast.Subscript) and norm(el.value) == name:
                                stores.append(el.slice)
                                handled = True
                    # the right-hand side may read the buffer
                    for sub in ast.walk(st.value):
                        if norm(sub) == name and isinstance(sub, (ast.Name, ast.Attribute)):
                            first_read = first_read or st
                if isinstance(st, ast.For):
                    # for i in range(N): buf[i] = ...
                    it = st.iter
                    lv = st.target.id if isinstance(st.target, ast.Name) else None
                    full = False
                    for sub in ast.walk(st):
                        if isinstance(sub, ast.Assign):
                            for t in sub.targets:
                                tl = t.elts if isinstance(t, (ast.Tuple, ast.List)) else [t]
                                for el in tl:
                                    if isinstance(el, ast.Subscript) and norm(el.value) == name:
                                        idx = el.slice.elts[0] if isinstance(el.slice, ast.Tuple) else el.slice
                                        if isinstance(idx, ast.Name) and shape is not None and _short(it) == "enumerate" and it.args and isinstance(st.target, ast.Tuple) and isinstance(st.target.elts[0], ast.Name) and st.target.elts[0].id == idx.id:
                                            # for i, x in enumerate(seq): buf[i] = ..  with len(seq) == len(buf)
                                            sh0 = shape.elts[0] if isinstance(shape, ast.Tuple) else shape
                                            seq = it.args[0]
                                            if isinstance(seq, ast.Attribute) and seq.attr == "T":
                                                # enumerate(M.T): one iteration per column of M
                                                cols = ast.Subscript(value=ast.Attribute(value=seq.value, attr="shape", ctx=ast.Load()), slice=ast.Constant(1), ctx=ast.Load())
                                                if _getter_norm(f, cols) == _getter_norm(f, sh0):
                                                    full = True
                                            if isinstance(seq, ast.Name):
                                                ds = [n2 for n2 in ast.walk(f.node) if isinstance(n2, ast.Assign) and len(n2.targets) == 1 and isinstance(n2.targets[0], ast.Name) and n2.targets[0].id == seq.id]
                                                if len(ds) == 1 and _short(ds[0].value) == "linspace" and len(ds[0].value.args) >= 3 and norm(ds[0].value.args[2]) == norm(sh0):
                                                    # the length operand must not change between the two allocations
                                                    full = True
                                        if isinstance(idx, ast.Name) and idx.id == lv and _short(it) == "range" and len(it.args) == 1 and shape is not None:
                                            sh0 = shape.elts[0] if isinstance(shape, ast.Tuple) else shape
                                            if norm(it.args[0]) == norm(sh0) or _getter_norm(f, it.args[0]) == _getter_norm(f, sh0):
                                                full = True
                    if full:
                        covered = True
                        handled = True
                if covered or _covers(stores):
                    covered = True
                    break
                if not handled:
                    for sub in ast.walk(st):
                        if isinstance(sub, (ast.Name, ast.Attribute)) and norm(sub) == name and isinstance(getattr(sub, "ctx", None), ast.Load):
                            par2 = getattr(sub, "_parent", None)
                            if isinstance(par2, ast.Subscript) and isinstance(par2.ctx, ast.Store):
                                continue
                            first_read = first_read or st
                if first_read is not None:
                    break
            desc = f"{f.local}:{node.lineno} `{norm(node)[:50]}`"
            if covered:
                rep.ok(rule, desc + f" completely defined by {len(stores) or 'a loop of'} store(s) before use")
            else:
                rep.bad(rule, desc)
                rep.finding(rule, f, norm(node)[:100], node.lineno,
                            f"the uninitialised buffer `{name}` is not completely defined before it is used (stores: {[norm(x) for x in stores] or 'none'}): "
                            "the unassigned entries hold stale memory, so results can differ between runs and threads")
    return n


def _covers(slices):
    texts = [norm(x).replace(" ", "") for x in slices]
    if not texts:
        return False
    # first-axis part of multi-axis indices with trailing full slices / constants
    first = []
    for x in slices:
        if isinstance(x, ast.Tuple):
            first.append(norm(x.elts[0]).replace(" ", ""))
        else:
            first.append(norm(x).replace(" ", ""))
    if any(t in (":", "...", "Ellipsis") for t in first) and not any(isinstance(x, ast.Tuple) and norm(x.elts[0]) != ":" for x in slices):
        return True
    # mask and its complement
    for a in first:
        if ("~" + a) in first or (a.startswith("~") and a[1:] in first):
            return True
    # slice partition  :k | k | k+1:   (or  :k | k:)
    lows = [t[1:] for t in first if t.startswith(":") and len(t) > 1]
    highs = [t[:-1] for t in first if t.endswith(":") and len(t) > 1]
    singles = [t for t in first if ":" not in t and not t.startswith("~")]
    for lo in lows:
        if lo in highs:
            return True
        if lo in singles and (lo + "+1") in highs:
            return True
    return False


# ---------------------------------------------------------------------------
def r116(ctx, rep, rule="R11.6"):
    """The value of the objective kept by the solver (filter, history, models,
    result) is a Python float made from what the user's function returned: a
    0-d view of the user's output buffer would change when the user's function
    reuses that buffer."""
    f = ctx.func("cobyqa.problem:ObjectiveFunction.__call__")
    cfg = ctx.cfg(f)
    rd = cfg.reaching_defs()
    sinks = [ev for ev in ctx.events(f) if any(t.name == "UserFn" for t in ev.sink_targets())]
    if not sinks:
        raise AnalysisError("ObjectiveFunction.__call__: call of the user's function not found")
    n = 0
    for ev in sinks:
        # the expression that wraps the call
        cur = ev.node
        conv = False
        while getattr(cur, "_parent", None) is not None and not isinstance(cur, ast.stmt):
            par = cur._parent
            if isinstance(par, ast.Call) and isinstance(par.func, ast.Name) and par.func.id == "float" and par.args and par.args[0] is cur:
                conv = True
            if isinstance(par, ast.Call) and isinstance(par.func, ast.Attribute) and par.func.attr == "item" and par.func.value is cur:
                conv = True
            cur = par
        st = cur
        n += 1
        desc = f"{f.local}:{ev.line} `{norm(st)[:70]}`"
        if not conv and isinstance(st, ast.Assign) and len(st.targets) == 1 and isinstance(st.targets[0], ast.Name):
            # converted later, before it is returned?
            v = st.targets[0].id
            for node in ast.walk(f.node):
                if isinstance(node, ast.Call) and isinstance(node.func, ast.Name) and node.func.id == "float" and node.args and isinstance(node.args[0], ast.Name) and node.args[0].id == v:
                    par = getattr(node, "_parent", None)
                    if isinstance(par, (ast.Assign, ast.Return)):
                        conv = True
        if conv:
            rep.ok(rule, desc + " is converted to a Python float")
        else:
            rep.bad(rule, desc)
            rep.finding(rule, f, norm(st)[:120], ev.line,
                        "the objective value is kept as whatever array object the user's function returned (np.squeeze gives a view): if the function reuses its output buffer every stored value (filter, history, result) changes with each later evaluation")
    return n


_old_run11 = run


def run(ctx, rep):  # noqa: F811
    _old_run11(ctx, rep)
    rep.rule("R11.6", "the objective value kept by the solver is a Python float, not a view of the user's output buffer")
    r116(ctx, rep)
