"""C12 - models interpolate the recorded values after every update, shift and
reset (bookkeeping clauses; the size of the interpolation error is numerical
and not decided).

R12.1 every model, every time: in update_interpolation / shift_x_base /
      reset_models / Models.__init__ the objective model and every
      inequality and equality constraint model is updated / shifted / rebuilt
      unconditionally (no short-circuit, no conditional expression, no
      data-dependent if), over the full index range, with matching indices.
R12.2 ordering: residuals of the old models and the copy of the old
      direction are taken before the interpolation point is overwritten; all
      model updates come after it; models are shifted before the base point
      moves; inside Quadratic the implicit->explicit transfer precedes the
      zeroing and the solve, const/grad are recomputed before e_hess changes.
R12.3 index coherence of the stores in update_interpolation.
R12.4 evaluated point = stored point: at each update site in minimize the
      values come from the last evaluation of x_best + step with the same
      step and the best index is not changed in between.
R12.5 values handed to the models come from the evaluation routine's
      (clamped) return values.
"""
from __future__ import annotations

import ast

from ..astutil import norm, dotted, enclosing_loops
from ..loader import AnalysisError
from ..valueflow import ValueFlow, arg_for
from .. import tables as T
from . import common
from .c07 import enclosing_context, mentions

GROUPS = ("_fun", "_cub", "_ceq")
UPD = "cobyqa.models:Models.update_interpolation"
SHIFT = "cobyqa.models:Models.shift_x_base"
RESET = "cobyqa.models:Models.reset_models"
Q_UPDATE = "cobyqa.models:Quadratic.update"
Q_SHIFT = "cobyqa.models:Quadratic.shift_x_base"
Q_INIT = "cobyqa.models:Quadratic.__init__"


def run(ctx, rep):
    rep.rule("R12.1", "objective, every inequality and every equality model is updated/shifted/rebuilt unconditionally over the full index range in each of the four maintenance functions")
    rep.rule("R12.2", "old-set / new-set ordering of residuals, direction copy, point store, model updates, base shift; ordering inside Quadratic.update / shift_x_base")
    rep.rule("R12.3", "all stores of update_interpolation use the same index k_new; column i of the residuals goes to model i")
    rep.rule("R12.4", "relational dataflow at the update sites of minimize: values from the last evaluation of x_best + step, same step, best index untouched in between")
    rep.rule("R12.5", "values stored for the models originate from the evaluation routine's return values")
    for q in (UPD, SHIFT, RESET, T.MODELS_INIT, Q_UPDATE, Q_SHIFT, Q_INIT):
        ctx.func(q)
    r121(ctx, rep)
    r122(ctx, rep)
    r123(ctx, rep)
    r124(ctx, rep)
    r125(ctx, rep)
    rep.rule("R12.6", "the factorisation reused for updates/resets belongs to the current interpolation set: the cache is keyed by exact equality with a copy of the points")
    from .c11 import r114
    r114(ctx, rep, rule="R12.6")
    rep.rule("R12.7", "values, indices and points reach the model-maintenance functions through the right parameters (no swapped arguments)")
    common.check_swapped_args(ctx, rep, "R12.7", lambda g: g.cls is not None and g.cls.name in ("Models", "Quadratic", "Interpolation"))


# ---------------------------------------------------------------------------
def _group_of(ctx, f, recv):
    """Which model group does the receiver expression denote?"""
    e = recv
    while isinstance(e, ast.Subscript):
        e = e.value
    if isinstance(e, ast.Attribute) and isinstance(e.value, ast.Name) and e.value.id == f.self_name and e.attr in GROUPS:
        return e.attr
    if isinstance(e, ast.Name):
        # loop variable over self._cub / self._ceq / self._get_cub(): the
        # innermost enclosing loop / comprehension binding that name
        cur = getattr(e, "_parent", None)
        while cur is not None and cur is not f.node:
            it = None
            if isinstance(cur, ast.For) and isinstance(cur.target, ast.Name) and cur.target.id == e.id:
                it = cur.iter
            if isinstance(cur, ast.For) and isinstance(cur.target, (ast.Tuple, ast.List)) and isinstance(cur.iter, ast.Call) and getattr(cur.iter.func, "id", None) in ("zip", "enumerate"):
                names = [t.id if isinstance(t, ast.Name) else None for t in cur.target.elts]
                if e.id in names:
                    k = names.index(e.id)
                    if cur.iter.func.id == "zip" and k < len(cur.iter.args):
                        it = cur.iter.args[k]
                    elif cur.iter.func.id == "enumerate" and k == 1 and cur.iter.args:
                        it = cur.iter.args[0]
            if isinstance(cur, (ast.ListComp, ast.GeneratorExp, ast.SetComp)):
                for g in cur.generators:
                    if isinstance(g.target, ast.Name) and g.target.id == e.id:
                        it = g.iter
            cur = getattr(cur, "_parent", None)
            if it is not None:
                for sub in ast.walk(it):
                    if isinstance(sub, ast.Attribute) and sub.attr in GROUPS:
                        return sub.attr
                    if isinstance(sub, ast.Attribute) and sub.attr in ("_get_cub", "_get_ceq"):
                        return "_cub" if sub.attr == "_get_cub" else "_ceq"
    return None


def _loop_source(f, e):
    """the iterable a loop variable ranges over (zip / enumerate aware)"""
    cur = getattr(e, "_parent", None)
    while cur is not None and cur is not f.node:
        if isinstance(cur, ast.For):
            if isinstance(cur.target, ast.Name) and cur.target.id == e.id:
                return cur.iter
            if isinstance(cur.target, (ast.Tuple, ast.List)) and isinstance(cur.iter, ast.Call) and getattr(cur.iter.func, "id", None) in ("zip", "enumerate"):
                names = [t.id if isinstance(t, ast.Name) else None for t in cur.target.elts]
                if e.id in names:
                    k = names.index(e.id)
                    if cur.iter.func.id == "zip" and k < len(cur.iter.args):
                        return cur.iter.args[k]
                    if cur.iter.func.id == "enumerate" and k == 1 and cur.iter.args:
                        return cur.iter.args[0]
        cur = getattr(cur, "_parent", None)
    return None


def _full_range_loop(ctx, f, loop, group):
    """for i in range(self.m_nonlinear_ub) / for model in self._cub"""
    it = loop.iter
    want = {"_cub": ("m_nonlinear_ub", "_cub"), "_ceq": ("m_nonlinear_eq", "_ceq")}[group]
    if isinstance(it, ast.Call) and getattr(it.func, "id", None) == "range":
        if len(it.args) == 1 and mentions(it.args[0], want[0]):
            return True
        if len(it.args) == 1 and isinstance(it.args[0], ast.Call) and getattr(it.args[0].func, "id", None) == "len" and mentions(it.args[0], want[1]):
            return True
        # range(self.cub_val.shape[1]): the number of columns of the value table
        a0 = it.args[0] if len(it.args) == 1 else None
        if isinstance(a0, ast.Subscript) and isinstance(a0.value, ast.Attribute) and a0.value.attr == "shape" and isinstance(a0.slice, ast.Constant) and a0.slice.value == 1 \
                and isinstance(a0.value.value, ast.Attribute) and a0.value.value.attr.lstrip("_") == want[1].lstrip("_") + "_val":
            return True
        return False
    if isinstance(it, ast.Call) and getattr(it.func, "id", None) == "zip" and it.args and isinstance(it.args[0], ast.Attribute) and it.args[0].attr == want[1]:
        # zip(self._cub, columns): zip stops at the shorter operand, so the
        # partner must be the transposed value table of the same group
        for p_ in it.args[1:]:
            if not (isinstance(p_, ast.Attribute) and p_.attr == "T" and mentions(p_.value, want[1].lstrip("_") + "_val", want[1].lstrip("_") + "_diff")):
                return False
        return True
    if isinstance(it, ast.Attribute) and it.attr == want[1]:
        return True
    if isinstance(it, ast.Call) and getattr(it.func, "id", None) == "enumerate" and it.args and isinstance(it.args[0], ast.Attribute) and it.args[0].attr == want[1]:
        return True
    if isinstance(it, ast.Call) and getattr(it.func, "id", None) == "enumerate" and it.args and isinstance(it.args[0], ast.Attribute) and it.args[0].attr == "T" \
            and isinstance(it.args[0].value, ast.Attribute) and it.args[0].value.attr.lstrip("_") in (want[1].lstrip("_") + "_val",):
        return True      # one iteration per column of the value table = per model
    return False


def r121(ctx, rep, rule="R12.1"):
    plan = [
        (UPD, Q_UPDATE, "updated"),
        (SHIFT, Q_SHIFT, "shifted"),
        (RESET, Q_INIT, "rebuilt"),
        (T.MODELS_INIT, Q_INIT, "built"),
    ]
    for fq, callee, verb in plan:
        f = ctx.func(fq)
        cfg = ctx.cfg(f)
        found = {}
        unclassified = []
        for ev in ctx.events(f):
            if ev.kind != "call" or not any(t.kind == "repo" and t.name == callee for t in ev.targets):
                continue
            call = ev.node
            if callee == Q_INIT:
                # the constructor result must be stored into the group
                st = ev.stmt
                grp = None
                if isinstance(st, ast.Assign) and st.value is call:
                    grp = _group_of(ctx, f, st.targets[0])
                recv = st.targets[0] if isinstance(st, ast.Assign) else None
            else:
                recv = call.func.value if isinstance(call.func, ast.Attribute) else None
                grp = _group_of(ctx, f, recv) if recv is not None else None
            if grp is None:
                unclassified.append(ev)
                continue
            found.setdefault(grp, []).append((ev, recv))
        # calls of a method of that name whose receiver type could not be inferred
        mname = callee.split(".")[-1]
        seen_calls = {id(ev.node) for evs_ in found.values() for ev, _ in evs_} | {id(ev.node) for ev in unclassified}
        if mname != "__init__":
            for ev in ctx.events(f):
                if ev.kind == "call" and id(ev.node) not in seen_calls and isinstance(ev.node.func, ast.Attribute) and ev.node.func.attr == mname \
                        and not any(t.kind == "repo" for t in ev.targets):
                    unclassified.append(ev)
        for grp in GROUPS:
            desc = f"{f.local}: {grp} {verb}"
            if grp not in found and unclassified:
                raise AnalysisError(f"{f.local}:{unclassified[0].line} `{unclassified[0].text()[:60]}`: cannot tell which model group this call handles (unfamiliar loop shape)")
            if grp not in found:
                rep.bad(rule, desc)
                rep.finding(rule, f, f"{grp} not {verb}", f.node.lineno, f"the `{grp}` model(s) are not {verb} by {f.local}: they would no longer interpolate the recorded values")
                continue
            for ev, recv in found[grp]:
                d2 = f"{f.local}:{ev.line} {grp} {verb} by `{ev.text()[:50]}`"
                problems = []
                if ev.conditional:
                    problems.append("the call is the right operand of a short-circuit operator / inside a conditional expression, so it is skipped on some paths")
                if ev.lam is not None:
                    problems.append("the call is inside a lambda")
                ctxs = [c for c in enclosing_context(ev.stmt, f.node) if c[0] in ("if-true", "if-false")]
                if ctxs:
                    problems.append(f"the call is under the condition `{norm(ctxs[0][1])[:50]}`")
                loops = enclosing_loops(ev.node, stop=f.node)
                if grp == "_fun":
                    if loops:
                        problems.append("the objective model is handled inside a loop")
                else:
                    if len(loops) != 1:
                        problems.append(f"expected exactly one loop over the {grp} models, found {len(loops)}")
                    else:
                        lp = loops[0]
                        if not isinstance(lp, ast.For) or not _full_range_loop(ctx, f, lp, grp):
                            problems.append(f"the loop `for {norm(lp.target)} in {norm(lp.iter)}` does not cover all {grp} models")
                        for sub in ast.walk(lp):
                            if isinstance(sub, (ast.Break, ast.Continue)):
                                problems.append("the loop over the models contains break/continue")
                        # index coherence: self._cub[i] with the loop variable
                        if isinstance(recv, ast.Subscript) and isinstance(lp.target, ast.Tuple) and isinstance(lp.iter, ast.Call) and getattr(lp.iter.func, "id", None) == "enumerate" \
                                and len(lp.target.elts) == 2 and all(isinstance(x, ast.Name) for x in lp.target.elts):
                            iv, vv = lp.target.elts[0].id, lp.target.elts[1].id
                            if norm(recv.slice) != iv:
                                problems.append(f"model index `{norm(recv.slice)}` is not the loop counter `{iv}`")
                            want_arr = {"_cub": ("cub_val", "cub_diff", "_cub_val"), "_ceq": ("ceq_val", "ceq_diff", "_ceq_val")}[grp]
                            for a in ev.node.args:
                                if isinstance(a, ast.Name) and a.id == vv and not mentions(lp.iter.args[0], *want_arr):
                                    problems.append(f"model group {grp} is fed from `{norm(lp.iter.args[0])}`")
                        if isinstance(recv, ast.Subscript) and isinstance(lp.target, ast.Name):
                            if norm(recv.slice) != lp.target.id:
                                problems.append(f"model index `{norm(recv.slice)}` is not the loop variable `{lp.target.id}`")
                            # values column
                            for a in ev.node.args:
                                for sub in ast.walk(a):
                                    if isinstance(sub, ast.Subscript) and isinstance(sub.slice, ast.Tuple) and len(sub.slice.elts) == 2 and isinstance(sub.slice.elts[0], ast.Slice):
                                        col = norm(sub.slice.elts[1])
                                        if col != lp.target.id:
                                            problems.append(f"values column `{col}` does not match model index `{lp.target.id}`")
                                        want_arr = {"_cub": ("cub_val", "cub_diff", "_cub_val"), "_ceq": ("ceq_val", "ceq_diff", "_ceq_val")}[grp]
                                        if not mentions(sub.value, *want_arr):
                                            problems.append(f"model group {grp} is fed from `{norm(sub.value)}`")
                nid = cfg.node_containing(ev.node)
                if not problems and nid is not None and not loops and not cfg.postdominates(nid, cfg.entry):
                    problems.append("the call is not on every path of the function")
                if problems:
                    rep.bad(rule, d2)
                    rep.finding(rule, f, ev.text()[:120], ev.line, f"{grp} model not {verb} on every path: " + "; ".join(problems))
                else:
                    rep.ok(rule, d2 + " unconditionally")


# ---------------------------------------------------------------------------
def _nodes(cfg, pred):
    return [n for n in cfg.nodes if n.kind in ("stmt", "test", "for", "with") and pred(n)]


def _store_to(node, attr_names, self_name=None):
    """Statement stores to X.attr[...] (Assign / AugAssign)."""
    s = node.ast
    tgts = []
    if isinstance(s, ast.Assign):
        tgts = s.targets
    elif isinstance(s, ast.AugAssign):
        tgts = [s.target]
    for t in tgts:
        base = t
        while isinstance(base, ast.Subscript):
            base = base.value
        if isinstance(base, ast.Attribute) and base.attr in attr_names:
            return t
    return None


def r122(ctx, rep):
    f = ctx.func(UPD)
    cfg = ctx.cfg(f)
    store = [n for n in cfg.nodes if n.kind == "stmt" and isinstance(_store_to(n, ("xpt", "_xpt")), ast.Subscript)]
    if len(store) != 1:
        raise AnalysisError(f"update_interpolation: {len(store)} stores to xpt (expected 1)")
    st = store[0]
    # value of the store: x_new - x_base
    v = st.ast.value
    good = isinstance(v, ast.BinOp) and isinstance(v.op, ast.Sub) and isinstance(v.left, ast.Name) and v.left.id in f.params and mentions(v.right, "x_base")
    if good:
        rep.ok("R12.2", f"{f.local}:{st.line} xpt[:, k] = x_new - x_base")
    else:
        rep.bad("R12.2", "xpt store value")
        rep.finding("R12.2", f, norm(st.ast), st.line, "the new interpolation point is not stored as x_new - x_base")
    old_model_evals = []
    updates = []
    for ev in ctx.events(f):
        if ev.kind != "call":
            continue
        for t in ev.targets:
            if t.kind == "repo" and t.func.cls is not None and t.func.cls.name == "Models" and t.func.name in ("fun", "cub", "ceq"):
                if not _in_debug(ev, f):
                    old_model_evals.append(ev)
            if t.kind == "repo" and t.name == Q_UPDATE:
                updates.append(ev)
    if len(old_model_evals) < 3:
        rep.bad("R12.2", "residuals")
        rep.finding("R12.2", f, f"{len(old_model_evals)} model evaluations for the residuals", f.node.lineno, "the residuals value - model(x_new) of the three model groups are not all computed")
    for ev in old_model_evals:
        nid = cfg.node_containing(ev.node)
        desc = f"{f.local}:{ev.line} residual `{ev.text()[:40]}` uses the old interpolation set"
        if cfg.dominates(nid, st.id) and st.id not in cfg.reachable(st.id, skip_exc=True) - {st.id} | set() and nid not in cfg.reachable(st.id, skip_exc=True):
            rep.ok("R12.2", desc)
        else:
            rep.bad("R12.2", desc)
            rep.finding("R12.2", f, ev.text(), ev.line, "a model is evaluated for the residual after the interpolation point has been overwritten (the implicit Hessian then refers to the new point)")
    for ev in updates:
        nid = cfg.node_containing(ev.node)
        desc = f"{f.local}:{ev.line} `{ev.text()[:40]}` after the point store"
        if cfg.dominates(st.id, nid):
            rep.ok("R12.2", desc)
        else:
            rep.bad("R12.2", desc)
            rep.finding("R12.2", f, ev.text()[:100], ev.line, "a model is updated before the interpolation point is replaced")
    # dir_old: argument `dir_old` of the updates is a fresh copy taken before the store
    from ..alias import Alias
    al = Alias(ctx, f)
    g = ctx.func(Q_UPDATE)
    for ev in updates:
        a = arg_for(ev.node, g, "dir_old", "bound")
        desc = f"{f.local}:{ev.line} dir_old `{norm(a) if isinstance(a, ast.AST) else a}`"
        if not isinstance(a, ast.Name):
            rep.bad("R12.2", desc)
            rep.finding("R12.2", f, ev.text()[:100], ev.line, "the old direction is not passed as a saved copy")
            continue
        rd = cfg.reaching_defs()
        nid = cfg.node_containing(ev.node)
        defs = rd.get(nid, {}).get(a.id, ())
        ok = bool(defs)
        for dn in defs:
            if dn == cfg.entry:
                ok = False
                continue
            dnode = cfg.nodes[dn]
            s = dnode.ast
            if not (isinstance(s, ast.Assign) and mentions(s.value, "xpt", "_xpt")):
                ok = False
            elif al.roots(s.value, s):
                ok = False
                rep.finding("R12.2", f, norm(s), dnode.line, "the old direction is a view of the interpolation matrix, not a copy: it changes when the point is overwritten")
            elif not cfg.dominates(dn, st.id) or dn in cfg.reachable(st.id, skip_exc=True):
                ok = False
                rep.finding("R12.2", f, norm(s), dnode.line, "the old direction is read after the interpolation point has been overwritten")
        if ok:
            rep.ok("R12.2", desc + " is a copy of xpt[:, k] taken before the store")
        else:
            rep.bad("R12.2", desc)
            if not any(x.rule == "R12.2" and "old direction" in x.message for x in rep.findings):
                rep.finding("R12.2", f, ev.text()[:100], ev.line, "the old direction passed to the update is not a copy of xpt[:, k] taken before the store")
    # Models.shift_x_base: all model shifts precede the writes to x_base / xpt
    f2 = ctx.func(SHIFT)
    cfg2 = ctx.cfg(f2)
    writes = [n for n in cfg2.nodes if n.kind == "stmt" and _store_to(n, ("x_base", "xpt", "_x_base", "_xpt")) is not None]
    if len(writes) < 2:
        raise AnalysisError("Models.shift_x_base: writes to x_base / xpt not found")
    shifts = [ev for ev in ctx.events(f2) if ev.kind == "call" and any(t.kind == "repo" and t.name == Q_SHIFT for t in ev.targets)]
    for ev in shifts:
        nid = cfg2.node_containing(ev.node)
        desc = f"{f2.local}:{ev.line} `{ev.text()[:40]}` before the base point moves"
        if all(nid not in cfg2.reachable(w.id, skip_exc=True) for w in writes) and all(w.id in cfg2.reachable(nid, skip_exc=True) for w in writes):
            rep.ok("R12.2", desc)
        else:
            rep.bad("R12.2", desc)
            rep.finding("R12.2", f2, ev.text()[:100], ev.line, "a model is shifted after the interpolation set has already been moved to the new base point")
    # the two writes are consistent: x_base += shift ; xpt -= shift
    for w in writes:
        s = w.ast
        t = _store_to(w, ("x_base", "xpt", "_x_base", "_xpt"))
        name = norm(t)
        if isinstance(s, ast.AugAssign):
            is_base = "x_base" in name
            want = ast.Add if is_base else ast.Sub
            if isinstance(s.op, want):
                rep.ok("R12.2", f"{f2.local}:{w.line} `{norm(s)[:60]}`")
            else:
                rep.bad("R12.2", f"{f2.local}:{w.line}")
                rep.finding("R12.2", f2, norm(s), w.line, "the base point and the relative coordinates are not moved in opposite directions (x_base += shift, xpt -= shift)")
    # Quadratic.update: transfer -> zero -> solve
    f3 = ctx.func(Q_UPDATE)
    cfg3 = ctx.cfg(f3)
    transfer = [n for n in cfg3.nodes if n.kind == "stmt" and isinstance(n.ast, ast.AugAssign) and isinstance(n.ast.target, ast.Attribute) and n.ast.target.attr == "_e_hess"]
    zero = [n for n in cfg3.nodes if n.kind == "stmt" and isinstance(n.ast, ast.Assign) and isinstance(_store_to(n, ("_i_hess",)), ast.Subscript)]
    solve = [cfg3.node_containing(ev.node) for ev in ctx.events(f3) if ev.kind == "call" and any(t.kind == "repo" and t.func.name == "_get_model" for t in ev.targets)]
    if not (transfer and zero and solve):
        rep.bad("R12.2", "Quadratic.update structure")
        rep.finding("R12.2", f3, f"transfer={len(transfer)} zero={len(zero)} solve={len(solve)}", f3.node.lineno,
                    "Quadratic.update lacks the transfer of the replaced point's implicit curvature to the explicit Hessian, its zeroing, or the solve")
    else:
        t0, z0, s0 = transfer[0], zero[0], solve[0]
        tv = t0.ast.value
        ok_t = mentions(tv, "_i_hess") and mentions(tv, "dir_old") and isinstance(t0.ast.op, ast.Add) and (dotted(tv.right.func) if isinstance(tv, ast.BinOp) and isinstance(tv.right, ast.Call) else "x").split(".")[-1] == "outer"
        if cfg3.dominates(t0.id, z0.id) and cfg3.dominates(z0.id, s0) and ok_t:
            rep.ok("R12.2", "Quadratic.update: e_hess += i_hess[k]*outer(d,d); i_hess[k] = 0; solve - in this order")
        else:
            rep.bad("R12.2", "Quadratic.update order")
            rep.finding("R12.2", f3, norm(t0.ast)[:80] + " ; " + norm(z0.ast)[:40], t0.line,
                        "in Quadratic.update the implicit curvature of the replaced point must be moved to the explicit Hessian (e_hess += i_hess[k]*outer(dir_old, dir_old)) before i_hess[k] is zeroed and before the system is solved")
        # accumulate: += of const / grad / i_hess
        for attr in ("_const", "_grad", "_i_hess"):
            acc = [n for n in cfg3.nodes if n.kind == "stmt" and isinstance(n.ast, ast.AugAssign) and isinstance(n.ast.target, ast.Attribute) and n.ast.target.attr == attr and isinstance(n.ast.op, ast.Add)]
            if acc and cfg3.dominates(s0, acc[0].id):
                rep.ok("R12.2", f"Quadratic.update: {attr} += correction after the solve")
            else:
                rep.bad("R12.2", f"Quadratic.update {attr}")
                rep.finding("R12.2", f3, f"{attr} accumulation", f3.node.lineno, f"Quadratic.update does not add the correction to `{attr}` (the update is the old model plus the least-norm interpolant of the residual)")
    # Quadratic.shift_x_base: const, grad before e_hess
    f4 = ctx.func(Q_SHIFT)
    cfg4 = ctx.cfg(f4)
    eh = [n for n in cfg4.nodes if n.kind == "stmt" and isinstance(n.ast, (ast.AugAssign, ast.Assign)) and any(isinstance(t, ast.Attribute) and t.attr == "_e_hess" for t in (n.ast.targets if isinstance(n.ast, ast.Assign) else [n.ast.target]))]
    cg_ = {a: [n for n in cfg4.nodes if n.kind == "stmt" and isinstance(n.ast, ast.Assign) and any(isinstance(t, ast.Attribute) and t.attr == a for t in n.ast.targets)] for a in ("_const", "_grad")}
    if not eh or not cg_["_const"] or not cg_["_grad"]:
        rep.bad("R12.2", "Quadratic.shift_x_base structure")
        rep.finding("R12.2", f4, "const/grad/e_hess", f4.node.lineno, "Quadratic.shift_x_base does not recompute the constant, the gradient and the explicit Hessian")
    else:
        c0, g0 = cg_["_const"][0], cg_["_grad"][0]
        if cfg4.dominates(c0.id, g0.id) and cfg4.dominates(g0.id, eh[0].id):
            rep.ok("R12.2", "Quadratic.shift_x_base: const, then grad, then e_hess")
        else:
            rep.bad("R12.2", "Quadratic.shift_x_base order")
            rep.finding("R12.2", f4, f"{c0.text()[:40]} ; {g0.text()[:40]} ; {eh[0].text()[:40]}", c0.line,
                        "in Quadratic.shift_x_base the constant must be recomputed before the gradient and both before the explicit Hessian is modified (each reads the fields the next one overwrites)")


def _in_debug(ev, f):
    for kind, what, n in enclosing_context(ev.stmt, f.node):
        if kind == "if-true" and mentions(what, "_debug", "DEBUG", "debug"):
            return True
    return isinstance(ev.stmt, ast.Assert)


# ---------------------------------------------------------------------------
def r123(ctx, rep):
    f = ctx.func(UPD)
    k = "k_new" if "k_new" in f.params else None
    if k is None:
        raise AnalysisError("update_interpolation has no k_new parameter")
    n = 0
    for node in ast.walk(f.node):
        if isinstance(node, (ast.Assign, ast.AugAssign)):
            tgts = node.targets if isinstance(node, ast.Assign) else [node.target]
            for t in tgts:
                if not isinstance(t, ast.Subscript):
                    continue
                base = t.value
                bname = base.attr if isinstance(base, ast.Attribute) else (base.id if isinstance(base, ast.Name) else "?")
                idx = t.slice.elts if isinstance(t.slice, ast.Tuple) else [t.slice]
                names = [norm(i) for i in idx if not isinstance(i, ast.Slice)]
                if bname in ("fun_val", "cub_val", "ceq_val", "_fun_val", "_cub_val", "_ceq_val", "fun_diff", "cub_diff", "ceq_diff", "xpt", "_xpt"):
                    n += 1
                    desc = f"{f.local}:{node.lineno} {bname}[{', '.join(norm(i) for i in idx)}]"
                    pos_ok = True
                    if bname in ("xpt", "_xpt"):
                        pos_ok = len(idx) == 2 and isinstance(idx[0], ast.Slice) and norm(idx[1]) == k
                    elif bname.startswith(("cub", "ceq", "_cub", "_ceq")):
                        pos_ok = len(idx) == 2 and norm(idx[0]) == k and isinstance(idx[1], ast.Slice)
                    else:
                        pos_ok = names == [k]
                    if pos_ok:
                        rep.ok("R12.3", desc)
                    else:
                        rep.bad("R12.3", desc)
                        rep.finding("R12.3", f, norm(t), node.lineno, f"the store does not address interpolation point `{k}` (values, residuals and coordinates of one point must use the same index)")
                    # value coherence of the recorded values
                    if isinstance(node, ast.Assign) and bname.lstrip("_") in ("fun_val", "cub_val", "ceq_val"):
                        if not (isinstance(node.value, ast.Name) and node.value.id == bname.lstrip("_")):
                            rep.bad("R12.3", desc + " value")
                            rep.finding("R12.3", f, norm(node), node.lineno, f"the recorded value stored in {bname} is not the `{bname.lstrip('_')}` handed in for the new point")
    if n < 7:
        raise AnalysisError(f"update_interpolation: only {n} indexed stores found (floor 7)")
    # residual of the old models at the new point: (new value) - (model value at x_new)
    nres = 0
    for node in ast.walk(f.node):
        if isinstance(node, ast.Assign) and len(node.targets) == 1 and isinstance(node.targets[0], ast.Subscript):
            base = node.targets[0].value
            bname = base.id if isinstance(base, ast.Name) else (base.attr if isinstance(base, ast.Attribute) else "")
            v = node.value
            calls_model = [x for x in ast.walk(v) if isinstance(x, ast.Call) and isinstance(x.func, ast.Attribute) and x.func.attr in ("fun", "cub", "ceq") and isinstance(x.func.value, ast.Name) and x.func.value.id == f.self_name]
            if not calls_model:
                continue
            nres += 1
            grp_ = calls_model[0].func.attr
            desc = f"{f.local}:{node.lineno} residual `{norm(v)[:50]}`"
            good = isinstance(v, ast.BinOp) and isinstance(v.op, ast.Sub) and v.right is calls_model[0] and isinstance(v.left, ast.Name) and v.left.id == f"{grp_}_val" \
                and calls_model[0].args and isinstance(calls_model[0].args[0], ast.Name) and calls_model[0].args[0].id in f.params
            if good:
                rep.ok("R12.3", desc + " = new value - model value at the new point")
            else:
                rep.bad("R12.3", desc)
                rep.finding("R12.3", f, norm(node)[:100], node.lineno, f"the residual that drives the update of the {grp_} model(s) must be `{grp_}_val - self.{grp_}(x_new)` (new value minus the old model's prediction at the new point): otherwise the updated model does not take the recorded value at the new point")
    if nres < 3:
        raise AnalysisError(f"update_interpolation: only {nres} residual computations found (floor 3)")
    g = ctx.func(Q_UPDATE)
    for ev in ctx.events(f):
        if ev.kind == "call" and any(t.kind == "repo" and t.name == Q_UPDATE for t in ev.targets):
            a = arg_for(ev.node, g, "k_new", "bound")
            desc = f"{f.local}:{ev.line} update(k_new={norm(a) if isinstance(a, ast.AST) else a})"
            if isinstance(a, ast.Name) and a.id == k:
                rep.ok("R12.3", desc)
            else:
                rep.bad("R12.3", desc)
                rep.finding("R12.3", f, ev.text()[:100], ev.line, "a model is updated for a different index than the one whose point and values were replaced")
            # residual array of the right group
            d = arg_for(ev.node, g, "values_diff", "bound")
            grp = _group_of(ctx, f, ev.node.func.value)
            want = {"_fun": "fun_diff", "_cub": "cub_diff", "_ceq": "ceq_diff"}.get(grp)
            if isinstance(d, ast.Name):
                src = _loop_source(f, d)
                if src is not None:
                    d = src
            if want and isinstance(d, ast.AST) and not mentions(d, want):
                rep.bad("R12.3", desc + " residual")
                rep.finding("R12.3", f, ev.text()[:100], ev.line, f"the {grp} model is updated with `{norm(d)}` instead of its own residual `{want}`")


# ---------------------------------------------------------------------------
def best_index_writers(ctx):
    """functions that (transitively) write TrustRegion._best_index."""
    direct = set()
    for f in ctx.repo.funcs.values():
        if f.cls is None or f.cls.name != "TrustRegion" or f.name == "__init__":
            continue
        for node in ast.walk(f.node):
            if isinstance(node, (ast.Assign, ast.AugAssign)):
                tgts = node.targets if isinstance(node, ast.Assign) else [node.target]
                if any(isinstance(t, ast.Attribute) and t.attr == "_best_index" for t in tgts):
                    direct.add(f.qual)
    out = set(direct)
    changed = True
    while changed:
        changed = False
        for q, evs in ctx.cg.events.items():
            if q in out:
                continue
            if any(t.kind == "repo" and t.name in out for ev in evs for t in ev.targets):
                out.add(q)
                changed = True
    return out, direct


def r124(ctx, rep):
    m = ctx.func(T.MINIMIZE)
    cfg = ctx.cfg(m)
    upd = ctx.func(UPD)
    ew = ctx.func(T.EVAL_WRAPPER)
    writers, direct = best_index_writers(ctx)
    if not direct:
        raise AnalysisError("no writer of TrustRegion._best_index found")
    sites = [ev for ev in ctx.events(m) if ev.kind == "call" and any(t.kind == "repo" and t.name == upd.qual for t in ev.targets)]
    if len(sites) < 2:
        raise AnalysisError(f"only {len(sites)} update_interpolation call sites in minimize (floor 2)")
    evals = {}
    for ev in ctx.events(m):
        if ev.kind == "call" and any(t.kind == "repo" and t.name == ew.qual for t in ev.targets):
            evals[cfg.node_containing(ev.node)] = ev
    dirty_nodes = set()
    for ev in ctx.events(m):
        if any(t.kind == "repo" and t.name in writers and t.name != upd.qual for t in ev.targets):
            # update_interpolation itself does not change the best index
            dirty_nodes.add(cfg.node_containing(ev.node))
    from ..cfg import defs_of
    step_var = None
    for ev in evals.values():
        a = arg_for(ev.node, ew, "step", "func")
        if isinstance(a, ast.Name):
            step_var = a.id
    if step_var is None:
        raise AnalysisError("_eval(.., step, ..) call with a variable step not found")
    for nid_e, ev in evals.items():
        a = arg_for(ev.node, ew, "step", "func")
        if isinstance(a, ast.Name) and a.id == step_var:
            rep.ok("R12.4", f"minimize:{ev.line} evaluates x_best + {step_var}")
        else:
            rep.bad("R12.4", f"minimize:{ev.line} _eval step argument")
            rep.finding("R12.4", m, ev.text()[:100], ev.line,
                        f"the problem is evaluated at x_best + `{norm(a) if isinstance(a, ast.AST) else a}` but the point stored in the interpolation set is x_best + {step_var}: the recorded values belong to another point")

    # relational state: (current step def, eval node, step def at eval, dirty)
    def transfer(node, state, label):
        if label == "exc":
            return state
        new = state
        ds = defs_of(node) if node.kind in ("stmt", "for", "with") else {}
        if node.id in evals:
            new = frozenset((s, node.id, s, False) for (s, e, se, d) in new)
        if step_var in ds and node.id not in evals:
            new = frozenset((node.id, e, se, d) for (s, e, se, d) in new)
        if node.id in dirty_nodes:
            new = frozenset((s, e, se, True) for (s, e, se, d) in new)
        return new

    states = cfg.solve_forward(frozenset({(cfg.entry, None, None, False)}), transfer, lambda a, b: a | b)
    for ev in sites:
        nid = cfg.node_containing(ev.node)
        st = states.get(nid, frozenset())
        x_new = arg_for(ev.node, upd, "x_new", "bound")
        desc = f"minimize:{ev.line} update_interpolation(.., {norm(x_new)[:40]}, ..)"
        probs = []
        if isinstance(x_new, ast.Name):
            # a local holding the point: its only definition must lie between the evaluation
            # and the update (same evaluation, same step, best index untouched)
            dns = sorted(cfg.reaching_defs().get(nid, {}).get(x_new.id, ()))
            if len(dns) == 1 and dns[0] != cfg.entry and isinstance(cfg.nodes[dns[0]].ast, ast.Assign) and len(cfg.nodes[dns[0]].ast.targets) == 1 and isinstance(cfg.nodes[dns[0]].ast.targets[0], ast.Name):
                dst = states.get(dns[0], frozenset())
                if dst and cfg.dominates(dns[0], nid) and all(e is not None and s == se and not d for (s, e, se, d) in dst) and {e for (_, e, _, _) in dst} == {e for (_, e, _, _) in st}:
                    x_new = cfg.nodes[dns[0]].ast.value
        if not (isinstance(x_new, ast.BinOp) and isinstance(x_new.op, ast.Add) and any(isinstance(s, ast.Name) and s.id == step_var for s in (x_new.left, x_new.right)) and any(mentions(s, "x_best") for s in (x_new.left, x_new.right))):
            probs.append(f"the stored point `{norm(x_new)}` is not x_best + {step_var}")
        for (s, e, se, d) in st:
            if e is None:
                probs.append("a path reaches the update without an evaluation")
                continue
            if s != se:
                probs.append(f"`{step_var}` is redefined (line {cfg.nodes[s].line}) between the evaluation at line {cfg.nodes[e].line} and the update: the recorded values belong to another point")
            if d:
                probs.append(f"the best point may change between the evaluation at line {cfg.nodes[e].line} and the update (x_best + step is no longer the evaluated point)")
        # value arguments are the results of that evaluation
        rd = cfg.reaching_defs()
        for pname, idx in (("fun_val", 0), ("cub_val", 1), ("ceq_val", 2)):
            a = arg_for(ev.node, upd, pname, "bound")
            if not isinstance(a, ast.Name):
                probs.append(f"{pname} argument `{norm(a) if isinstance(a, ast.AST) else a}` is not the evaluation result")
                continue
            for dn in rd.get(nid, {}).get(a.id, ()):
                if dn not in evals:
                    probs.append(f"`{a.id}` may come from line {cfg.nodes[dn].line if dn != cfg.entry else 0}, not from an evaluation")
                    continue
                s = cfg.nodes[dn].ast
                tg = s.targets[0] if isinstance(s, ast.Assign) else None
                if not (isinstance(tg, (ast.Tuple, ast.List)) and len(tg.elts) == 3 and isinstance(tg.elts[idx], ast.Name) and tg.elts[idx].id == a.id):
                    probs.append(f"`{a.id}` is not component {idx} of the evaluation result")
        if probs:
            rep.bad("R12.4", desc)
            rep.finding("R12.4", m, ev.text()[:120], ev.line, "; ".join(sorted(set(probs))[:3]))
        else:
            rep.ok("R12.4", desc + f" <- last _eval(.., {step_var}, ..), best index untouched in between ({len(st)} path states)")
    # the evaluated point in _eval is x_best + step
    cfg_e = ctx.cfg(ew)
    for ev in ctx.events(ew):
        if ev.kind == "call" and any(t.kind == "repo" and t.name == T.EVAL for t in ev.targets):
            a = ev.node.args[0] if ev.node.args else None
            ok = False
            if isinstance(a, ast.Name):
                nid = cfg_e.node_containing(ev.node)
                for dn in cfg_e.reaching_defs().get(nid, {}).get(a.id, ()):
                    s = cfg_e.nodes[dn].ast if dn != cfg_e.entry else None
                    if isinstance(s, ast.Assign) and isinstance(s.value, ast.BinOp) and isinstance(s.value.op, ast.Add) and mentions(s.value, "x_best") and mentions(s.value, "step"):
                        ok = True
            elif isinstance(a, ast.BinOp) and isinstance(a.op, ast.Add) and mentions(a, "x_best") and mentions(a, "step"):
                ok = True
            if ok:
                rep.ok("R12.4", f"_eval:{ev.line} evaluates x_best + step")
            else:
                rep.bad("R12.4", "_eval point")
                rep.finding("R12.4", ew, ev.text(), ev.line, "_eval does not evaluate the problem at x_best + step (the point that is then stored in the interpolation set)")


# ---------------------------------------------------------------------------
def r125(ctx, rep):
    vf = ValueFlow(ctx, sources=(T.EVAL,), live=ctx.facts.live)
    m = ctx.func(T.MINIMIZE)
    upd = ctx.func(UPD)
    for ev in ctx.events(m):
        if ev.kind == "call" and any(t.kind == "repo" and t.name == upd.qual for t in ev.targets):
            for pname in ("fun_val", "cub_val", "ceq_val"):
                a = arg_for(ev.node, upd, pname, "bound")
                if not isinstance(a, ast.AST):
                    continue
                o = vf.origins(a, m)
                desc = f"minimize:{ev.line} {pname} `{norm(a)}`"
                if o and all(x.kind == "src" and x.detail == T.EVAL and x.ops <= {"elem", "conv"} for x in o):
                    rep.ok("R12.5", desc + " <- Problem.__call__ return value")
                else:
                    from .. import spaces
                    rep.bad("R12.5", desc)
                    rep.finding("R12.5", m, f"{pname}={norm(a)}", ev.line, f"a value handed to the models does not come (unchanged) from the evaluation routine: {spaces.fmt(o)}")
    # initial sampling stores
    mi = ctx.func(T.MODELS_INIT)
    n = 0
    for node in ast.walk(mi.node):
        if isinstance(node, ast.Assign):
            for t in node.targets:
                tl = t.elts if isinstance(t, (ast.Tuple, ast.List)) else [t]
                for i, el in enumerate(tl):
                    base = el
                    while isinstance(base, ast.Subscript):
                        base = base.value
                    if isinstance(el, ast.Subscript) and isinstance(base, ast.Attribute) and base.attr in ("fun_val", "cub_val", "ceq_val", "_fun_val", "_cub_val", "_ceq_val"):
                        n += 1
                        val = node.value if len(tl) == 1 else ("tuple_elem", node.value, i)
                        o = vf.origins(val, mi, at=node)
                        desc = f"{mi.local}:{node.lineno} {norm(el)} <- {norm(node.value)[:40]}"
                        if o and all(x.kind == "src" and x.detail == T.EVAL and x.ops <= {"elem", "conv"} for x in o):
                            rep.ok("R12.5", desc)
                        else:
                            from .. import spaces
                            rep.bad("R12.5", desc)
                            rep.finding("R12.5", mi, norm(node)[:100], node.lineno, f"an initial model value does not come from the evaluation routine: {spaces.fmt(o)}")
    if n < 3:
        raise AnalysisError(f"Models.__init__: only {n} stores of sampled values found (floor 3)")


# ---------------------------------------------------------------------------
def _first_iteration_only(f, store, var, k, kk, at):
    """The definition `at` of `var` (made before the loop, at the constant
    interpolation index kk) reaches `store` only in the iteration k == kk:
    the loop runs k over range(..) starting at kk and every later iteration
    (test k > kk / k != kk / k >= kk + 1) redefines `var` before the store."""
    if not isinstance(k, ast.Name) or not isinstance(kk, ast.Constant):
        return False
    loops = enclosing_loops(store, stop=f.node)
    if not loops:
        return False
    lp = loops[0]
    if not (isinstance(lp, ast.For) and isinstance(lp.target, ast.Name) and lp.target.id == k.id):
        return False
    it = lp.iter
    if not (isinstance(it, ast.Call) and getattr(it.func, "id", None) == "range"):
        return False
    start = 0 if len(it.args) == 1 else (it.args[0].value if isinstance(it.args[0], ast.Constant) else None)
    if len(it.args) == 3 and not (isinstance(it.args[2], ast.Constant) and it.args[2].value == 1):
        return False
    if start != kk.value:
        return False
    # `at` must be outside the loop
    cur = getattr(at, "_parent", None)
    while cur is not None:
        if cur is lp:
            return False
        cur = getattr(cur, "_parent", None)
    # a top-level `if k > kk: var = ...` of the loop body before the store
    for s_ in lp.body:
        if s_ is store or getattr(s_, "lineno", 0) >= store.lineno:
            break
        if isinstance(s_, ast.If) and isinstance(s_.test, ast.Compare) and len(s_.test.ops) == 1 and isinstance(s_.test.left, ast.Name) and s_.test.left.id == k.id and isinstance(s_.test.comparators[0], ast.Constant):
            op, c = s_.test.ops[0], s_.test.comparators[0].value
            later = (isinstance(op, ast.Gt) and c == kk.value) or (isinstance(op, ast.NotEq) and c == kk.value) or (isinstance(op, ast.GtE) and c == kk.value + 1)
            if later and any(isinstance(b, ast.Assign) and any(isinstance(x, ast.Name) and x.id == var for t in b.targets for x in ast.walk(t)) for b in s_.body):
                return True
    return False


def r128(ctx, rep):
    """Initial sampling: the value recorded for interpolation point k comes
    from an evaluation *at* interpolation point k (the base point may have
    been moved away from x0 by Interpolation.__init__)."""
    from ..inline import expander
    mi = ctx.func(T.MODELS_INIT)
    cfg = ctx.cfg(mi)
    rd = cfg.reaching_defs()
    inl = expander(ctx, mi)
    eval_calls = {id(ev.node): ev for ev in ctx.events(mi) if ev.kind == "call" and any(t.kind == "repo" and t.name == T.EVAL for t in ev.targets)}
    if not eval_calls:
        raise AnalysisError("Models.__init__: no call of the evaluation routine")
    E = ctx.func(T.EVAL)
    n = 0
    for node in ast.walk(mi.node):
        if not isinstance(node, ast.Assign):
            continue
        for t in node.targets:
            tl = t.elts if isinstance(t, (ast.Tuple, ast.List)) else [t]
            for el in tl:
                base = el
                while isinstance(base, ast.Subscript):
                    base = base.value
                if not (isinstance(el, ast.Subscript) and isinstance(base, ast.Attribute) and base.attr.lstrip("_") in ("fun_val", "cub_val", "ceq_val")):
                    continue
                k = el.slice.elts[0] if isinstance(el.slice, ast.Tuple) else el.slice
                # the evaluation(s) the stored value comes from
                calls = []
                if id(node.value) in eval_calls:
                    calls.append((node.value, node))
                elif isinstance(node.value, ast.Name):
                    nid = cfg.node_containing(node)
                    for d in rd.get(nid, {}).get(node.value.id, ()):
                        dn = cfg.nodes[d]
                        if dn.kind == "stmt" and isinstance(dn.ast, ast.Assign) and id(dn.ast.value) in eval_calls:
                            calls.append((dn.ast.value, dn.ast))
                        else:
                            calls.append((None, dn.ast))
                if not calls:
                    continue   # R12.5 reports values that do not come from an evaluation
                n += 1
                desc = f"{mi.local}:{node.lineno} {norm(el)}"
                for call, at in calls:
                    if call is None:
                        raise AnalysisError(f"{mi.local}:{node.lineno} the value stored in `{norm(el)}` has a definition that is not an evaluation call")
                    a = arg_for(call, E, "x", "bound")
                    if not isinstance(a, ast.AST):
                        raise AnalysisError(f"{mi.local}:{call.lineno} point argument of the evaluation not found")
                    x = inl.expand(a, at)
                    kk = None
                    if isinstance(x, ast.Call) and isinstance(x.func, ast.Attribute) and x.func.attr == "point" and mentions(x.func.value, "interpolation", "_interpolation") and len(x.args) == 1:
                        kk = x.args[0]
                    good = False
                    why = ""
                    if kk is None:
                        why = f"the evaluated point `{norm(x)[:50]}` is not interpolation point {norm(k)}"
                    elif norm(kk) == norm(k):
                        good = True
                    elif isinstance(kk, ast.Constant):
                        for c in enclosing_context(node, mi.node):
                            if c[0] == "if-true":
                                tst = c[1]
                                if isinstance(tst, ast.Compare) and len(tst.ops) == 1 and isinstance(tst.ops[0], ast.Eq):
                                    pair = {norm(tst.left), norm(tst.comparators[0])}
                                    if pair == {norm(k), norm(kk)}:
                                        good = True
                            if c[0] == "if-false" and isinstance(kk.value, int):
                                # else branch of  k > c / k != c / k >= c + 1  for a counter that starts at c
                                tst = c[1]
                                if isinstance(tst, ast.Compare) and len(tst.ops) == 1 and norm(tst.left) == norm(k) and isinstance(tst.comparators[0], ast.Constant):
                                    cv, op_ = tst.comparators[0].value, type(tst.ops[0]).__name__
                                    lp_ = enclosing_loops(node, stop=mi.node)
                                    from_c = bool(lp_) and isinstance(lp_[0], ast.For) and isinstance(lp_[0].iter, ast.Call) and getattr(lp_[0].iter.func, "id", None) == "range" \
                                        and (len(lp_[0].iter.args) == 1 and kk.value == 0 or (len(lp_[0].iter.args) >= 2 and isinstance(lp_[0].iter.args[0], ast.Constant) and lp_[0].iter.args[0].value == kk.value))
                                    if (op_, cv) in (("NotEq", kk.value),) or (from_c and (op_, cv) in (("Gt", kk.value), ("GtE", kk.value + 1))):
                                        good = True
                        if not good and isinstance(k, ast.Constant) and k.value == kk.value:
                            good = True
                        if not good and isinstance(node.value, ast.Name) and _first_iteration_only(mi, node, node.value.id, k, kk, at):
                            good = True
                        if not good:
                            why = f"the value of interpolation point {norm(kk)} is stored at index {norm(k)} without a `{norm(k)} == {norm(kk)}` guard"
                    else:
                        why = f"evaluated at interpolation point `{norm(kk)}` but stored at index `{norm(k)}`"
                    if good:
                        rep.ok("R12.8", desc + f" <- evaluation at interpolation.point({norm(kk)})")
                    else:
                        rep.bad("R12.8", desc)
                        rep.finding("R12.8", mi, norm(node)[:100], node.lineno,
                                    f"initial sampling: {why}; the models would interpolate a value that was not obtained at the stored point "
                                    "(Interpolation.__init__ moves the base point away from x0 near the bounds)")
    if n < 3:
        raise AnalysisError(f"Models.__init__: only {n} sampled-value stores traced to an evaluation (floor 3)")


_old_run12 = run


def run(ctx, rep):  # noqa: F811
    _old_run12(ctx, rep)
    rep.rule("R12.8", "initial sampling: the value stored for index k comes from the evaluation at interpolation.point(k)")
    r128(ctx, rep)
    rep.rule("R12.9", "a trial point is generated inside the bounds, so the value recorded for it was measured at it and not at its projection (see C01 R1.2)")
    from ..report import Renamed
    from . import c01
    c01.r12(ctx, Renamed(rep, to="R12.9"))
