"""C13 - models are the least-Frobenius-norm interpolants (WEAK claim:
necessary structural conditions only; optimality of the norm and the
coefficients of the formulas are not decided - a wrong constant or sign in a
formula is NOT detected).

R13.1 view agreement by read sets: value, gradient, Hessian, Hessian-vector
      product and curvature each read (transitively) both Hessian parts and
      the interpolation points; value and gradient also the gradient/constant
      terms relative to the base point.
R13.2 layout agreement between the KKT matrix of build_system and the
      slices that _get_model takes from the solution: (lambda, c, g) =
      (x[:npt], x[npt], x[npt+1:]); right-hand side (values, 0_{n+1}); the
      tuple order is the one Quadratic.__init__ / update unpack.
R13.3 every step of the symmetric Broyden update executes on every path of
      Quadratic.update (no early exit before the implicit->explicit transfer),
      the shift recomputes const, grad before e_hess (C12 R12.2), every model
      is shifted/updated (C12 R12.1) and the factorisation belongs to the
      current points (C12 R12.6).
"""
from __future__ import annotations

import ast

from ..astutil import norm, dotted, const_value
from ..loader import AnalysisError
from .c07 import mentions

Q = "cobyqa.models:Quadratic"
VIEWS = {
    "__call__": {"_const", "_grad", "_i_hess", "_e_hess", "xpt", "x_base"},
    "grad": {"_grad", "_i_hess", "_e_hess", "xpt", "x_base"},
    "hess": {"_i_hess", "_e_hess", "xpt"},
    "hess_prod": {"_i_hess", "_e_hess", "xpt"},
    "curv": {"_i_hess", "_e_hess", "xpt"},
}


def read_set(ctx, f, seen=None):
    seen = seen or set()
    if f.qual in seen:
        return set()
    seen = seen | {f.qual}
    out = set()
    for node in ast.walk(f.node):
        if isinstance(node, ast.Attribute) and isinstance(node.ctx, ast.Load):
            # reads inside debug assertions do not count
            cur = node
            skip = False
            while cur is not None:
                if isinstance(cur, ast.Assert):
                    skip = True
                cur = getattr(cur, "_parent", None)
            if not skip:
                out.add(node.attr)
    for ev in ctx.events(f):
        if ev.kind == "call":
            for t in ev.targets:
                if t.kind == "repo" and t.func.cls is not None and t.func.cls.name == "Quadratic":
                    out |= read_set(ctx, t.func, seen)
    return out


def run(ctx, rep):
    rep.rule("R13.1", "each view of the quadratic reads both Hessian parts and the interpolation points (value/gradient also the linear and constant terms and the base point)")
    rep.rule("R13.2", "solution slices of _get_model match the block layout of build_system; right-hand side is (values, 0); tuple order matches its consumers")
    rep.rule("R13.3", "all steps of Quadratic.update execute on every path; shift ordering, model coverage and factorisation currency (shared with C12)")
    for name, need in VIEWS.items():
        f = ctx.func(f"{Q}.{name}")
        rs = read_set(ctx, f)
        missing = sorted(need - rs)
        desc = f"{f.local} reads {sorted(need & rs)}"
        if missing:
            rep.bad("R13.1", desc)
            rep.finding("R13.1", f, f"missing reads {missing}", f.node.lineno,
                        f"this view of the quadratic never reads {missing}: once that part is non-zero (after the first update or shift) the view is no longer a view of the same quadratic as the others")
        else:
            rep.ok("R13.1", desc)
    r132(ctx, rep)
    r133(ctx, rep)


def r132(ctx, rep):
    gm = ctx.func(f"{Q}._get_model")
    bs = ctx.func("cobyqa.models:build_system")
    ret = [n for n in ast.walk(gm.node) if isinstance(n, ast.Return) and n.value is not None]
    if len(ret) != 1 or not isinstance(ret[0].value, ast.Tuple) or len(ret[0].value.elts) != 4:
        raise AnalysisError("_get_model: single return of a 4-tuple expected")
    elts = [norm(e).replace(" ", "") for e in ret[0].value.elts]

    def row_col(e):
        """X[r, c] or X[:, c][r] -> (X, r, c) as texts"""
        if isinstance(e, ast.Subscript) and isinstance(e.slice, ast.Tuple) and len(e.slice.elts) == 2 and isinstance(e.value, ast.Name):
            return e.value.id, norm(e.slice.elts[0]).replace(" ", ""), norm(e.slice.elts[1]).replace(" ", "")
        if isinstance(e, ast.Subscript) and isinstance(e.value, ast.Subscript) and isinstance(e.value.slice, ast.Tuple) and len(e.value.slice.elts) == 2 \
                and isinstance(e.value.value, ast.Name) and norm(e.value.slice.elts[0]).replace(" ", "") == ":":
            return e.value.value.id, norm(e.slice).replace(" ", ""), norm(e.value.slice.elts[1]).replace(" ", "")
        return None
    rc = [row_col(e) for e in ret[0].value.elts[:3]]
    sol_ok = False
    if all(rc) and len({r[0] for r in rc}) == 1 and [r[1] for r in rc] == ["npt", "npt+1:", ":npt"] and {r[2] for r in rc} == {"0"}:
        # the array must be the first result of the system solve, npt the number of points
        base = rc[0][0]
        for node in ast.walk(gm.node):
            if isinstance(node, ast.Assign) and isinstance(node.value, ast.Call) and (dotted(node.value.func) or "").endswith("solve_systems"):
                t0 = node.targets[0]
                first = t0.elts[0] if isinstance(t0, (ast.Tuple, ast.List)) and t0.elts else None
                if isinstance(first, ast.Name) and first.id == base:
                    sol_ok = True
    if sol_ok:
        rep.ok("R13.2", f"{gm.local}: (const, grad, i_hess) = (x[npt], x[npt+1:], x[:npt])")
    else:
        rep.bad("R13.2", "solution slices")
        rep.finding("R13.2", gm, ", ".join(elts[:3]), ret[0].lineno, f"the constant, gradient and implicit Hessian must be x[npt], x[npt+1:], x[:npt] of the KKT solution (the block order of build_system); found {elts[:3]}")
    # block layout of the matrix
    # vocabulary of build_system: the matrix (a square zeros allocation), the
    # scaled points (xpt / scale) and the number of points
    mat = pts = None
    for node in ast.walk(bs.node):
        if isinstance(node, ast.Assign) and len(node.targets) == 1 and isinstance(node.targets[0], ast.Name):
            v = node.value
            if isinstance(v, ast.Call) and (dotted(v.func) or "").split(".")[-1] == "zeros" and v.args and isinstance(v.args[0], ast.Tuple) and len(v.args[0].elts) == 2 and norm(v.args[0].elts[0]) == norm(v.args[0].elts[1]):
                mat = mat or node.targets[0].id
            if isinstance(v, ast.BinOp) and isinstance(v.op, ast.Div) and mentions(v.left, "xpt") and pts is None:
                pts = node.targets[0].id
    if mat is None or pts is None:
        raise AnalysisError("build_system: matrix allocation / scaled points not recognised")
    blocks = {}
    for node in ast.walk(bs.node):
        if isinstance(node, ast.Assign) and isinstance(node.targets[0], ast.Subscript) and norm(node.targets[0].value) == mat:
            blocks[norm(node.targets[0].slice).replace(" ", "")] = norm(node.value).replace(" ", "").replace(pts, "P")
    need = {
        "(:npt,:npt)": "0.5*(P.T@P)**2.0",
        "(:npt,npt)": "1.0",
        "(:npt,npt+1:)": "P.T",
        "(npt,:npt)": "1.0",
        "(npt+1:,:npt)": "P",
    }
    got = {k.replace("[", "(").replace("]", ")") if not k.startswith("(") else k: v for k, v in blocks.items()}
    got = {("(" + k + ")" if not k.startswith("(") else k): v for k, v in got.items()}
    for k, v in need.items():
        if got.get(k) == v:
            rep.ok("R13.2", f"{bs.local}: a[{k[1:-1]}] = {v}")
        else:
            rep.bad("R13.2", f"block {k}")
            rep.finding("R13.2", bs, f"a[{k[1:-1]}] = {got.get(k)}", bs.node.lineno, f"block a[{k[1:-1]}] of the interpolation system should be `{v}` (found `{got.get(k)}`): the solution slices of _get_model assume this layout")
    # symmetric: the two off-diagonal pairs are transposes (checked by the table above)
    # right-hand side
    rhs_ok = False
    for node in ast.walk(gm.node):
        if isinstance(node, ast.Call) and (dotted(node.func) or "").endswith("block"):
            t = norm(node).replace(" ", "")
            if "[[values,np.zeros(n+1)]]" in t:
                par = getattr(node, "_parent", None)
                if isinstance(par, ast.Attribute) and par.attr == "T":
                    rhs_ok = True
    rhs_seen_block = any(isinstance(node, ast.Call) and (dotted(node.func) or "").endswith("block") for node in ast.walk(gm.node))
    if not rhs_ok and not rhs_seen_block:
        # zeros((npt + n + 1, 1)) filled with  rhs[:npt, 0] = values
        arg = None
        for node in ast.walk(gm.node):
            if isinstance(node, ast.Call) and (dotted(node.func) or "").endswith("solve_systems") and len(node.args) >= 2:
                arg = node.args[1]
        if not isinstance(arg, ast.Name):
            raise AnalysisError("_get_model: the right-hand side passed to solve_systems has an unfamiliar shape")
        allocs = [n_ for n_ in ast.walk(gm.node) if isinstance(n_, ast.Assign) and len(n_.targets) == 1 and isinstance(n_.targets[0], ast.Name) and n_.targets[0].id == arg.id]
        stores = [n_ for n_ in ast.walk(gm.node) if isinstance(n_, (ast.Assign, ast.AugAssign)) and any(isinstance(t, ast.Subscript) and isinstance(t.value, ast.Name) and t.value.id == arg.id for t in (n_.targets if isinstance(n_, ast.Assign) else [n_.target]))]
        if len(allocs) != 1 or not (isinstance(allocs[0].value, ast.Call) and (dotted(allocs[0].value.func) or "").split(".")[-1] == "zeros" and allocs[0].value.args):
            raise AnalysisError("_get_model: the right-hand side passed to solve_systems has an unfamiliar shape")
        shp = allocs[0].value.args[0]
        rows = shp.elts[0] if isinstance(shp, ast.Tuple) and len(shp.elts) == 2 else None
        addends = set()

        def add(e):
            if isinstance(e, ast.BinOp) and isinstance(e.op, ast.Add):
                add(e.left)
                add(e.right)
            else:
                addends.add(norm(e))
        if rows is not None:
            add(rows)
        good = addends == {"npt", "n", "1"} and isinstance(shp.elts[1], ast.Constant) and shp.elts[1].value == 1
        good = good and len(stores) == 1 and isinstance(stores[0], ast.Assign) and norm(stores[0].targets[0].slice).replace(" ", "") in (":npt,0", "(:npt,0)") \
            and isinstance(stores[0].value, ast.Name) and stores[0].value.id == "values"
        rhs_ok = good
    if rhs_ok:
        rep.ok("R13.2", f"{gm.local}: right-hand side = (values, 0_(n+1))^T")
    else:
        rep.bad("R13.2", "right-hand side")
        rep.finding("R13.2", gm, "rhs", gm.node.lineno, "the right-hand side of the interpolation system is not (values, zeros(n + 1))")
    # consumers unpack in the same order
    init = ctx.func(f"{Q}.__init__")
    ok = False
    for node in ast.walk(init.node):
        if isinstance(node, ast.Assign) and isinstance(node.targets[0], (ast.Tuple, ast.List)) and isinstance(node.value, ast.Call) and mentions(node.value.func, "_get_model"):
            names = [norm(e) for e in node.targets[0].elts]
            ok = names[:3] == ["self._const", "self._grad", "self._i_hess"]
            if not ok:
                rep.finding("R13.2", init, ", ".join(names), node.lineno, "Quadratic.__init__ unpacks the solution in a different order than _get_model returns it (const, grad, i_hess, ill_conditioned)")
    if ok:
        rep.ok("R13.2", f"{init.local}: unpacks (const, grad, i_hess, _)")
    else:
        rep.bad("R13.2", "init unpack")
    upd = ctx.func(f"{Q}.update")
    ok = False
    for node in ast.walk(upd.node):
        if isinstance(node, ast.Assign) and isinstance(node.targets[0], (ast.Tuple, ast.List)) and isinstance(node.value, ast.Call) and mentions(node.value.func, "_get_model"):
            names = [norm(e) for e in node.targets[0].elts]
            adds = {}
            for n2 in ast.walk(upd.node):
                if isinstance(n2, ast.AugAssign) and isinstance(n2.op, ast.Add) and isinstance(n2.target, ast.Attribute) and isinstance(n2.value, ast.Name):
                    adds[n2.target.attr] = n2.value.id
            ok = len(names) == 4 and adds.get("_const") == names[0] and adds.get("_grad") == names[1] and adds.get("_i_hess") == names[2]
            if not ok:
                rep.finding("R13.2", upd, f"{names} / {adds}", node.lineno, "Quadratic.update does not add the (const, grad, i_hess) of the correction to the matching fields")
    if ok:
        rep.ok("R13.2", f"{upd.local}: correction added component-wise")
    else:
        rep.bad("R13.2", "update unpack")
    # determinants / alt models use the same solver entry (one factorisation)
    ss = ctx.func(f"{Q}.solve_systems")
    uses_bs = any(ev.kind == "call" and any(t.kind == "repo" and t.name == bs.qual for t in ev.targets) for ev in ctx.events(ss))
    if uses_bs:
        rep.ok("R13.2", f"{ss.local} solves with the matrix of build_system")
    else:
        rep.bad("R13.2", "solve_systems")
        rep.finding("R13.2", ss, "build_system call", ss.node.lineno, "solve_systems does not use the interpolation matrix of build_system")


def r133(ctx, rep):
    upd = ctx.func(f"{Q}.update")
    cfg = ctx.cfg(upd)
    steps = {}
    for n in cfg.nodes:
        if n.kind != "stmt":
            continue
        s = n.ast
        if isinstance(s, ast.AugAssign) and isinstance(s.target, ast.Attribute) and s.target.attr == "_e_hess":
            steps["transfer"] = n
        if isinstance(s, ast.Assign) and isinstance(s.targets[0], ast.Subscript) and mentions(s.targets[0].value, "_i_hess") and const_value(s.value) in (0, 0.0):
            steps["zero"] = n
        if isinstance(s, ast.Assign) and isinstance(s.value, ast.Call) and mentions(s.value.func, "_get_model"):
            steps["solve"] = n
        if isinstance(s, ast.AugAssign) and isinstance(s.target, ast.Attribute) and s.target.attr in ("_const", "_grad", "_i_hess"):
            steps["add" + s.target.attr] = n
    for k in ("transfer", "zero", "solve", "add_const", "add_grad", "add_i_hess"):
        desc = f"{upd.local}: step `{k}` on every path"
        n = steps.get(k)
        if n is None:
            rep.bad("R13.3", desc)
            rep.finding("R13.3", upd, f"step {k}", upd.node.lineno, f"Quadratic.update lacks the step `{k}` of the symmetric Broyden update")
        elif not cfg.postdominates(n.id, cfg.entry):
            rep.bad("R13.3", desc)
            rep.finding("R13.3", upd, n.text()[:80], n.line, f"the step `{n.text()[:50]}` of the update is skipped on some path (early exit / condition): the model then differs from the least-norm update, e.g. the implicit curvature of the replaced point is lost")
        else:
            rep.ok("R13.3", desc)
    from . import c12
    c12.r121(ctx, rep, rule="R13.3")
    from .c11 import r114
    r114(ctx, rep, rule="R13.3")


# ---------------------------------------------------------------------------
def r134(ctx, rep):
    """Shifting the base point by s keeps the same quadratic only if the
    explicit Hessian absorbs  s v' + v s'  with  v = sum_k lambda_k (y_k - s/2):
    the implicit part sum_k lambda_k y_k y_k' changes by -s (sum l y)' - (sum l y) s'
    + (sum l) s s'.  The half shift is what accounts for the last term; it only
    vanishes for freshly built models (sum lambda = 0)."""
    from ..inline import expander
    f = ctx.func(f"{Q}.shift_x_base")
    inl = expander(ctx, f)
    upd = None
    for node in ast.walk(f.node):
        if isinstance(node, ast.AugAssign) and isinstance(node.op, ast.Add) and mentions(node.target, "_e_hess"):
            upd = node
    if upd is None:
        raise AnalysisError("Quadratic.shift_x_base: update of the explicit Hessian not found")
    v = inl.expand(upd.value, upd)
    # operands multiplied with the implicit Hessian
    prods = [n for n in ast.walk(v) if isinstance(n, ast.BinOp) and isinstance(n.op, ast.MatMult) and mentions(n.right, "_i_hess")]
    if not prods:
        raise AnalysisError("Quadratic.shift_x_base: product with the implicit Hessian not found in the update of the explicit Hessian")
    for pr in prods:
        left = pr.left
        desc = f"{f.local}:{upd.lineno} e_hess += s v' + v s' with v = ({norm(left)[:50]}) @ i_hess"
        half = False
        if isinstance(left, ast.BinOp) and isinstance(left.op, ast.Sub) and mentions(left.left, "xpt"):
            r = left.right
            # 0.5 * shift[..]  /  shift[..] * 0.5  /  shift[..] / 2
            if isinstance(r, ast.BinOp) and isinstance(r.op, ast.Mult) and ((const_value(r.left) == 0.5 and mentions(r.right, "shift", "new_x_base")) or (const_value(r.right) == 0.5 and mentions(r.left, "shift", "new_x_base"))):
                half = True
            if isinstance(r, ast.BinOp) and isinstance(r.op, ast.Div) and const_value(r.right) in (2, 2.0) and mentions(r.left, "shift", "new_x_base"):
                half = True
            if half:
                rep.ok("R13.4", desc + " (points taken relative to half the shift)")
                continue
            rep.bad("R13.4", desc)
            rep.finding("R13.4", f, norm(upd)[:120], upd.lineno, f"the points are corrected by `{norm(r)[:40]}` instead of half the shift: the shifted model is a different quadratic whenever the implicit weights do not sum to zero (after any update)")
        elif mentions(left, "xpt") and not mentions(v, "sum"):
            rep.bad("R13.4", desc)
            rep.finding("R13.4", f, norm(upd)[:120], upd.lineno,
                        "the correction of the explicit Hessian uses the interpolation points without the half-shift term (xpt - 0.5 * s): the term (sum lambda) s s' of the shifted implicit Hessian is lost, "
                        "so value, gradient and Hessian of the model change under a base shift once an update has made the implicit weights sum to a non-zero value")
        else:
            raise AnalysisError(f"Quadratic.shift_x_base: unfamiliar form of the explicit-Hessian correction `{norm(left)[:60]}`")


_old_run13 = run


def run(ctx, rep):  # noqa: F811
    _old_run13(ctx, rep)
    rep.rule("R13.4", "base shift: the explicit Hessian absorbs s v' + v s' with v = (xpt - s/2) @ i_hess")
    r134(ctx, rep)
