"""C15 - subproblem solvers always return admissible steps (structural
clauses; norms and residual arithmetic are numerical and not decided).

R15.1 write classification: every definition of the returned iterate in the
      five public solvers and _cauchy_geom is a zero vector, a clip to the
      function's own [xl, xu], a snap of one component to its bound, a
      restore of a checkpoint copy, a selection between admissible values, or
      a boundary rotation (angle-limited; accepted structurally, its norm is
      NOT decided).
R15.2 origin feasible: xl = minimum(xl, 0), xu = maximum(xu, 0) (and
      bub = maximum(bub, 0)) are re-bound before any other use.
R15.3 the step length multiplying the search direction is bounded by every
      limiting step length the solver computes (trust region, bounds, linear
      constraints): upper-bound sets through min(...) definitions.
R15.4 in the linearly constrained solvers every change of the working set is
      followed by a QR refresh before the basis is used again, and every
      search direction is a projection onto the null space of the working set.
R15.5 ZeroDivisionError of _alpha_tr does not leave a public solver.
"""
from __future__ import annotations

import ast

from ..astutil import norm, dotted, const_value
from ..loader import AnalysisError
from ..facts import is_subclass
from .. import tables as T
from .c07 import mentions, enclosing_context

PUBLIC = [
    "cobyqa.subsolvers.optim:tangential_byrd_omojokun",
    "cobyqa.subsolvers.optim:constrained_tangential_byrd_omojokun",
    "cobyqa.subsolvers.optim:normal_byrd_omojokun",
    "cobyqa.subsolvers.geometry:cauchy_geometry",
    "cobyqa.subsolvers.geometry:spider_geometry",
]
HELPERS = ["cobyqa.subsolvers.geometry:_cauchy_geom"]


def _short(e):
    if isinstance(e, ast.Call):
        d = dotted(e.func)
        return d.split(".")[-1] if d else None
    return None


def returned_names(f):
    out = []
    for node in ast.walk(f.node):
        if isinstance(node, ast.Return) and node.value is not None:
            v = node.value
            if isinstance(v, ast.Tuple):
                v = v.elts[0]
            if isinstance(v, ast.Name):
                out.append(v.id)
            else:
                out.append(None)
    return out


def _mask_of(sub):
    return norm(sub.slice) if isinstance(sub, ast.Subscript) else None


def _is_bound(e, which, mask=None):
    """xl / xl[M] with the same mask"""
    if mask is None:
        return isinstance(e, ast.Name) and e.id == which
    return isinstance(e, ast.Subscript) and isinstance(e.value, ast.Name) and e.value.id == which and _mask_of(e) == mask


def classify_write(ctx, f, var, stmt, admissible_names):
    """-> (kind, detail) ; kind None = unclassified"""
    if isinstance(stmt, ast.Assign) and len(stmt.targets) == 1:
        t, v = stmt.targets[0], stmt.value
        if isinstance(t, ast.Name) and t.id == var:
            s = _short(v)
            if s in ("zeros", "zeros_like"):
                return "zero", norm(v)
            if s == "clip" and len(v.args) == 3:
                if _is_bound(v.args[1], "xl") and _is_bound(v.args[2], "xu"):
                    return "clip", norm(v)[:60]
                return None, f"clip to `{norm(v.args[1])}`, `{norm(v.args[2])}` instead of the function's own xl, xu"
            if s in ("minimum",) and len(v.args) == 2 and _short(v.args[0]) == "maximum" and _is_bound(v.args[1], "xu") and _is_bound(v.args[0].args[1], "xl"):
                return "clip", norm(v)[:60]
            if s in ("maximum",) and len(v.args) == 2 and _short(v.args[0]) == "minimum" and _is_bound(v.args[1], "xl") and _is_bound(v.args[0].args[1], "xu"):
                return "clip", norm(v)[:60]
            if isinstance(v, ast.Name) and v.id in admissible_names:
                return "restore/select", v.id
            if isinstance(v, ast.IfExp) and isinstance(v.body, ast.Name) and isinstance(v.orelse, ast.Name) and v.body.id in admissible_names and v.orelse.id in admissible_names:
                return "select", norm(v)[:60]
            return None, f"`{norm(v)[:60]}` is not clipped to [xl, xu]"
        if isinstance(t, ast.Subscript) and isinstance(t.value, ast.Name) and t.value.id == var:
            mask = _mask_of(t)
            s = _short(v)
            if s == "clip" and len(v.args) == 3:
                if _is_bound(v.args[1], "xl", mask) and _is_bound(v.args[2], "xu", mask):
                    return "clip", norm(v)[:60]
                return None, f"masked clip with bounds `{norm(v.args[1])}`, `{norm(v.args[2])}` that do not use the mask `{mask}` of the target"
            if _is_bound(v, "xl", mask) or _is_bound(v, "xu", mask):
                return "snap", norm(stmt)[:60]
            if isinstance(v, ast.Subscript) and isinstance(v.value, ast.Name) and v.value.id in ("xl", "xu"):
                return None, f"component `{mask}` is set from bound component `{_mask_of(v)}` (index mismatch)"
            # rotation: c * var[M] + s * sd[M]
            if isinstance(v, ast.BinOp) and isinstance(v.op, ast.Add):
                terms = [v.left, v.right]
                if all(isinstance(x, ast.BinOp) and isinstance(x.op, ast.Mult) for x in terms):
                    subs = [y for x in terms for y in (x.left, x.right) if isinstance(y, ast.Subscript) and _mask_of(y) == mask]
                    scal = [y for x in terms for y in (x.left, x.right) if not (isinstance(y, ast.Subscript) and _mask_of(y) == mask)]
                    if len(subs) == 2 and len(scal) == 2 and any(isinstance(y.value, ast.Name) and y.value.id == var for y in subs) and any(isinstance(y.value, ast.Name) and y.value.id != var for y in subs):
                        return "rotation", norm(stmt)[:70]
            return None, f"`{norm(stmt)[:70]}` writes components without clipping or snapping to a bound"
    if isinstance(stmt, ast.AugAssign):
        return None, f"in-place update `{norm(stmt)[:60]}` without clipping"
    return None, f"`{norm(stmt)[:60]}`"


def r151(ctx, rep, rule="R15.1"):
    n_sites = 0
    for q in PUBLIC + HELPERS:
        f = ctx.func(q)
        names = returned_names(f)
        if not names or any(n is None for n in names):
            rep.bad(rule, f"{f.local} return")
            rep.finding(rule, f, "return value", f.node.lineno, "the solver does not return a named iterate (cannot classify its definitions)")
            continue
        var = names[0]
        # admissible helper values: checkpoint copies of var, results of the
        # classified helper, other returned names
        admissible = set()
        for node in ast.walk(f.node):
            if isinstance(node, ast.Assign) and len(node.targets) == 1:
                t, v = node.targets[0], node.value
                if isinstance(t, ast.Name) and _short(v) == "copy" and v.args and isinstance(v.args[0], ast.Name) and v.args[0].id == var:
                    admissible.add(t.id)
                if isinstance(t, ast.Name) and isinstance(v, ast.Call) and isinstance(v.func, ast.Attribute) and v.func.attr == "copy" and isinstance(v.func.value, ast.Name) and v.func.value.id == var:
                    admissible.add(t.id)
                if isinstance(t, (ast.Tuple, ast.List)) and isinstance(v, ast.Call):
                    if any(tt.kind == "repo" and tt.name in HELPERS for tt in ctx.res.call_targets(v, f)) and isinstance(t.elts[0], ast.Name):
                        admissible.add(t.elts[0].id)
        # the checkpoint copies (those actually restored) must not be modified afterwards
        restored = set()
        for node in ast.walk(f.node):
            if isinstance(node, ast.Assign) and any(isinstance(t, ast.Name) and t.id == var for t in node.targets):
                for sub in ast.walk(node.value):
                    if isinstance(sub, ast.Name) and sub.id in admissible:
                        restored.add(sub.id)
        for node in ast.walk(f.node):
            if isinstance(node, (ast.Assign, ast.AugAssign)):
                for t in (node.targets if isinstance(node, ast.Assign) else [node.target]):
                    base = t
                    while isinstance(base, ast.Subscript):
                        base = base.value
                    if isinstance(t, ast.Subscript) and isinstance(base, ast.Name) and base.id in restored:
                        rep.bad(rule, f"{f.local}:{node.lineno} checkpoint modified")
                        rep.finding(rule, f, norm(node)[:80], node.lineno, f"the checkpoint copy `{base.id}` of the iterate is modified in place")
        for node in ast.walk(f.node):
            stmt = None
            if isinstance(node, ast.Assign):
                for t in node.targets:
                    base = t
                    while isinstance(base, ast.Subscript):
                        base = base.value
                    if isinstance(base, ast.Name) and base.id == var:
                        stmt = node
            elif isinstance(node, ast.AugAssign):
                base = node.target
                while isinstance(base, ast.Subscript):
                    base = base.value
                if isinstance(base, ast.Name) and base.id == var:
                    stmt = node
            if stmt is None:
                continue
            n_sites += 1
            kind, detail = classify_write(ctx, f, var, stmt, admissible)
            desc = f"{f.local}:{stmt.lineno} `{norm(stmt)[:60]}`"
            if kind is None:
                rep.bad(rule, desc)
                rep.finding(rule, f, norm(stmt)[:120], stmt.lineno, f"the returned iterate `{var}` is written without keeping it inside the bounds: {detail}")
            else:
                rep.ok(rule, desc + f" - {kind}" + (" (norm not decided)" if kind == "rotation" else ""))
                if kind == "rotation":
                    rep.obl.note(f"NOT-DECIDED: rotation at {f.local}:{stmt.lineno} stays in the box only through the angle bound t_bd (numerical)")
    if n_sites < 25:
        raise AnalysisError(f"only {n_sites} write sites of solver iterates classified (floor 25)")
    rep.analysed["iterate_write_sites"] = n_sites


def r152(ctx, rep):
    for q in PUBLIC:
        f = ctx.func(q)
        cfg = ctx.cfg(f)
        need = [("xl", "minimum"), ("xu", "maximum")]
        if "bub" in f.params and "constrained" in f.name:
            need.append(("bub", "maximum"))
        for name, fn in need:
            rebind = None
            for n in cfg.nodes:
                if n.kind == "stmt" and isinstance(n.ast, ast.Assign) and any(isinstance(t, ast.Name) and t.id == name for t in n.ast.targets):
                    v = n.ast.value
                    if _short(v) == fn and len(v.args) == 2 and isinstance(v.args[0], ast.Name) and v.args[0].id == name and const_value(v.args[1]) in (0, 0.0):
                        rebind = n
                        break
            desc = f"{f.local}: {name} = {fn}({name}, 0.0) before use"
            if rebind is None:
                rep.bad("R15.2", desc)
                rep.finding("R15.2", f, f"{name} = {fn}({name}, 0.0)", f.node.lineno,
                            f"`{name}` is not re-bound to {fn}({name}, 0): with a slightly infeasible origin (rounding) the zero step / the snapped components can violate the bounds handed in")
                continue
            # every other read of the name (outside the debug block) is dominated by the rebind
            bad = None
            for n in cfg.nodes:
                if n.id == rebind.id or n.kind in ("entry", "exit", "raise"):
                    continue
                expr = n.expr()
                exprs = expr if isinstance(expr, list) else [expr]
                reads = False
                for e in exprs:
                    if e is None:
                        continue
                    for sub in ast.walk(e if isinstance(e, ast.AST) else e.context_expr):
                        if isinstance(sub, ast.Name) and sub.id == name and isinstance(sub.ctx, ast.Load):
                            reads = True
                if reads and not cfg.dominates(rebind.id, n.id):
                    ctxs = enclosing_context(n.ast, f.node)
                    if any(k == "if-true" and mentions(w, "debug") for k, w, _ in ctxs) or isinstance(n.ast, ast.Assert):
                        continue
                    bad = n
            if bad is not None:
                rep.bad("R15.2", desc)
                rep.finding("R15.2", f, bad.text()[:80], bad.line, f"`{name}` is used before it has been re-bound to {fn}({name}, 0)")
            else:
                rep.ok("R15.2", desc)


# ---------------------------------------------------------------------------
def upper_bounds(f, cfg, rd, var, nid, depth=0, seen=None):
    """names n with var <= n on every path at node nid (through min(...) definitions)."""
    seen = seen or set()
    defs = rd.get(nid, {}).get(var, frozenset())
    if not defs or depth > 6:
        return set()
    res = None
    for dn in defs:
        if dn == cfg.entry or (dn, var) in seen:
            ub = set()
        else:
            s = cfg.nodes[dn].ast
            ub = set()
            if isinstance(s, ast.Assign) and isinstance(s.value, ast.Call) and _short(s.value) in ("min", "minimum"):
                ops = s.value.args
                if len(ops) == 1 and isinstance(ops[0], (ast.List, ast.Tuple)):
                    ops = ops[0].elts
                for o in ops:
                    if isinstance(o, ast.Name):
                        ub.add(o.id)
                        ub |= upper_bounds(f, cfg, rd, o.id, dn, depth + 1, seen | {(dn, var)})
                    elif isinstance(o, ast.Call) and _short(o) in ("min", "minimum"):
                        for oo in o.args:
                            if isinstance(oo, ast.Name):
                                ub.add(oo.id)
            elif isinstance(s, ast.Assign) and isinstance(s.value, ast.Name):
                ub.add(s.value.id)
                ub |= upper_bounds(f, cfg, rd, s.value.id, dn, depth + 1, seen | {(dn, var)})
        res = ub if res is None else (res & ub)
    return res or set()


def r153(ctx, rep):
    n = 0
    for q in PUBLIC[:3] + HELPERS:
        f = ctx.func(q)
        cfg = ctx.cfg(f)
        rd = cfg.reaching_defs()
        names = returned_names(f)
        var = names[0] if names else None
        limit_names = set()
        for node in ast.walk(f.node):
            if isinstance(node, ast.Assign):
                for t in node.targets:
                    if isinstance(t, ast.Name) and t.id in ("alpha_tr", "alpha_bd", "alpha_ub"):
                        limit_names.add(t.id)
        # update statements: var(..) = clip(var(..) + alpha * sd(..)) / alpha * cauchy_step
        for nd in cfg.nodes:
            if nd.kind != "stmt" or not isinstance(nd.ast, ast.Assign):
                continue
            s = nd.ast
            base = s.targets[0]
            while isinstance(base, ast.Subscript):
                base = base.value
            if not (isinstance(base, ast.Name) and base.id == var):
                continue
            alphas = set()
            for sub in ast.walk(s.value):
                if isinstance(sub, ast.BinOp) and isinstance(sub.op, ast.Mult):
                    for side in (sub.left, sub.right):
                        if isinstance(side, ast.Name) and side.id.startswith("alpha"):
                            alphas.add(side.id)
            for a in alphas:
                n += 1
                ub = upper_bounds(f, cfg, rd, a, nd.id) | {a}
                # alpha_bd's own components
                missing = sorted(limit_names - ub)
                desc = f"{f.local}:{nd.line} step length `{a}` <= {sorted(ub - {a})}"
                if missing:
                    rep.bad("R15.3", desc)
                    rep.finding("R15.3", f, norm(s)[:100], nd.line,
                                f"the step length `{a}` used to update the iterate is not bounded by {missing} (limits the solver computes: {sorted(limit_names)}): the step can cross "
                                f"{'the trust-region boundary' if 'alpha_tr' in missing else 'a bound or linear constraint'}")
                else:
                    rep.ok("R15.3", desc)
        # alpha_bd = min(alpha_xl, alpha_xu[, alpha_slack])
        for nd in cfg.nodes:
            if nd.kind == "stmt" and isinstance(nd.ast, ast.Assign) and any(isinstance(t, ast.Name) and t.id == "alpha_bd" for t in nd.ast.targets):
                v = nd.ast.value
                ops = {o.id for o in v.args if isinstance(o, ast.Name)} if isinstance(v, ast.Call) and _short(v) == "min" else set()
                have = {x for x in ("alpha_xl", "alpha_xu", "alpha_slack") if any(isinstance(t, ast.Name) and t.id == x for m in ast.walk(f.node) if isinstance(m, ast.Assign) for t in m.targets)}
                n += 1
                desc = f"{f.local}:{nd.line} alpha_bd = min{sorted(ops)}"
                if have <= ops:
                    rep.ok("R15.3", desc)
                else:
                    rep.bad("R15.3", desc)
                    rep.finding("R15.3", f, norm(nd.ast), nd.line, f"alpha_bd ignores {sorted(have - ops)}: the iterate can cross that bound")
    # spider geometry: alpha_pos = min(alpha_tr, alpha_bd_pos); alpha_neg = max(-alpha_tr, alpha_bd_neg)
    f = ctx.func(PUBLIC[4])
    for node in ast.walk(f.node):
        if isinstance(node, ast.Assign) and len(node.targets) == 1 and isinstance(node.targets[0], ast.Name) and node.targets[0].id in ("alpha_pos", "alpha_neg") and isinstance(node.value, ast.Call) and _short(node.value) in ("min", "max"):
            nm = node.targets[0].id
            fn = _short(node.value)
            argt = [norm(a) for a in node.value.args]
            n += 1
            want_fn = "min" if nm == "alpha_pos" else "max"
            want = {"alpha_tr", "alpha_bd_pos"} if nm == "alpha_pos" else {"-alpha_tr", "alpha_bd_neg"}
            desc = f"{f.local}:{node.lineno} {nm} = {fn}({', '.join(argt)})"
            if fn == want_fn and want <= set(argt):
                rep.ok("R15.3", desc)
            else:
                rep.bad("R15.3", desc)
                rep.finding("R15.3", f, norm(node), node.lineno, f"`{nm}` must be {want_fn}({', '.join(sorted(want))}) so that the step respects both the trust region and the bounds")
    if n < 8:
        raise AnalysisError(f"only {n} step-length obligations found (floor 8)")


# ---------------------------------------------------------------------------
def r154(ctx, rep):
    for q in (PUBLIC[1], PUBLIC[2]):
        f = ctx.func(q)
        cfg = ctx.cfg(f)
        qr_nodes = set()
        for ev in ctx.events(f):
            if ev.kind == "call" and any(t.kind == "repo" and t.func.name.startswith("qr_") for t in ev.targets):
                qr_nodes.add(cfg.node_containing(ev.node))
        if not qr_nodes:
            rep.bad("R15.4", f"{f.local} qr")
            rep.finding("R15.4", f, "no qr_* call", f.node.lineno, "the working-set basis is never computed")
            continue
        q_reads = set()
        for n in cfg.nodes:
            if n.kind in ("entry", "exit", "raise") or n.id in qr_nodes:
                continue
            e = n.expr()
            for x in (e if isinstance(e, list) else [e]):
                if x is None:
                    continue
                for sub in ast.walk(x if isinstance(x, ast.AST) else x.context_expr):
                    if isinstance(sub, ast.Name) and sub.id in ("q", "n_act") and isinstance(sub.ctx, ast.Load):
                        q_reads.add(n.id)
        k = 0
        for n in cfg.nodes:
            if n.kind == "stmt" and isinstance(n.ast, ast.Assign) and isinstance(n.ast.targets[0], ast.Subscript) and isinstance(n.ast.targets[0].value, ast.Name) and n.ast.targets[0].value.id.startswith("free_") and const_value(n.ast.value) is False:
                k += 1
                # reads of q reachable from here without passing a qr refresh
                reach = cfg.reachable(n.id, avoid=qr_nodes, skip_exc=True) - {n.id}
                stale = sorted(reach & q_reads)
                desc = f"{f.local}:{n.line} `{n.text()[:40]}` followed by a QR refresh"
                if q == PUBLIC[2] and "free_bd" in n.text():
                    continue
                if stale:
                    # in the normal solver the final improvement phase does not use q
                    rep.bad("R15.4", desc)
                    rep.finding("R15.4", f, n.text()[:80], n.line,
                                f"the working set changes here but the basis `q`/`n_act` is used again at line {cfg.nodes[stale[0]].line} without a QR refresh: the next direction leaves the null space of the active constraints")
                else:
                    rep.ok("R15.4", desc)
        if k < 4:
            raise AnalysisError(f"{f.local}: only {k} working-set updates found (floor 4)")
        # search directions are projections
        for n in cfg.nodes:
            if n.kind == "stmt" and isinstance(n.ast, ast.Assign) and any(isinstance(t, ast.Name) and t.id == "sd" for t in n.ast.targets):
                v = n.ast.value
                txt = norm(v)
                ok = ("q[:, n_act:]" in txt) or (isinstance(v, ast.BinOp) and mentions(v, "sd") and mentions(v, "grad_proj")) or _short(v) in ("zeros",)
                desc = f"{f.local}:{n.line} sd = {txt[:50]}"
                if ok:
                    rep.ok("R15.4", desc + " lies in the null space of the working set")
                else:
                    rep.bad("R15.4", desc)
                    rep.finding("R15.4", f, norm(n.ast)[:100], n.line, "a search direction is not projected onto the null space of the working set (q[:, n_act:])")


def r155(ctx, rep):
    exc = ctx.facts.exc
    for q in PUBLIC:
        f = ctx.func(q)
        hits = {c: w for c, w in exc.raises[q].items() if is_subclass(c, "ZeroDivisionError", exc.bases)}
        if hits:
            for c, w in hits.items():
                rep.bad("R15.5", f"{f.local}")
                rep.finding("R15.5", f, w[0][2], w[0][1], "ZeroDivisionError of the trust-region step length can leave the solver", witness=exc.fmt_witness(w))
        else:
            rep.ok("R15.5", f"{f.local}: ZeroDivisionError is handled at every _alpha_tr call")


def run(ctx, rep):
    rep.rule("R15.1", "every definition of the returned iterate is zero / clip to own [xl,xu] / snap / restore / select / (angle-limited) rotation")
    rep.rule("R15.2", "xl, xu (and bub) are re-bound to min/max with 0 before any other use")
    rep.rule("R15.3", "the step length multiplying the direction is <= every limit the solver computes (alpha_tr, alpha_bd, alpha_ub); alpha_bd = min of all bound step lengths")
    rep.rule("R15.4", "working-set change => QR refresh before the basis is used; search directions are null-space projections")
    rep.rule("R15.5", "ZeroDivisionError does not leave a public solver")
    r151(ctx, rep)
    r152(ctx, rep)
    r153(ctx, rep)
    r154(ctx, rep)
    r155(ctx, rep)
