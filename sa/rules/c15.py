"""C15 - subproblem solvers always return admissible steps (structural
clauses; norms and residual arithmetic are numerical and not decided).

R15.1 write classification: every definition of the returned iterate in the
      five public solvers and _cauchy_geom is a zero vector, a clip to the
      function's own [xl, xu], a snap of one component to its bound, a
      restore of a checkpoint copy, a selection between admissible values, or
      a boundary rotation (angle-limited; accepted structurally, its norm is
      NOT decided).
R15.2 origin feasible: xl = minimum(xl, 0), xu = maximum(xu, 0) (and
      bub = maximum(bub, 0)) are re-bound before any other use.
R15.3 the step length multiplying the search direction is bounded by every
      limiting step length the solver computes (trust region, bounds, linear
      constraints): upper-bound sets through min(...) definitions.
R15.4 in the linearly constrained solvers every change of the working set is
      followed by a QR refresh before the basis is used again, and every
      search direction is a projection onto the null space of the working set.
R15.5 ZeroDivisionError of _alpha_tr does not leave a public solver.
"""
from __future__ import annotations

import ast

from ..astutil import norm, dotted, const_value
from ..loader import AnalysisError
from ..facts import is_subclass
from .. import tables as T
from .c07 import mentions, enclosing_context

PUBLIC = [
    "cobyqa.subsolvers.optim:tangential_byrd_omojokun",
    "cobyqa.subsolvers.optim:constrained_tangential_byrd_omojokun",
    "cobyqa.subsolvers.optim:normal_byrd_omojokun",
    "cobyqa.subsolvers.geometry:cauchy_geometry",
    "cobyqa.subsolvers.geometry:spider_geometry",
]
HELPERS = ["cobyqa.subsolvers.geometry:_cauchy_geom"]


def _short(e):
    if isinstance(e, ast.Call):
        d = dotted(e.func)
        return d.split(".")[-1] if d else None
    return None


def returned_names(f):
    out = []
    from ..astutil import owner_function
    for node in ast.walk(f.node):
        if isinstance(node, ast.Return) and node.value is not None:
            if owner_function(node) is not f.node:
                continue      # a return of a nested function
            v = node.value
            if isinstance(v, ast.Tuple):
                v = v.elts[0]
            if isinstance(v, ast.Name):
                out.append(v.id)
            else:
                out.append(None)
    return out


def _mask_of(sub):
    return norm(sub.slice) if isinstance(sub, ast.Subscript) else None


def _is_bound(e, which, mask=None):
    """xl / xl[M] with the same mask"""
    if mask is None:
        return isinstance(e, ast.Name) and e.id == which
    return isinstance(e, ast.Subscript) and isinstance(e.value, ast.Name) and e.value.id == which and _mask_of(e) == mask


def classify_write(ctx, f, var, stmt, admissible_names):
    """-> (kind, detail) ; kind None = unclassified"""
    if isinstance(stmt, ast.Assign) and len(stmt.targets) == 1:
        t, v = stmt.targets[0], stmt.value
        if isinstance(t, ast.Name) and t.id == var:
            s = _short(v)
            if s in ("zeros", "zeros_like"):
                return "zero", norm(v)
            if s == "clip" and len(v.args) == 3:
                if _is_bound(v.args[1], "xl") and _is_bound(v.args[2], "xu"):
                    return "clip", norm(v)[:60]
                return None, f"clip to `{norm(v.args[1])}`, `{norm(v.args[2])}` instead of the function's own xl, xu"
            if s in ("minimum",) and len(v.args) == 2 and _short(v.args[0]) == "maximum" and _is_bound(v.args[1], "xu") and _is_bound(v.args[0].args[1], "xl"):
                return "clip", norm(v)[:60]
            if s in ("maximum",) and len(v.args) == 2 and _short(v.args[0]) == "minimum" and _is_bound(v.args[1], "xl") and _is_bound(v.args[0].args[1], "xu"):
                return "clip", norm(v)[:60]
            if isinstance(v, ast.Name) and v.id in admissible_names:
                return "restore/select", v.id
            if isinstance(v, ast.IfExp) and isinstance(v.body, ast.Name) and isinstance(v.orelse, ast.Name) and v.body.id in admissible_names and v.orelse.id in admissible_names:
                return "select", norm(v)[:60]
            return None, f"`{norm(v)[:60]}` is not clipped to [xl, xu]"
        if isinstance(t, ast.Subscript) and isinstance(t.value, ast.Name) and t.value.id == var:
            mask = _mask_of(t)
            s = _short(v)
            if s == "clip" and len(v.args) == 3:
                if _is_bound(v.args[1], "xl", mask) and _is_bound(v.args[2], "xu", mask):
                    return "clip", norm(v)[:60]
                return None, f"masked clip with bounds `{norm(v.args[1])}`, `{norm(v.args[2])}` that do not use the mask `{mask}` of the target"
            if _is_bound(v, "xl", mask) or _is_bound(v, "xu", mask):
                return "snap", norm(stmt)[:60]
            if isinstance(v, ast.Subscript) and isinstance(v.value, ast.Name) and v.value.id in ("xl", "xu"):
                return None, f"component `{mask}` is set from bound component `{_mask_of(v)}` (index mismatch)"
            # rotation: c * var[M] + s * sd[M]
            if isinstance(v, ast.BinOp) and isinstance(v.op, ast.Add):
                terms = [v.left, v.right]
                if all(isinstance(x, ast.BinOp) and isinstance(x.op, ast.Mult) for x in terms):
                    subs = [y for x in terms for y in (x.left, x.right) if isinstance(y, ast.Subscript) and _mask_of(y) == mask]
                    scal = [y for x in terms for y in (x.left, x.right) if not (isinstance(y, ast.Subscript) and _mask_of(y) == mask)]
                    if len(subs) == 2 and len(scal) == 2 and any(isinstance(y.value, ast.Name) and y.value.id == var for y in subs) and any(isinstance(y.value, ast.Name) and y.value.id != var for y in subs):
                        return "rotation", norm(stmt)[:70]
            return None, f"`{norm(stmt)[:70]}` writes components without clipping or snapping to a bound"
    if isinstance(stmt, ast.AugAssign):
        return None, f"in-place update `{norm(stmt)[:60]}` without clipping"
    return None, f"`{norm(stmt)[:60]}`"


def r151(ctx, rep, rule="R15.1"):
    n_sites = 0
    for q in PUBLIC + HELPERS:
        f = ctx.func(q)
        names = returned_names(f)
        if not names or any(n is None for n in names):
            rep.bad(rule, f"{f.local} return")
            rep.finding(rule, f, "return value", f.node.lineno, "the solver does not return a named iterate (cannot classify its definitions)")
            continue
        var = names[0]
        # admissible helper values: checkpoint copies of var, results of the
        # classified helper, other returned names
        admissible = set()
        for node in ast.walk(f.node):
            if isinstance(node, ast.Assign) and len(node.targets) == 1:
                t, v = node.targets[0], node.value
                if isinstance(t, ast.Name) and _short(v) == "copy" and v.args and isinstance(v.args[0], ast.Name) and v.args[0].id == var:
                    admissible.add(t.id)
                if isinstance(t, ast.Name) and isinstance(v, ast.Call) and isinstance(v.func, ast.Attribute) and v.func.attr == "copy" and isinstance(v.func.value, ast.Name) and v.func.value.id == var:
                    admissible.add(t.id)
                if isinstance(t, (ast.Tuple, ast.List)) and isinstance(v, ast.Call):
                    if any(tt.kind == "repo" and tt.name in HELPERS for tt in ctx.res.call_targets(v, f)) and isinstance(t.elts[0], ast.Name):
                        admissible.add(t.elts[0].id)
        # the checkpoint copies (those actually restored) must not be modified afterwards
        restored = set()
        for node in ast.walk(f.node):
            if isinstance(node, ast.Assign) and any(isinstance(t, ast.Name) and t.id == var for t in node.targets):
                for sub in ast.walk(node.value):
                    if isinstance(sub, ast.Name) and sub.id in admissible:
                        restored.add(sub.id)
        for node in ast.walk(f.node):
            if isinstance(node, (ast.Assign, ast.AugAssign)):
                for t in (node.targets if isinstance(node, ast.Assign) else [node.target]):
                    base = t
                    while isinstance(base, ast.Subscript):
                        base = base.value
                    if isinstance(t, ast.Subscript) and isinstance(base, ast.Name) and base.id in restored:
                        rep.bad(rule, f"{f.local}:{node.lineno} checkpoint modified")
                        rep.finding(rule, f, norm(node)[:80], node.lineno, f"the checkpoint copy `{base.id}` of the iterate is modified in place")
        for node in ast.walk(f.node):
            stmt = None
            if isinstance(node, ast.Assign):
                for t in node.targets:
                    base = t
                    while isinstance(base, ast.Subscript):
                        base = base.value
                    if isinstance(base, ast.Name) and base.id == var:
                        stmt = node
            elif isinstance(node, ast.AugAssign):
                base = node.target
                while isinstance(base, ast.Subscript):
                    base = base.value
                if isinstance(base, ast.Name) and base.id == var:
                    stmt = node
            if stmt is None:
                continue
            n_sites += 1
            kind, detail = classify_write(ctx, f, var, stmt, admissible)
            desc = f"{f.local}:{stmt.lineno} `{norm(stmt)[:60]}`"
            if kind is None:
                rep.bad(rule, desc)
                rep.finding(rule, f, norm(stmt)[:120], stmt.lineno, f"the returned iterate `{var}` is written without keeping it inside the bounds: {detail}")
            else:
                rep.ok(rule, desc + f" - {kind}" + (" (norm not decided)" if kind == "rotation" else ""))
                if kind == "rotation":
                    rep.obl.note(f"NOT-DECIDED: rotation at {f.local}:{stmt.lineno} stays in the box only through the angle bound t_bd (numerical)")
    if n_sites < 25:
        raise AnalysisError(f"only {n_sites} write sites of solver iterates classified (floor 25)")
    rep.analysed["iterate_write_sites"] = n_sites


def r152(ctx, rep):
    for q in PUBLIC:
        f = ctx.func(q)
        cfg = ctx.cfg(f)
        need = [("xl", "minimum"), ("xu", "maximum")]
        if "bub" in f.params and "constrained" in f.name:
            need.append(("bub", "maximum"))
        for name, fn in need:
            rebind = None
            for n in cfg.nodes:
                if n.kind == "stmt" and isinstance(n.ast, ast.Assign) and any(isinstance(t, ast.Name) and t.id == name for t in n.ast.targets):
                    v = n.ast.value
                    if _short(v) == fn and len(v.args) == 2 and isinstance(v.args[0], ast.Name) and v.args[0].id == name and const_value(v.args[1]) in (0, 0.0):
                        rebind = n
                        break
            desc = f"{f.local}: {name} = {fn}({name}, 0.0) before use"
            if rebind is None:
                rep.bad("R15.2", desc)
                rep.finding("R15.2", f, f"{name} = {fn}({name}, 0.0)", f.node.lineno,
                            f"`{name}` is not re-bound to {fn}({name}, 0): with a slightly infeasible origin (rounding) the zero step / the snapped components can violate the bounds handed in")
                continue
            # every other read of the name (outside the debug block) is dominated by the rebind
            bad = None
            for n in cfg.nodes:
                if n.id == rebind.id or n.kind in ("entry", "exit", "raise"):
                    continue
                expr = n.expr()
                exprs = expr if isinstance(expr, list) else [expr]
                reads = False
                for e in exprs:
                    if e is None:
                        continue
                    for sub in ast.walk(e if isinstance(e, ast.AST) else e.context_expr):
                        if isinstance(sub, ast.Name) and sub.id == name and isinstance(sub.ctx, ast.Load):
                            reads = True
                if reads and not cfg.dominates(rebind.id, n.id):
                    ctxs = enclosing_context(n.ast, f.node)
                    if any(k == "if-true" and mentions(w, "debug") for k, w, _ in ctxs) or isinstance(n.ast, ast.Assert):
                        continue
                    bad = n
            if bad is not None:
                rep.bad("R15.2", desc)
                rep.finding("R15.2", f, bad.text()[:80], bad.line, f"`{name}` is used before it has been re-bound to {fn}({name}, 0)")
            else:
                rep.ok("R15.2", desc)


# ---------------------------------------------------------------------------
def upper_bounds(f, cfg, rd, var, nid, depth=0, seen=None):
    """names n with var <= n on every path at node nid (through min(...) definitions)."""
    seen = seen or set()
    defs = rd.get(nid, {}).get(var, frozenset())
    if not defs or depth > 6:
        return set()
    res = None
    for dn in defs:
        if dn == cfg.entry or (dn, var) in seen:
            ub = set()
        else:
            s = cfg.nodes[dn].ast
            ub = set()
            if isinstance(s, ast.Assign) and isinstance(s.value, ast.Call) and _short(s.value) in ("min", "minimum"):
                ops = s.value.args
                if len(ops) == 1 and isinstance(ops[0], (ast.List, ast.Tuple)):
                    ops = ops[0].elts
                for o in ops:
                    if isinstance(o, ast.Name):
                        ub.add(o.id)
                        ub |= upper_bounds(f, cfg, rd, o.id, dn, depth + 1, seen | {(dn, var)})
                    elif isinstance(o, ast.Call) and _short(o) in ("min", "minimum"):
                        for oo in o.args:
                            if isinstance(oo, ast.Name):
                                ub.add(oo.id)
            elif isinstance(s, ast.Assign) and isinstance(s.value, ast.Name):
                ub.add(s.value.id)
                ub |= upper_bounds(f, cfg, rd, s.value.id, dn, depth + 1, seen | {(dn, var)})
        res = ub if res is None else (res & ub)
    return res or set()


def r153(ctx, rep):
    n = 0
    for q in PUBLIC[:3] + HELPERS:
        f = ctx.func(q)
        cfg = ctx.cfg(f)
        rd = cfg.reaching_defs()
        names = returned_names(f)
        var = names[0] if names else None
        limit_names = set()
        for node in ast.walk(f.node):
            if isinstance(node, ast.Assign):
                for t in node.targets:
                    if isinstance(t, ast.Name) and t.id in ("alpha_tr", "alpha_bd", "alpha_ub"):
                        limit_names.add(t.id)
        # update statements: var(..) = clip(var(..) + alpha * sd(..)) / alpha * cauchy_step
        for nd in cfg.nodes:
            if nd.kind != "stmt" or not isinstance(nd.ast, ast.Assign):
                continue
            s = nd.ast
            base = s.targets[0]
            while isinstance(base, ast.Subscript):
                base = base.value
            if not (isinstance(base, ast.Name) and base.id == var):
                continue
            alphas = set()
            for sub in ast.walk(s.value):
                if isinstance(sub, ast.BinOp) and isinstance(sub.op, ast.Mult):
                    for side in (sub.left, sub.right):
                        if isinstance(side, ast.Name) and side.id.startswith("alpha"):
                            alphas.add(side.id)
            for a in alphas:
                n += 1
                ub = upper_bounds(f, cfg, rd, a, nd.id) | {a}
                # alpha_bd's own components
                missing = sorted(limit_names - ub)
                desc = f"{f.local}:{nd.line} step length `{a}` <= {sorted(ub - {a})}"
                if missing:
                    rep.bad("R15.3", desc)
                    rep.finding("R15.3", f, norm(s)[:100], nd.line,
                                f"the step length `{a}` used to update the iterate is not bounded by {missing} (limits the solver computes: {sorted(limit_names)}): the step can cross "
                                f"{'the trust-region boundary' if 'alpha_tr' in missing else 'a bound or linear constraint'}")
                else:
                    rep.ok("R15.3", desc)
        # alpha_bd = min(alpha_xl, alpha_xu[, alpha_slack])
        for nd in cfg.nodes:
            if nd.kind == "stmt" and isinstance(nd.ast, ast.Assign) and any(isinstance(t, ast.Name) and t.id == "alpha_bd" for t in nd.ast.targets):
                v = nd.ast.value
                ops = {o.id for o in v.args if isinstance(o, ast.Name)} if isinstance(v, ast.Call) and _short(v) == "min" else set()
                have = {x for x in ("alpha_xl", "alpha_xu", "alpha_slack") if any(isinstance(t, ast.Name) and t.id == x for m in ast.walk(f.node) if isinstance(m, ast.Assign) for t in m.targets)}
                n += 1
                desc = f"{f.local}:{nd.line} alpha_bd = min{sorted(ops)}"
                if have <= ops:
                    rep.ok("R15.3", desc)
                else:
                    rep.bad("R15.3", desc)
                    rep.finding("R15.3", f, norm(nd.ast), nd.line, f"alpha_bd ignores {sorted(have - ops)}: the iterate can cross that bound")
    # spider geometry: alpha_pos = min(alpha_tr, alpha_bd_pos); alpha_neg = max(-alpha_tr, alpha_bd_neg)
    f = ctx.func(PUBLIC[4])
    for node in ast.walk(f.node):
        if isinstance(node, ast.Assign) and len(node.targets) == 1 and isinstance(node.targets[0], ast.Name) and node.targets[0].id in ("alpha_pos", "alpha_neg") and isinstance(node.value, ast.Call) and _short(node.value) in ("min", "max"):
            nm = node.targets[0].id
            fn = _short(node.value)
            argt = [norm(a) for a in node.value.args]
            n += 1
            want_fn = "min" if nm == "alpha_pos" else "max"
            want = {"alpha_tr", "alpha_bd_pos"} if nm == "alpha_pos" else {"-alpha_tr", "alpha_bd_neg"}
            desc = f"{f.local}:{node.lineno} {nm} = {fn}({', '.join(argt)})"
            if fn == want_fn and want <= set(argt):
                rep.ok("R15.3", desc)
            else:
                rep.bad("R15.3", desc)
                rep.finding("R15.3", f, norm(node), node.lineno, f"`{nm}` must be {want_fn}({', '.join(sorted(want))}) so that the step respects both the trust region and the bounds")
    if n < 8:
        raise AnalysisError(f"only {n} step-length obligations found (floor 8)")


# ---------------------------------------------------------------------------
def r154(ctx, rep):
    for q in (PUBLIC[1], PUBLIC[2]):
        f = ctx.func(q)
        cfg = ctx.cfg(f)
        qr_nodes = set()
        for ev in ctx.events(f):
            if ev.kind == "call" and any(t.kind == "repo" and t.func.name.startswith("qr_") for t in ev.targets):
                qr_nodes.add(cfg.node_containing(ev.node))
        if not qr_nodes:
            rep.bad("R15.4", f"{f.local} qr")
            rep.finding("R15.4", f, "no qr_* call", f.node.lineno, "the working-set basis is never computed")
            continue
        q_reads = set()
        for n in cfg.nodes:
            if n.kind in ("entry", "exit", "raise") or n.id in qr_nodes:
                continue
            e = n.expr()
            for x in (e if isinstance(e, list) else [e]):
                if x is None:
                    continue
                for sub in ast.walk(x if isinstance(x, ast.AST) else x.context_expr):
                    if isinstance(sub, ast.Name) and sub.id in ("q", "n_act") and isinstance(sub.ctx, ast.Load):
                        q_reads.add(n.id)
        k = 0
        for n in cfg.nodes:
            if n.kind == "stmt" and isinstance(n.ast, ast.Assign) and isinstance(n.ast.targets[0], ast.Subscript) and isinstance(n.ast.targets[0].value, ast.Name) and n.ast.targets[0].value.id.startswith("free_") and const_value(n.ast.value) is False:
                k += 1
                # reads of q reachable from here without passing a qr refresh
                reach = cfg.reachable(n.id, avoid=qr_nodes, skip_exc=True) - {n.id}
                stale = sorted(reach & q_reads)
                desc = f"{f.local}:{n.line} `{n.text()[:40]}` followed by a QR refresh"
                if q == PUBLIC[2] and "free_bd" in n.text():
                    continue
                if stale:
                    # in the normal solver the final improvement phase does not use q
                    rep.bad("R15.4", desc)
                    rep.finding("R15.4", f, n.text()[:80], n.line,
                                f"the working set changes here but the basis `q`/`n_act` is used again at line {cfg.nodes[stale[0]].line} without a QR refresh: the next direction leaves the null space of the active constraints")
                else:
                    rep.ok("R15.4", desc)
        if k < 4:
            raise AnalysisError(f"{f.local}: only {k} working-set updates found (floor 4)")
        # search directions are projections
        for n in cfg.nodes:
            if n.kind == "stmt" and isinstance(n.ast, ast.Assign) and any(isinstance(t, ast.Name) and t.id == "sd" for t in n.ast.targets):
                from ..inline import expander
                v = expander(ctx, f, stop=("sd", "grad_proj")).expand(n.ast.value, n.ast)
                txt = norm(v)
                ok = ("q[:, n_act:]" in txt) or (isinstance(v, ast.BinOp) and mentions(v, "sd") and mentions(v, "grad_proj")) or _short(v) in ("zeros",)
                desc = f"{f.local}:{n.line} sd = {txt[:50]}"
                if ok:
                    rep.ok("R15.4", desc + " lies in the null space of the working set")
                else:
                    rep.bad("R15.4", desc)
                    rep.finding("R15.4", f, norm(n.ast)[:100], n.line, "a search direction is not projected onto the null space of the working set (q[:, n_act:])")


def r155(ctx, rep):
    exc = ctx.facts.exc
    for q in PUBLIC:
        f = ctx.func(q)
        exc.check(q)
        hits = {c: w for c, w in exc.raises[q].items() if is_subclass(c, "ZeroDivisionError", exc.bases)}
        if hits:
            for c, w in hits.items():
                rep.bad("R15.5", f"{f.local}")
                rep.finding("R15.5", f, w[0][2], w[0][1], "ZeroDivisionError of the trust-region step length can leave the solver", witness=exc.fmt_witness(w))
        else:
            rep.ok("R15.5", f"{f.local}: ZeroDivisionError is handled at every _alpha_tr call")


def run(ctx, rep):
    rep.rule("R15.1", "every definition of the returned iterate is zero / clip to own [xl,xu] / snap / restore / select / (angle-limited) rotation")
    rep.rule("R15.2", "xl, xu (and bub) are re-bound to min/max with 0 before any other use")
    rep.rule("R15.3", "the step length multiplying the direction is <= every limit the solver computes (alpha_tr, alpha_bd, alpha_ub); alpha_bd = min of all bound step lengths")
    rep.rule("R15.4", "working-set change => QR refresh before the basis is used; search directions are null-space projections")
    rep.rule("R15.5", "ZeroDivisionError does not leave a public solver")
    r151(ctx, rep)
    r152(ctx, rep)
    r153(ctx, rep)
    r154(ctx, rep)
    r155(ctx, rep)


# ---------------------------------------------------------------------------
# additional structural clauses (added after the first round of seeded changes)
import re as _re

_ID = _re.compile(r"[A-Za-z_][A-Za-z_0-9]*")


def _swap_lu(name):
    if "xl" in name:
        return name.replace("xl", "xu")
    if "xu" in name:
        return name.replace("xu", "xl")
    return name


def _idents(node):
    return sorted(n.id for n in ast.walk(node) if isinstance(n, ast.Name))


def r156(ctx, rep):
    """lower/upper sibling symmetry: the k-th assignment of a name containing
    `xl` and the k-th assignment of its `xu` twin read the same variables up to
    the xl <-> xu renaming."""
    n = 0
    for q in PUBLIC + HELPERS:
        f = ctx.func(q)
        assigns = {}
        for node in ast.walk(f.node):
            if isinstance(node, ast.Assign) and len(node.targets) == 1:
                t = node.targets[0]
                base = t
                while isinstance(base, ast.Subscript):
                    base = base.value
                if isinstance(base, ast.Name) and ("xl" in base.id or "xu" in base.id) and base.id not in ("xl", "xu"):
                    assigns.setdefault(base.id, []).append(node)
        for name, lst in assigns.items():
            if "xl" not in name:
                continue
            twin = _swap_lu(name)
            tl = assigns.get(twin, [])
            lst = sorted(lst, key=lambda x: x.lineno)
            tl = sorted(tl, key=lambda x: x.lineno)
            if name.startswith("free_"):
                # working-set flags: -e_i and +e_i span the same active space, an
                # asymmetry here does not affect admissibility (observation only)
                if len(lst) != len(tl):
                    rep.obl.note(f"OBSERVATION (not a finding): {f.local} clears `{name}` {len(lst) - 1}x but `{twin}` {len(tl) - 1}x (e.g. the upper-bound branch of the rotation loop clears free_xl); the null space is unaffected")
                continue
            if len(lst) != len(tl):
                rep.bad("R15.6", f"{f.local}: {name}/{twin}")
                rep.finding("R15.6", f, f"{name} x{len(lst)} vs {twin} x{len(tl)}", (lst or tl)[0].lineno, f"`{name}` is assigned {len(lst)} time(s) but its twin `{twin}` {len(tl)} time(s): lower and upper bounds are not treated symmetrically")
                continue
            for a, b in zip(lst, tl):
                n += 1
                ia = sorted(_swap_lu(x) for x in _idents(a))
                ib = _idents(b)
                desc = f"{f.local}:{a.lineno}/{b.lineno} {name} ~ {twin}"
                if ia == ib:
                    rep.ok("R15.6", desc)
                else:
                    diff = sorted(set(ib) ^ set(ia))
                    rep.bad("R15.6", desc)
                    rep.finding("R15.6", f, norm(b)[:120], b.lineno,
                                f"`{norm(b)[:70]}` is the upper-bound twin of `{norm(a)[:70]}` but does not read the corresponding variables (differs in {diff}): "
                                f"the limit for one side of the box is computed from the other side's bound")
    if n < 20:
        raise AnalysisError(f"only {n} lower/upper twin assignments found (floor 20)")


def _lin_terms(e):
    """E = sum coef_k * vec_k  -> list of (coef expr or None(=1), sign, vec root name)"""
    out = []

    def root(x):
        while isinstance(x, ast.Subscript):
            x = x.value
        return x.id if isinstance(x, ast.Name) else None

    def walk(x, sign):
        if isinstance(x, ast.BinOp) and isinstance(x.op, ast.Add):
            walk(x.left, sign)
            walk(x.right, sign)
        elif isinstance(x, ast.BinOp) and isinstance(x.op, ast.Sub):
            walk(x.left, sign)
            walk(x.right, -sign)
        elif isinstance(x, ast.BinOp) and isinstance(x.op, ast.Mult):
            lr, rr = root(x.left), root(x.right)
            if rr is not None and isinstance(x.right, (ast.Name, ast.Subscript)) and (lr is None or not _is_vec(lr)):
                out.append((x.left, sign, rr))
            elif lr is not None:
                out.append((x.right, sign, lr))
            else:
                out.append((x, sign, None))
        elif isinstance(x, ast.UnaryOp) and isinstance(x.op, ast.USub):
            walk(x.operand, -sign)
        else:
            r = root(x)
            out.append((None, sign, r))
    walk(e, 1)
    return out


_VEC = ("step", "step_proj", "sd", "hess_step", "hess_sd", "aub_step", "aub_sd", "resid", "grad")


def _is_vec(name):
    return name in _VEC


def _coef_value(coef, sign, seed):
    """numeric value of a coefficient expression under a pseudo-random but
    fixed assignment of its names (checker-side evaluation of a scalar
    formula, nothing of the repository is executed)"""
    from .. import minieval
    if coef is None:
        return float(sign)
    names = {}
    attrs = {}
    k = 0
    for sub in ast.walk(coef):
        if isinstance(sub, ast.Name) and sub.id not in names:
            k += 1
            names[sub.id] = 0.37 + 0.11 * ((hash(sub.id) % 97) / 97.0) + 0.01 * seed
    # subscripts like sin_values[i_max] are opaque scalars
    class _T(ast.NodeTransformer):
        def visit_Subscript(self, node):
            nm = "_sub_" + str(abs(hash(norm(node))) % 10 ** 8)
            names[nm] = 0.53 + 0.07 * ((hash(norm(node)) % 89) / 89.0) + 0.01 * seed
            return ast.copy_location(ast.Name(id=nm, ctx=ast.Load()), node)
    import copy as _copy
    from ..inline import _clone
    c2 = _T().visit(_clone(coef))
    try:
        return sign * float(minieval.ev(c2, minieval.Env(names, attrs)))
    except minieval.Unsupported:
        return None


def r157(ctx, rep):
    """linear images are updated with the coefficients of the step update:
    step += sum c_k v_k  =>  grad += sum c_k H v_k  and  resid -= sum c_k A v_k"""
    n = 0
    for q in PUBLIC[:2]:
        f = ctx.func(q)
        # image table: name -> (map, preimage)
        image = {}
        for node in ast.walk(f.node):
            if isinstance(node, ast.Assign) and len(node.targets) == 1 and isinstance(node.targets[0], ast.Name):
                v = node.value
                if isinstance(v, ast.Call) and norm(v.func) == "hess_prod" and v.args and isinstance(v.args[0], ast.Name):
                    image[node.targets[0].id] = ("H", v.args[0].id)
                if isinstance(v, ast.BinOp) and isinstance(v.op, ast.MatMult) and norm(v.left) == "aub" and isinstance(v.right, ast.Name):
                    image[node.targets[0].id] = ("A", v.right.id)
        # rotation blocks: while loops whose body updates step with cos/sin
        for loop in ast.walk(f.node):
            if not isinstance(loop, ast.While):
                continue
            upd = None
            for s in loop.body:
                if isinstance(s, ast.Assign) and len(s.targets) == 1:
                    base = s.targets[0]
                    while isinstance(base, ast.Subscript):
                        base = base.value
                    if isinstance(base, ast.Name) and base.id == "step" and mentions(s.value, "cos_value"):
                        upd = s
            if upd is None:
                continue
            v = upd.value
            if _short(v) == "clip":
                v = v.args[0]
            terms = _lin_terms(v)
            assign_form = isinstance(upd.targets[0], ast.Subscript)
            delta = {}
            for coef, sign, vec in terms:
                if vec is None:
                    continue
                delta.setdefault(vec, []).append((coef, sign))
            # in the assignment form  step[M] = c*step[M] + s*sd[M]  the increment of
            # `step` is (c - 1); in the increment form  step + (c-1)*step_proj + s*sd
            # the bare `step` term is the old value
            for tgt, mapk, sgn in (("grad", "H", 1.0), ("resid", "A", -1.0)):
                st = None
                for s in loop.body:
                    if isinstance(s, ast.AugAssign) and norm(s.target) == tgt and isinstance(s.op, ast.Add):
                        st = ("aug", s, s.value)
                    if isinstance(s, ast.Assign) and norm(s.targets[0]) == tgt and mentions(s.value, tgt):
                        vv = s.value
                        if _short(vv) in ("maximum",) and len(vv.args) == 2:
                            vv = vv.args[1] if const_value(vv.args[0]) in (0, 0.0) else vv.args[0]
                        st = ("assign", s, vv)
                if st is None:
                    if tgt == "resid" and q == PUBLIC[0]:
                        continue
                    if tgt == "grad" or q == PUBLIC[1]:
                        rep.bad("R15.7", f"{f.local}: {tgt} update in the rotation loop")
                        rep.finding("R15.7", f, f"{tgt} not updated with the rotated step", upd.lineno, f"the rotation changes the iterate but `{tgt}` is not updated accordingly")
                    continue
                kind, stmt, expr = st
                tterms = _lin_terms(expr)
                for seed in (0, 1, 2):
                    want = {}
                    for vec, lst in delta.items():
                        tot = 0.0
                        bad = False
                        for coef, sign in lst:
                            cv = _coef_value(coef, sign, seed)
                            if cv is None:
                                bad = True
                            else:
                                tot += cv
                        if bad:
                            continue
                        if vec == "step":
                            if assign_form:
                                tot -= 1.0
                            else:
                                continue  # bare old value in the increment form
                        want[vec] = tot
                    got = {}
                    for coef, sign, vec in tterms:
                        if vec is None or vec == tgt:
                            continue
                        if vec not in image or image[vec][0] != mapk:
                            got[("?", vec)] = 1.0
                            continue
                        cv = _coef_value(coef, sign, seed)
                        if cv is None:
                            continue
                        got[image[vec][1]] = got.get(image[vec][1], 0.0) + cv
                    ok = all(abs(got.get(vec, 0.0) - sgn * c) < 1e-9 for vec, c in want.items()) and not any(isinstance(k, tuple) for k in got) and set(k for k in got) <= set(want)
                    if not ok:
                        break
                n += 1
                desc = f"{f.local}:{stmt.lineno} `{tgt}` follows the rotated step through {'the Hessian' if mapk == 'H' else 'the constraint matrix'}"
                if ok:
                    rep.ok("R15.7", desc)
                else:
                    rep.bad("R15.7", desc)
                    rep.finding("R15.7", f, norm(stmt)[:140], stmt.lineno,
                                f"the update of `{tgt}` does not apply the coefficients of the step update `{norm(upd)[:70]}` to the images of the same vectors "
                                f"({'grad += sum c_k H v_k' if mapk == 'H' else 'resid -= sum c_k A v_k'}): the bookkeeping no longer describes the iterate, "
                                f"{'later decisions use a wrong gradient' if mapk == 'H' else 'the step lengths to the linear constraints are wrong and a constraint satisfied at the origin can be violated'}")
    if n < 3:
        raise AnalysisError(f"only {n} image-update obligations found (floor 3)")


def check_stale_loop_vars(ctx, rep, rule, quals):
    """A per-iteration temporary of a `for` loop must not be read after the
    loop: its value is the one of the last iteration."""
    from ..cfg import defs_of
    n = 0
    for q in quals:
        f = ctx.func(q)
        cfg = ctx.cfg(f)
        rd = cfg.reaching_defs()
        for loop in ast.walk(f.node):
            if not isinstance(loop, ast.For):
                continue
            body_nodes = {cfg.by_ast[id(s)] for s in ast.walk(loop) if id(s) in cfg.by_ast and s is not loop}
            strong = {}
            for nid in body_nodes:
                nd = cfg.nodes[nid]
                for v, st in defs_of(nd).items():
                    if st:
                        strong.setdefault(v, set()).add(nid)
            loop_targets = {x.id for x in ast.walk(loop.target) if isinstance(x, ast.Name)}
            for var, dnodes in strong.items():
                if var in loop_targets:
                    continue
                for nd in cfg.nodes:
                    if nd.id in body_nodes or nd.kind in ("entry", "exit", "raise"):
                        continue
                    if nd.id == cfg.by_ast.get(id(loop)):
                        continue
                    e = nd.expr()
                    reads = False
                    for x in (e if isinstance(e, list) else [e]):
                        if x is None:
                            continue
                        for sub in ast.walk(x if isinstance(x, ast.AST) else x.context_expr):
                            if isinstance(sub, ast.Name) and sub.id == var and isinstance(sub.ctx, ast.Load):
                                reads = True
                    if not reads:
                        continue
                    defs = rd.get(nd.id, {}).get(var, frozenset())
                    if defs and defs <= dnodes:
                        # is it an accumulator (read in the loop before its def)? then fine
                        n += 1
                        rep.bad(rule, f"{f.local}:{nd.line} stale `{var}`")
                        rep.finding(rule, f, f"{var} @ {nd.text()[:80]}", nd.line,
                                    f"`{var}` is a per-iteration temporary of the loop at line {loop.lineno} but is read after the loop (line {nd.line}): it holds the value of the last iteration, not the one belonging to the selected element")
        n += 1
    return n


def r159(ctx, rep):
    """direction-sign masks: the masks selecting the components that move
    towards a bound compare the direction with a (TINY-relative) zero
    threshold, never with the bound itself."""
    from .. import minieval
    n = 0
    for q in PUBLIC[:3] + HELPERS:
        f = ctx.func(q)
        for node in ast.walk(f.node):
            if isinstance(node, ast.Assign) and len(node.targets) == 1 and isinstance(node.targets[0], ast.Name) and node.targets[0].id in ("i_xl", "i_xu", "i_ub", "i_slack"):
                if _in_rotation(node):
                    continue
                conj = []

                def split(e):
                    if isinstance(e, ast.BinOp) and isinstance(e.op, ast.BitAnd):
                        split(e.left)
                        split(e.right)
                    else:
                        conj.append(e)
                split(node.value)
                sign_tests = []
                for c in conj:
                    if isinstance(c, ast.Compare) and len(c.ops) == 1 and not mentions(c, "inf"):
                        sign_tests.append(c)
                n += 1
                desc = f"{f.local}:{node.lineno} {norm(node)[:70]}"
                if not sign_tests:
                    rep.bad("R15.9", desc)
                    rep.finding("R15.9", f, norm(node)[:120], node.lineno, "the mask of components moving towards the bound has no sign test on the direction")
                    continue
                okk = True
                for c in sign_tests:
                    thr = c.comparators[0]
                    names = {x.id: 1.0 for x in ast.walk(thr) if isinstance(x, ast.Name)}
                    names["TINY"] = 0.0
                    class _T(ast.NodeTransformer):
                        def visit_Subscript(self, nd):
                            return ast.copy_location(ast.Constant(1.0), nd)
                        def visit_Call(self, nd):
                            self.generic_visit(nd)
                            if (dotted(nd.func) or "").split(".")[-1] in ("abs", "absolute"):
                                return nd.args[0]
                            return nd
                    import copy as _copy
                    from ..inline import _clone
                    t2 = _T().visit(_clone(thr))
                    ast.fix_missing_locations(t2)
                    try:
                        val = minieval.ev(t2, minieval.Env(names, {}))
                    except minieval.Unsupported:
                        val = None
                    if val is None or abs(val) > 0.0:
                        okk = False
                if okk:
                    rep.ok("R15.9", desc + " - sign test with a TINY-relative zero threshold")
                else:
                    rep.bad("R15.9", desc)
                    rep.finding("R15.9", f, norm(node)[:120], node.lineno,
                                "the mask of components that move towards a bound compares the direction with the bound itself instead of a (TINY-relative) zero: "
                                "the set is empty, the step length to the bounds is infinite and the reported value belongs to an unclipped step")
    if n < 6:
        raise AnalysisError(f"only {n} direction-sign masks found (floor 6)")


def _in_rotation(node):
    cur = getattr(node, "_parent", None)
    while cur is not None:
        if isinstance(cur, ast.While) and any(isinstance(x, ast.Name) and x.id in ("t_bd", "t_min") for x in ast.walk(cur)):
            return True
        cur = getattr(cur, "_parent", None)
    return False


_old_run = run


def run(ctx, rep):  # noqa: F811
    _old_run(ctx, rep)
    rep.rule("R15.6", "lower/upper sibling symmetry of the bound bookkeeping (k-th assignment of *xl* vs *xu* names)")
    rep.rule("R15.7", "gradient and constraint residuals are updated with the coefficients of the step update applied to the images of the same vectors")
    rep.rule("R15.8", "no per-iteration temporary of a for loop is read after the loop")
    rep.rule("R15.9", "masks of components moving towards a bound are sign tests on the direction with a TINY-relative zero threshold")
    r156(ctx, rep)
    r157(ctx, rep)
    k = check_stale_loop_vars(ctx, rep, "R15.8", PUBLIC + HELPERS)
    rep.ok("R15.8", f"{len(PUBLIC + HELPERS)} solver functions scanned for stale loop temporaries")
    r159(ctx, rep)
    rep.rule("R15.10", "the subproblem data (bounds, constraint matrices, right-hand sides, radius) reach the solvers through the right parameters (no swapped arguments)")
    from . import common
    k2 = common.check_swapped_args(ctx, rep, "R15.10", lambda g: g.module.name.startswith("cobyqa.subsolvers"))
    if k2 < 8:
        raise AnalysisError("call sites of the subproblem solvers not found")


# ---------------------------------------------------------------------------
# sibling agreement of the three truncated-CG solvers (cross-check siblings)
def _slot_texts(f):
    """{(target root name, occurrence index): normalised statement text}"""
    counts = {}
    out = {}
    for node in sorted([n for n in ast.walk(f.node) if isinstance(n, (ast.Assign, ast.AugAssign))], key=lambda n: (n.lineno, n.col_offset)):
        tgt = node.targets[0] if isinstance(node, ast.Assign) else node.target
        base = tgt
        while isinstance(base, ast.Subscript):
            base = base.value
        if not isinstance(base, ast.Name):
            continue
        k = counts.get(base.id, 0)
        counts[base.id] = k + 1
        out[(base.id, k)] = (norm(node), node)
    return out


def _edit_small(a, b):
    """the two statement texts differ by at most two tokens"""
    ta, tb = _ID.findall(a) + _re.findall(r"[-+*/<>=|&~]+", a), _ID.findall(b) + _re.findall(r"[-+*/<>=|&~]+", b)
    if abs(len(ta) - len(tb)) > 1:
        return False
    from collections import Counter
    d = (Counter(ta) - Counter(tb)) + (Counter(tb) - Counter(ta))
    return 0 < sum(d.values()) <= 2


# slots in which the siblings legitimately differ (confirmed by reading; one
# line of reason each)
SIBLING_EXCEPTIONS = {
    "alpha_tr": "the normal solver works on (x, slack) vectors: _alpha_tr(step, sd[:n], ..) and a second limit for the slacks",
    "grad": "the normal solver recomputes the gradient of the least-squares objective instead of updating it",
    "sd": "projected vs. masked directions",
    "step": "masked vs. clipped updates",
    "resid": "the normal solver's residual includes the slack gradient",
    "i_xl": "the normal solver indexes sd[:n]", "i_xu": "the normal solver indexes sd[:n]",
    "all_alpha_xl": "sd[:n]", "all_alpha_xu": "sd[:n]",
    "alpha": "different sets of limiting step lengths", "alpha_bd": "slack bound in the normal solver",
    "hess_sd": "explicit Hessian of the least-squares objective in the normal solver",
    "free_xl": "gradient restricted to x in the normal solver", "free_xu": "gradient restricted to x in the normal solver", "free_ub": "slack formulation",
    "n_samples": "same", "k": "same", "reduct": "same",
}


def r1511(ctx, rep):
    fs = [ctx.func(q) for q in PUBLIC[:3]]
    slots = [_slot_texts(f) for f in fs]
    n = 0
    for key in sorted(set().union(*[set(s) for s in slots])):
        name, occ = key
        have = [(i, s[key]) for i, s in enumerate(slots) if key in s]
        if len(have) < 3 or name in SIBLING_EXCEPTIONS:
            continue
        texts = [h[1][0] for h in have]
        # two agree exactly, the third differs by a small edit
        for i in range(3):
            others = [texts[j] for j in range(3) if j != i]
            if others[0] == others[1] and texts[i] != others[0]:
                n += 1
                f = fs[have[i][0]]
                node = have[i][1][1]
                if _edit_small(texts[i], others[0]):
                    rep.bad("R15.11", f"{f.local}:{node.lineno} {name}#{occ}")
                    rep.finding("R15.11", f, texts[i][:140], node.lineno,
                                f"this statement differs from the identical statement in the two sibling solvers ({fs[(have[i][0] + 1) % 3].name}, {fs[(have[i][0] + 2) % 3].name}): "
                                f"`{others[0][:100]}` - the three solvers share this step of the boundary improvement / bound bookkeeping")
                break
        else:
            if texts[0] == texts[1] == texts[2]:
                n += 1
                rep.ok("R15.11", f"`{texts[0][:70]}` identical in the three solvers")
    if n < 10:
        raise AnalysisError(f"only {n} shared statements found in the three truncated-CG solvers (floor 10)")


_old_run2 = run


def run(ctx, rep):  # noqa: F811
    _old_run2(ctx, rep)
    rep.rule("R15.11", "sibling agreement: statements shared by the three truncated-CG solvers are identical (a statement that two siblings spell identically and the third differs from by a small edit is reported)")
    r1511(ctx, rep)


# ---------------------------------------------------------------------------
def _index_names(e):
    """names read inside the index of any subscript of e"""
    out = set()
    for sub in ast.walk(e):
        if isinstance(sub, ast.Subscript):
            for x in ast.walk(sub.slice):
                if isinstance(x, ast.Name):
                    out.add(x.id)
    return out


def stale_masked_reductions(fnode, cfg):
    """[(loop, var, def stmt, mask, use node, fresh partner)]: `var` is
    computed before the loop from operands restricted to the index set
    `mask`, the loop redefines `mask`, never recomputes `var`, and combines it
    with quantities recomputed in the loop over the current `mask`."""
    from ..cfg import defs_of
    rd = cfg.reaching_defs()
    out = []
    for loop in ast.walk(fnode):
        if not isinstance(loop, (ast.While, ast.For)):
            continue
        body = {cfg.by_ast[id(s)] for s in ast.walk(loop) if id(s) in cfg.by_ast and s is not loop}
        defd = {}
        for nid in body:
            for v, st in defs_of(cfg.nodes[nid]).items():
                defd.setdefault(v, set()).add(nid)
        for nid in sorted(body):
            nd = cfg.nodes[nid]
            e = nd.expr()
            if not isinstance(e, ast.AST):
                continue
            names = [x for x in ast.walk(e) if isinstance(x, ast.Name) and isinstance(x.ctx, ast.Load)]
            for x in names:
                ds = rd.get(nid, {}).get(x.id, frozenset())
                if not ds or (ds & body) or cfg.entry in ds:
                    continue
                for d in ds:
                    st = cfg.nodes[d].ast if cfg.nodes[d].kind == "stmt" else None
                    if not isinstance(st, ast.Assign) or not (len(st.targets) == 1 and isinstance(st.targets[0], ast.Name)):
                        continue
                    masks = _index_names(st.value) & set(defd)
                    if not masks:
                        continue
                    # partner: another name in the same expression, defined in
                    # the loop from operands restricted to the same mask
                    for y in names:
                        if y.id == x.id:
                            continue
                        dy = rd.get(nid, {}).get(y.id, frozenset())
                        if not dy or not (dy <= body):
                            continue
                        for d2 in dy:
                            st2 = cfg.nodes[d2].ast if cfg.nodes[d2].kind == "stmt" else None
                            if isinstance(st2, ast.Assign) and (_index_names(st2.value) & masks):
                                out.append((loop, x.id, st, sorted(masks)[0], nd, y.id))
                                break
    return out


_STALE_SELFTEST = '''
def f(step, grad, free):
    step_sq = step[free] @ step[free]
    while free.any():
        grad_sq = grad[free] @ grad[free]
        t = step_sq * grad_sq
        free = shrink(free, t)
    return step
'''


def r1512(ctx, rep):
    from ..cfg import CFG
    # positive control: the rule must fire on a minimal stale example
    t = ast.parse(_STALE_SELFTEST).body[0]
    from ..loader import set_parents
    set_parents(t)
    if not stale_masked_reductions(t, CFG(t)):
        raise AnalysisError("R15.12 self-test: the stale-reduction rule does not fire on its positive control")
    n = 0
    for q in PUBLIC + HELPERS:
        f = ctx.func(q)
        hits = stale_masked_reductions(f.node, ctx.cfg(f))
        loops = [l for l in ast.walk(f.node) if isinstance(l, (ast.While, ast.For))]
        n += len(loops)
        seen = set()
        for loop, var, st, mask, use, partner in hits:
            if (var, st.lineno) in seen:
                continue
            seen.add((var, st.lineno))
            rep.bad("R15.12", f"{f.local}:{st.lineno} `{var}`")
            rep.finding("R15.12", f, norm(st)[:100], st.lineno,
                        f"`{var}` is computed once before the loop at line {loop.lineno} over the index set `{mask}`, but the loop changes `{mask}` and combines the stale `{var}` "
                        f"with `{partner}` recomputed over the current set (line {use.line}): the rotation / step-length formula is no longer consistent and the step can leave the trust region")
        if not hits:
            rep.ok("R15.12", f"{f.local}: {len(loops)} loop(s), no reduction over a changing index set is hoisted out of its loop")
    if n < 8:
        raise AnalysisError(f"only {n} loops scanned in the solvers (floor 8)")


def r1513(ctx, rep):
    """rank-revealing factorisation: when the number of active constraints is
    estimated from the diagonal of R, the QR factorisation must be pivoted"""
    n = 0
    for f in ctx.repo.funcs.values():
        if not f.module.name.startswith("cobyqa.subsolvers") and f.module.name != "cobyqa.framework":
            continue
        for node in ast.walk(f.node):
            if not (isinstance(node, ast.Assign) and isinstance(node.value, ast.Call) and _short(node.value) == "qr"):
                continue
            tg = node.targets[0]
            if isinstance(tg, ast.Name):
                # fact = qr(..) ; r = fact[1]   (indexed access instead of unpacking)
                r = None
                for x in ast.walk(f.node):
                    if isinstance(x, ast.Assign) and len(x.targets) == 1 and isinstance(x.targets[0], ast.Name) and isinstance(x.value, ast.Subscript) and isinstance(x.value.value, ast.Name) \
                            and x.value.value.id == tg.id and isinstance(x.value.slice, ast.Constant) and x.value.slice.value == 1:
                        r = x.targets[0].id
                if r is None:
                    direct = [x for x in ast.walk(f.node) if isinstance(x, ast.Subscript) and isinstance(x.value, ast.Name) and x.value.id == tg.id and isinstance(x.slice, ast.Constant) and x.slice.value == 1]
                    if not direct:
                        continue      # the triangular factor is never taken out
                    r = tg.id
            elif not isinstance(tg, (ast.Tuple, ast.List)) or len(tg.elts) < 2 or not isinstance(tg.elts[1], ast.Name):
                raise AnalysisError(f"{f.local}:{node.lineno} result of qr() is not unpacked into (q, r, ..): shape not understood")
            else:
                r = tg.elts[1].id
            # the triangular factor is only ever used to estimate the rank
            # (directly or in a helper); a factor that is never read means no
            # rank is derived from this factorisation
            reads = [x for x in ast.walk(f.node) if isinstance(x, ast.Name) and x.id == r and isinstance(x.ctx, ast.Load)]
            if not reads:
                continue
            n += 1
            kw = {k.arg: k.value for k in node.value.keywords}
            piv = kw.get("pivoting")
            desc = f"{f.local}:{node.lineno} rank estimated from the triangular factor `{r}` of `qr(...)`"
            if isinstance(piv, ast.Constant) and piv.value is True:
                rep.ok("R15.13", desc + " with pivoting=True")
            elif piv is not None and not isinstance(piv, ast.Constant):
                raise AnalysisError(f"{f.local}:{node.lineno} pivoting={norm(piv)} is not a literal")
            else:
                rep.bad("R15.13", desc)
                rep.finding("R15.13", f, "qr(..) without pivoting=True", node.lineno,
                            f"the number of active constraints is counted from the triangular factor `{r}`, which is only valid for a rank-revealing (column-pivoted) QR factorisation: "
                            "with dependent constraint rows the trailing columns of Q are not a basis of the null space and the step leaves the equality constraints / violates active inequalities")
    if n < 2:
        raise AnalysisError(f"only {n} rank-revealing QR factorisations found (floor 2)")


_old_run15b = run


def run(ctx, rep):  # noqa: F811
    _old_run15b(ctx, rep)
    rep.rule("R15.12", "no reduction over an index set that the loop changes is hoisted out of the loop and mixed with reductions over the current set")
    rep.rule("R15.13", "QR factorisations whose R diagonal is used to count the active constraints are column-pivoted")
    r1512(ctx, rep)
    r1513(ctx, rep)


# ---------------------------------------------------------------------------
def r1514(ctx, rep):
    """inner products that are combined in one formula are taken over the same
    index set: sqrt(|s|^2 |g|^2 - (g's)^2) with |s|^2 over all components and
    the other two over the free ones is not a Cauchy-Schwarz expression any
    more (the rotation stops preserving the norm)"""
    n = 0
    for q in PUBLIC[:3]:
        f = ctx.func(q)
        cfg = ctx.cfg(f)
        rd = cfg.reaching_defs()

        def reduction(e):
            """A[m] @ B[m] -> (A, B, m) ; A @ B -> (A, B, None)"""
            if isinstance(e, ast.BinOp) and isinstance(e.op, ast.MatMult):
                l, r = e.left, e.right
                if isinstance(l, ast.Subscript) and isinstance(r, ast.Subscript) and isinstance(l.value, ast.Name) and isinstance(r.value, ast.Name) and norm(l.slice) == norm(r.slice):
                    return (l.value.id, r.value.id, norm(l.slice))
                if isinstance(l, ast.Name) and isinstance(r, ast.Name):
                    return (l.id, r.id, None)
            return None
        for node in cfg.nodes:
            if node.kind != "stmt" or not isinstance(node.ast, ast.Assign):
                continue
            v = node.ast.value
            names = [x for x in ast.walk(v) if isinstance(x, ast.Name) and isinstance(x.ctx, ast.Load)]
            reds = {}
            for x in names:
                ds = rd.get(node.id, {}).get(x.id)
                if not ds or len(ds) != 1:
                    continue
                d = cfg.nodes[next(iter(ds))]
                if d.kind == "stmt" and isinstance(d.ast, ast.Assign) and len(d.ast.targets) == 1:
                    r_ = reduction(d.ast.value)
                    if r_ is not None:
                        reds[x.id] = (r_, d)
            # the family: arrays that are restricted to an index set in this formula;
            # products with other vectors (Hessian images, ...) are over all components by nature
            fam_arrays = set()
            for (a, b, m), _ in reds.values():
                if m is not None:
                    fam_arrays |= {a, b}
            reds = {nm: v_ for nm, v_ in reds.items() if {v_[0][0], v_[0][1]} <= fam_arrays}
            if len(reds) < 2:
                continue
            arrays = {}
            for nm, ((a, b, m), d) in reds.items():
                arrays.setdefault(frozenset((a, b)), []).append((nm, m, d))
            # reductions over the same family of arrays (they share an operand)
            fam = list(reds.items())
            masks = {m for (_, _, m), _ in reds.values()}
            shared = set.intersection(*[{a, b} for (a, b, _), _ in reds.values()]) if len(reds) >= 2 else set()
            linked = any(({a1, b1} & {a2, b2}) for i, ((a1, b1, _), _) in enumerate(reds.values()) for j, ((a2, b2, _), _) in enumerate(reds.values()) if i < j)
            if not linked:
                continue
            n += 1
            desc = f"{f.local}:{node.line} `{norm(node.ast)[:60]}` combines {sorted(reds)}"
            if len(masks) == 1:
                rep.ok("R15.14", desc + f" over one index set {next(iter(masks))}")
            else:
                odd = [(nm, m, d) for nm, ((_, _, m), d) in reds.items()]
                rep.bad("R15.14", desc)
                rep.finding("R15.14", f, norm(node.ast)[:120], node.line,
                            "the inner products combined here are taken over different index sets (" + ", ".join(f"{nm}: {m or 'all components'}" for nm, m, _ in odd) +
                            "): the direction built from them is no longer orthogonal to the step on the free components and the rotated step leaves the trust region")
    if n < 2:
        raise AnalysisError(f"only {n} formulas combining inner products over an index set found in the solvers (floor 2)")


_old_run15c = run


def run(ctx, rep):  # noqa: F811
    _old_run15c(ctx, rep)
    rep.rule("R15.14", "inner products combined in one formula are taken over the same index set")
    r1514(ctx, rep)


# ---------------------------------------------------------------------------
def stale_images(f, cfg):
    """[(image def, vector, modifying stmt, use)]: I = M @ X ; X modified ; I read
    again without being recomputed (straight-line within one block)"""
    out = []
    for block in [b for n_ in ast.walk(f.node) for b in (getattr(n_, "body", None), getattr(n_, "orelse", None)) if isinstance(b, list) and b and isinstance(b[0], ast.stmt)]:
        for i, D in enumerate(block):
            if not (isinstance(D, ast.Assign) and len(D.targets) == 1 and isinstance(D.targets[0], ast.Name)):
                continue
            v = D.value
            if not (isinstance(v, ast.BinOp) and isinstance(v.op, ast.MatMult) and isinstance(v.left, ast.Name) and isinstance(v.right, ast.Name)):
                continue
            img, mat, vec = D.targets[0].id, v.left.id, v.right.id
            if mat == vec:
                continue
            modified = None
            for S in block[i + 1:]:
                if isinstance(S, (ast.If, ast.For, ast.While, ast.Try, ast.With)) and not any(isinstance(x, ast.Name) and x.id in (img, vec) and (x.id == img or isinstance(x.ctx, ast.Store) or isinstance(getattr(x, "_parent", None), ast.Subscript) and isinstance(x._parent.ctx, ast.Store)) for x in ast.walk(S)) \
                        and not any(isinstance(x, ast.AugAssign) and isinstance(x.target, ast.Name) and x.target.id == vec for x in ast.walk(S)):
                    continue        # neither reads the image nor changes the vector: transparent
                if isinstance(S, (ast.If, ast.For, ast.While, ast.Try, ast.With)):
                    # stop at compound statements: path-sensitive reasoning is not attempted
                    # unless the image is read inside and the vector was already modified
                    if modified is not None and any(isinstance(x, ast.Name) and x.id == img and isinstance(x.ctx, ast.Load) for x in ast.walk(S)) \
                            and not any(isinstance(x, ast.Name) and x.id == img and isinstance(x.ctx, ast.Store) for x in ast.walk(S)):
                        out.append((D, vec, modified, S))
                    break
                stores = {x.id for x in ast.walk(S) if isinstance(x, ast.Name) and isinstance(x.ctx, ast.Store)}
                sub_stores = set()
                for t in (S.targets if isinstance(S, ast.Assign) else [S.target] if isinstance(S, ast.AugAssign) else []):
                    b_ = t
                    while isinstance(b_, ast.Subscript):
                        b_ = b_.value
                    if isinstance(b_, ast.Name) and b_ is not t:
                        sub_stores.add(b_.id)
                    if isinstance(S, ast.AugAssign) and isinstance(t, ast.Name):
                        sub_stores.add(t.id)
                if img in stores:
                    break
                if modified is not None and any(isinstance(x, ast.Name) and x.id == img and isinstance(x.ctx, ast.Load) for x in ast.walk(S)):
                    out.append((D, vec, modified, S))
                    break
                if vec in sub_stores or (vec in stores and not isinstance(S, ast.AugAssign) and isinstance(S, ast.Assign) and not any(isinstance(x, ast.Name) and x.id == img for x in ast.walk(S))):
                    modified = S
    return out


def r1515(ctx, rep):
    n = 0
    for q in PUBLIC[:3]:
        f = ctx.func(q)
        hits = stale_images(f, ctx.cfg(f))
        imgs = [n_ for n_ in ast.walk(f.node) if isinstance(n_, ast.Assign) and isinstance(n_.value, ast.BinOp) and isinstance(n_.value.op, ast.MatMult) and isinstance(n_.value.left, ast.Name) and isinstance(n_.value.right, ast.Name)]
        n += len(imgs)
        for D, vec, mod, use in hits:
            rep.bad("R15.15", f"{f.local}:{D.lineno} {norm(D)[:50]}")
            rep.finding("R15.15", f, norm(D)[:100], D.lineno,
                        f"`{norm(D)}` is computed before `{vec}` is changed at line {mod.lineno} (`{norm(mod)[:50]}`) and is read again at line {use.lineno} without being recomputed: "
                        "the constraint slopes / residual updates belong to another vector, so the step length to the linear constraints is wrong and an inequality satisfied at the origin can be violated")
        if not hits:
            rep.ok("R15.15", f"{f.local}: {len(imgs)} matrix-vector images, none is used after its vector changed")
    if n < 6:
        raise AnalysisError(f"only {n} matrix-vector images found in the solvers (floor 6)")


_old_run15d = run


def run(ctx, rep):  # noqa: F811
    _old_run15d(ctx, rep)
    rep.rule("R15.15", "a matrix-vector image (A @ v) is not read after v was changed without recomputing it")
    r1515(ctx, rep)


# ---------------------------------------------------------------------------
def _swap_lu(text):
    """text with the lower / upper vocabulary swapped (xl <-> xu as whole words or name parts)"""
    out = _re.sub(r"xl", "\0", text)
    out = _re.sub(r"xu", "xl", out)
    return out.replace("\0", "xu")


def r1516(ctx, rep):
    """twin blocks: two sibling `if` statements of one block whose tests are
    each other's lower/upper mirror image handle the lower and the upper bound
    the same way - their bodies must be mirror images too (a statement dropped
    or a bound name left unchanged in one of them treats the two bounds
    differently: a component is snapped to the wrong bound or stays free)."""
    n = 0
    for q in PUBLIC + HELPERS:
        f = ctx.func(q)
        for node in ast.walk(f.node):
            for fld in ("body", "orelse"):
                block = getattr(node, fld, None)
                if not (isinstance(block, list) and block and isinstance(block[0], ast.stmt)):
                    continue
                ifs = [(i, s) for i, s in enumerate(block) if isinstance(s, ast.If) and not s.orelse]
                for (i, a), (j, b) in zip(ifs, ifs[1:]):
                    if j != i + 1:
                        continue
                    ta, tb = norm(a.test), norm(b.test)
                    if "xl" not in ta or _swap_lu(ta) != tb or ta == tb:
                        continue
                    n += 1
                    ba = [norm(s) for s in a.body]
                    bb = [norm(s) for s in b.body]
                    desc = f"{f.local}:{a.lineno}/{b.lineno} twin blocks `{ta[:40]}` / `{tb[:40]}`"
                    mirrored = [_swap_lu(s) for s in ba]
                    if mirrored == bb:
                        rep.ok("R15.16", desc)
                        continue
                    # statements that differ
                    diffs = []
                    for k in range(max(len(ba), len(bb))):
                        x = mirrored[k] if k < len(mirrored) else "<missing>"
                        y = bb[k] if k < len(bb) else "<missing>"
                        if x != y:
                            diffs.append((k, ba[k] if k < len(ba) else "<missing>", y))
                    # the one documented exception (upstream oddity, see the OBSERVATION note): the
                    # upper block of the rotation loop of the constrained solver clears free_xl
                    if f.local == "constrained_tangential_byrd_omojokun" and "t_xu" in tb and len(diffs) == 1 and diffs[0][1] == "free_xl[i_new] = False" and diffs[0][2] == "free_xl[i_new] = False":
                        rep.ok("R15.16", desc + " (upper block clears free_xl: known, behaviour-neutral oddity)")
                        continue
                    rep.bad("R15.16", desc)
                    k, xa, yb = diffs[0]
                    rep.finding("R15.16", f, f"{xa[:60]} / {yb[:60]}", (b.body[k].lineno if k < len(b.body) else b.lineno),
                                f"the blocks for the lower and the upper bound are not mirror images: statement {k + 1} is `{xa[:70]}` in the lower block but `{yb[:70]}` in the upper block")
    # if / elif chains: branches whose tests are mirror images
    for q in PUBLIC + HELPERS:
        f = ctx.func(q)
        for node in ast.walk(f.node):
            if not (isinstance(node, ast.If) and len(node.orelse) == 1 and isinstance(node.orelse[0], ast.If)):
                continue
            par = getattr(node, "_parent", None)
            if isinstance(par, ast.If) and len(par.orelse) == 1 and par.orelse[0] is node:
                continue      # not the head of the chain
            chain = []
            cur = node
            while True:
                chain.append((cur.test, cur.body))
                if len(cur.orelse) == 1 and isinstance(cur.orelse[0], ast.If):
                    cur = cur.orelse[0]
                else:
                    break
            for (ta_, ba_), (tb_, bb_) in zip(chain, chain[1:]):
                ta, tb = norm(ta_), norm(tb_)
                if "xl" not in ta or _swap_lu(ta) != tb or ta == tb:
                    continue
                n += 1
                ba, bb = [norm(s) for s in ba_], [norm(s) for s in bb_]
                desc = f"{f.local}:{ta_.lineno} elif twins `{ta[:40]}` / `{tb[:40]}`"
                if [_swap_lu(s) for s in ba] == bb:
                    rep.ok("R15.16", desc)
                else:
                    mirrored = [_swap_lu(s) for s in ba]
                    k = next((i for i in range(max(len(ba), len(bb))) if (mirrored[i] if i < len(mirrored) else None) != (bb[i] if i < len(bb) else None)), 0)
                    rep.bad("R15.16", desc)
                    rep.finding("R15.16", f, f"{(ba[k] if k < len(ba) else '<missing>')[:60]} / {(bb[k] if k < len(bb) else '<missing>')[:60]}", tb_.lineno,
                                f"the branches for the lower and the upper bound are not mirror images: `{(ba[k] if k < len(ba) else '<missing>')[:70]}` vs `{(bb[k] if k < len(bb) else '<missing>')[:70]}`")
    # the if/else form: `if <lower limits first>: lower block else: upper block`
    for q in PUBLIC + HELPERS:
        f = ctx.func(q)
        for node in ast.walk(f.node):
            if not (isinstance(node, ast.If) and node.orelse and len(node.orelse) == len(node.body) and not (len(node.orelse) == 1 and isinstance(node.orelse[0], ast.If))):
                continue
            ba = [norm(s) for s in node.body]
            bb = [norm(s) for s in node.orelse]
            if not any("xl" in s for s in ba) or not any("xu" in s for s in bb):
                continue
            mirrored = [_swap_lu(s) for s in ba]
            same = sum(1 for x, y in zip(mirrored, bb) if x == y)
            if same * 2 < len(ba) or len(ba) < 2:
                continue       # not a lower/upper twin
            n += 1
            desc = f"{f.local}:{node.lineno} if/else twin `{norm(node.test)[:40]}`"
            if mirrored == bb:
                rep.ok("R15.16", desc)
            else:
                k = [i for i, (x, y) in enumerate(zip(mirrored, bb)) if x != y][0]
                rep.bad("R15.16", desc)
                rep.finding("R15.16", f, f"{ba[k][:60]} / {bb[k][:60]}", node.orelse[k].lineno,
                            f"the branches for the lower and the upper bound are not mirror images: `{ba[k][:70]}` in the lower branch but `{bb[k][:70]}` in the upper branch")
    if n < 4:
        raise AnalysisError(f"only {n} lower/upper twin blocks found in the solvers (floor 4)")


_old_run15e = run


def run(ctx, rep):  # noqa: F811
    _old_run15e(ctx, rep)
    rep.rule("R15.16", "sibling blocks that handle the lower and the upper bound are mirror images of each other")
    r1516(ctx, rep)


# ---------------------------------------------------------------------------
def r1517(ctx, rep):
    """a quantity derived from the iterate (distances to the bounds, images,
    norms) that is used inside a loop which moves the iterate must be
    recomputed in that loop: hoisting it out of the loop freezes it at the
    iterate of the first pass (checkpoint copies are the intended exception)"""
    n = 0
    for q in PUBLIC[:3]:
        f = ctx.func(q)
        rv = returned_names(f)
        it = rv[0] if rv and rv[0] else None
        if it is None:
            continue
        cfg = ctx.cfg(f)
        rd = cfg.reaching_defs()
        for loop in ast.walk(f.node):
            if not isinstance(loop, (ast.While, ast.For)):
                continue
            body_nodes = {cfg.by_ast[id(s)] for s in ast.walk(loop) if id(s) in cfg.by_ast and s is not loop}
            # does the loop move the iterate?
            moves = False
            for s in ast.walk(loop):
                if isinstance(s, (ast.Assign, ast.AugAssign)):
                    for t in (s.targets if isinstance(s, ast.Assign) else [s.target]):
                        b_ = t
                        while isinstance(b_, ast.Subscript):
                            b_ = b_.value
                        if isinstance(b_, ast.Name) and b_.id == it:
                            moves = True
            if not moves:
                continue
            n += 1
            seen = set()
            for nid in sorted(body_nodes):
                nd = cfg.nodes[nid]
                e = nd.expr()
                if not isinstance(e, ast.AST):
                    continue
                for x in ast.walk(e):
                    if not (isinstance(x, ast.Name) and isinstance(x.ctx, ast.Load)):
                        continue
                    ds = rd.get(nid, {}).get(x.id)
                    if not ds or (ds & body_nodes) or cfg.entry in ds:
                        continue
                    for d in ds:
                        st = cfg.nodes[d].ast if cfg.nodes[d].kind == "stmt" else None
                        if not (isinstance(st, ast.Assign) and len(st.targets) == 1 and isinstance(st.targets[0], ast.Name)):
                            continue
                        v = st.value
                        if not any(isinstance(y, ast.Name) and y.id == it for y in ast.walk(v)):
                            continue
                        if _short(v) in ("copy", "array") or (isinstance(v, ast.Call) and isinstance(v.func, ast.Attribute) and v.func.attr == "copy"):
                            continue       # a checkpoint of the iterate
                        if isinstance(v, ast.Attribute) and v.attr in ("size", "shape", "dtype", "ndim"):
                            continue
                        # the definition must lie in the same function level right before / outside this loop
                        key = (x.id, st.lineno)
                        if key in seen:
                            continue
                        seen.add(key)
                        rep.bad("R15.17", f"{f.local}:{st.lineno} `{norm(st)[:50]}`")
                        rep.finding("R15.17", f, norm(st)[:100], st.lineno,
                                    f"`{x.id}` is computed from the iterate `{it}` before the loop at line {loop.lineno}, the loop moves `{it}` and reads `{x.id}` (line {nd.line}) without recomputing it: "
                                    "from the second pass on the bound / constraint limits belong to an older iterate and the unclipped update can leave the feasible set")
            if not seen:
                rep.ok("R15.17", f"{f.local}: loop at line {loop.lineno} moves `{it}`; every quantity derived from it is recomputed inside")
    if n < 4:
        raise AnalysisError(f"only {n} loops that move the iterate found (floor 4)")


_old_run15f = run


def run(ctx, rep):  # noqa: F811
    _old_run15f(ctx, rep)
    rep.rule("R15.17", "quantities derived from the iterate and used in a loop that moves the iterate are recomputed in that loop")
    r1517(ctx, rep)
