"""C16 - subproblem solvers never make things worse (structural clauses; the
Cauchy-decrease inequality and strictness are numerical and not decided).

R16.1 checkpoint => guarded restore: after `step_base = copy(step)` every
      normal path to the return passes `if obj(step) > obj(step_base): step =
      step_base` (the solvers minimise: restore when larger).
R16.2 geometry solvers: every assignment of the returned step is paired with
      the assignment of its value and guarded by an improvement test on the
      magnitude; the +/- problems are compared with >=.
R16.3 orientation consistency of the initial active sets: the three
      minimisers free a variable on its bound iff the descent direction
      -grad points inward; the Cauchy geometry helper (a maximiser, direction
      +grad) sends a component to the bound the gradient points to.
R16.4 the reduction is accumulated together with the step, and the residuals
      of the linear constraints are updated from the current residuals.
"""
from __future__ import annotations

import ast

from ..astutil import norm, dotted, const_value, cmp_op_str
from ..loader import AnalysisError
from .c07 import mentions, enclosing_context, _cmp_parts
from .c15 import PUBLIC, HELPERS, _short


def expand_names(f, e, depth=2):
    """names an expression depends on, expanding local single-assignment
    temporaries `depth` levels"""
    names = {n.id for n in ast.walk(e) if isinstance(n, ast.Name)}
    if depth <= 0:
        return names
    out = set(names)
    for nm in names:
        defs = [node for node in ast.walk(f.node) if isinstance(node, ast.Assign) and any(isinstance(t, ast.Name) and t.id == nm for t in node.targets)]
        if len(defs) == 1 and nm not in ("step", "step_base"):
            out |= expand_names(f, defs[0].value, depth - 1)
        elif len(defs) > 1 and nm not in ("step", "step_base"):
            # the last definition before use is what matters for residual names
            for d in defs:
                out |= expand_names(f, d.value, depth - 1) if nm.startswith(("resid", "step_comparator")) else set()
    return out


def run(ctx, rep):
    rep.rule("R16.1", "checkpoint copy of the iterate => guarded restore `if obj(step) > obj(checkpoint): step = checkpoint` on every path to the return")
    rep.rule("R16.2", "geometry steps: (step, value) assigned together under an improvement test on |value|")
    rep.rule("R16.3", "initial active sets are oriented consistently with the search direction (minimisers: -grad; Cauchy geometry helper: +grad)")
    rep.rule("R16.4", "the reduction / residual bookkeeping is updated together with, and from, the current iterate")
    r161(ctx, rep)
    r162(ctx, rep)
    r163(ctx, rep)
    r164(ctx, rep)
    rep.rule("R16.5", "step lengths to the bounds are taken over the components that move towards them (direction-sign masks), so the value reported with a geometry step belongs to the clipped step")
    from . import c15
    import types
    proxy = types.SimpleNamespace(ok=lambda r, t: rep.ok("R16.5", t), bad=lambda r, t: rep.bad("R16.5", t), finding=lambda r, *a, **k: rep.finding("R16.5", *a, **k), rule=rep.rule, obl=rep.obl)
    c15.r159(ctx, proxy)
    rep.rule("R16.7", "lower/upper twin symmetry of the bound bookkeeping of the solvers (a one-sided slip lets the iterate overshoot a bound and the model increase) (see C15 R15.6)")
    from ..report import Renamed
    c15.r156(ctx, Renamed(rep, to="R16.7"))
    c15.r1516(ctx, Renamed(rep, to="R16.7"))
    rep.rule("R16.8", "the step length to the bounds is the minimum over both bounds, so the value reported with a geometry step belongs to the clipped step (see C15 R15.3)")
    c15.r153(ctx, Renamed(rep, to="R16.8"))
    rep.rule("R16.6", "the working-set masks and subproblem data reach the solvers and their QR helpers through the right parameters (no swapped arguments)")
    from . import common
    if common.check_swapped_args(ctx, rep, "R16.6", lambda g: g.module.name.startswith("cobyqa.subsolvers")) < 8:
        raise AnalysisError("call sites of the subproblem solvers not found")


def r161(ctx, rep):
    from .c15 import returned_names
    for q in PUBLIC[:3]:
        f = ctx.func(q)
        cfg = ctx.cfg(f)
        rv = returned_names(f)
        var = rv[0] if rv and rv[0] else None
        if var is None:
            raise AnalysisError(f"{f.local}: returned iterate not found")
        # checkpoints: X = copy(<iterate>) that are later restored (<iterate> = X)
        copies = {}
        for n in cfg.nodes:
            if n.kind == "stmt" and isinstance(n.ast, ast.Assign) and len(n.ast.targets) == 1 and isinstance(n.ast.targets[0], ast.Name):
                v = n.ast.value
                is_copy = (_short(v) == "copy" and v.args and norm(v.args[0]) == var) or (isinstance(v, ast.Call) and isinstance(v.func, ast.Attribute) and v.func.attr == "copy" and norm(v.func.value) == var) or (_short(v) == "array" and v.args and norm(v.args[0]) == var)
                if is_copy:
                    copies.setdefault(n.ast.targets[0].id, n)
        improves = any(isinstance(w, ast.While) for w in ast.walk(f.node)) and any(mentions(x, "improve_tcg") for x in ast.walk(f.node))
        restores = []
        for n in cfg.nodes:
            if n.kind == "test" and isinstance(n.ast, ast.If):
                for s_ in n.ast.body:
                    if isinstance(s_, ast.Assign) and len(s_.targets) == 1 and norm(s_.targets[0]) == var and isinstance(s_.value, ast.Name) and s_.value.id in copies:
                        restores.append((n, s_.value.id))
        desc = f"{f.local}: guarded restore of the checkpoint"
        if not restores:
            if not improves:
                raise AnalysisError(f"{f.local}: no boundary-improvement phase found")
            rep.bad("R16.1", desc)
            rep.finding("R16.1", f, f"no `if ...: {var} = <checkpoint>`", f.node.lineno,
                        "the solver improves the boundary solution but never compares the improved step with a checkpoint copy of the truncated-CG step: it may return a worse step")
            continue
        r, ck = restores[0]
        c = copies[ck]
        probs = []
        if not cfg.postdominates(r.id, c.id):
            probs.append("some path from the checkpoint to the return skips the comparison")
        p = _cmp_parts(r.ast.test)
        if not p or p[1] not in (">", ">=", "<", "<="):
            probs.append(f"the test `{norm(r.ast.test)[:60]}` is not a comparison of two objective values")
        else:
            l, op, rr = p
            if op in ("<", "<="):
                from ..astutil import FLIP
                l, op, rr = rr, FLIP[op], l
            ln = expand_names_generic(f, l, {var, ck})
            rn = expand_names_generic(f, rr, {var, ck})
            if ck in ln or var not in ln or ck not in rn:
                if ck in ln and var in rn and ck not in rn:
                    probs.append("the comparison restores the checkpoint when the improved objective is SMALLER (the solvers minimise: restore when it is larger)")
                else:
                    probs.append("the comparison is not between the objective at the improved step and the objective at the checkpoint")
        if probs:
            rep.bad("R16.1", desc)
            rep.finding("R16.1", f, norm(r.ast.test)[:120], r.line, "; ".join(probs))
        else:
            rep.ok("R16.1", desc + f" `{norm(r.ast.test)[:60]}`")
        # nothing modifies the iterate between the comparison and the return
        after = cfg.reachable(r.id, skip_exc=True)
        for n in cfg.nodes:
            if n.id in after and n.id != r.id and n.kind == "stmt" and isinstance(n.ast, (ast.Assign, ast.AugAssign)):
                tg = n.ast.targets[0] if isinstance(n.ast, ast.Assign) else n.ast.target
                base = tg
                while isinstance(base, ast.Subscript):
                    base = base.value
                if isinstance(base, ast.Name) and base.id == var and not (isinstance(n.ast, ast.Assign) and isinstance(n.ast.value, ast.Name) and n.ast.value.id == ck):
                    rep.bad("R16.1", f"{f.local}:{n.line} iterate modified after the comparison")
                    rep.finding("R16.1", f, norm(n.ast)[:80], n.line, "the iterate is modified after it has been compared with the checkpoint")


def expand_names_generic(f, e, keep, depth=3):
    """names an expression depends on; locals other than `keep` are expanded
    through all their definitions"""
    names = {n.id for n in ast.walk(e) if isinstance(n, ast.Name)}
    if depth <= 0:
        return names
    out = set(names)
    for nm in names:
        if nm in keep:
            continue
        for d in ast.walk(f.node):
            if isinstance(d, ast.Assign) and any(isinstance(t, ast.Name) and t.id == nm for t in d.targets):
                out |= expand_names_generic(f, d.value, keep, depth - 1)
    return out


def r162(ctx, rep):
    f = ctx.func(PUBLIC[4])  # spider
    n = 0
    for node in ast.walk(f.node):
        if isinstance(node, ast.Assign) and any(isinstance(t, ast.Name) and t.id == "step" for t in node.targets):
            if _short(node.value) in ("zeros", "zeros_like"):
                # initial pair (0, const)
                ok = any(isinstance(s, ast.Assign) and norm(s) == "q_val = const" for s in ast.walk(f.node))
                if ok:
                    rep.ok("R16.2", f"{f.local}:{node.lineno} initial pair (0, const)")
                else:
                    rep.bad("R16.2", "initial pair")
                    rep.finding("R16.2", f, norm(node), node.lineno, "the initial step 0 is not paired with the value `const` of the quadratic at 0")
                continue
            n += 1
            par = getattr(node, "_parent", None)
            desc = f"{f.local}:{node.lineno} `{norm(node)[:50]}`"
            probs = []
            if not isinstance(par, ast.If):
                probs.append("not under an improvement test")
            else:
                body = par.body if any(s is node for s in par.body) else par.orelse
                pair = [s for s in body if isinstance(s, ast.Assign) and any(isinstance(t, ast.Name) and t.id == "q_val" for t in s.targets)]
                if not pair:
                    probs.append("the value q_val is not updated with the step")
                else:
                    qv = norm(pair[0].value)
                    which = "pos" if "pos" in qv else ("neg" if "neg" in qv else "?")
                    if which == "?" and isinstance(pair[0].value, ast.Name) and qv.startswith("q_val_"):
                        # an intermediate selection (alpha_S, q_val_S): the pair must be assigned together, branch by branch
                        suf = qv[len("q_val_"):]
                        which = suf
                        sel_ok = True
                        nsel = 0
                        for blk_owner in ast.walk(f.node):
                            for fld in ("body", "orelse"):
                                blk = getattr(blk_owner, fld, None)
                                if not (isinstance(blk, list) and blk and isinstance(blk[0], ast.stmt)):
                                    continue
                                a_ = [x for x in blk if isinstance(x, ast.Assign) and any(isinstance(t, ast.Name) and t.id == f"alpha_{suf}" for t in x.targets)]
                                q_ = [x for x in blk if isinstance(x, ast.Assign) and any(isinstance(t, ast.Name) and t.id == qv for t in x.targets)]
                                if a_ or q_:
                                    nsel += 1
                                    if len(a_) != 1 or len(q_) != 1 or not (isinstance(a_[0].value, ast.Name) and isinstance(q_[0].value, ast.Name)) \
                                            or a_[0].value.id.replace("alpha_", "") != q_[0].value.id.replace("q_val_", ""):
                                        sel_ok = False
                        if not sel_ok or nsel < 2:
                            probs.append(f"the intermediate pair (alpha_{suf}, {qv}) is not selected together from (alpha_pos, q_val_pos) / (alpha_neg, q_val_neg)")
                    if f"alpha_{which}" not in norm(node.value):
                        probs.append(f"step uses a different step length than its value `{qv}`")
                    conj = par.test.values if isinstance(par.test, ast.BoolOp) and isinstance(par.test.op, ast.And) else [par.test]
                    improves = False
                    for c in conj:
                        p = _cmp_parts(c)
                        if p and p[1] == ">" and norm(p[0]) == f"abs({qv})" and norm(p[2]) == "abs(q_val)":
                            improves = True
                    if not improves:
                        probs.append(f"the test `{norm(par.test)[:70]}` does not require abs({qv}) > abs(q_val)")
            if probs:
                rep.bad("R16.2", desc)
                rep.finding("R16.2", f, norm(node)[:100], node.lineno, "geometry step accepted without a strict improvement of the magnitude: " + "; ".join(probs))
            else:
                rep.ok("R16.2", desc + " paired with its value under an improvement test")
    if n < 1:
        raise AnalysisError("spider_geometry: step updates not found")
    g = ctx.func(PUBLIC[3])  # cauchy_geometry
    ok = False
    # the two spellings of a conditional assignment: x = A if c else B  /  if c: x = A else: x = B
    forms = []
    for node in ast.walk(g.node):
        if isinstance(node, ast.Assign) and any(isinstance(t, ast.Name) and t.id == "step" for t in node.targets) and isinstance(node.value, ast.IfExp):
            forms.append((node, node.value.test, node.value.body, node.value.orelse))
        if isinstance(node, ast.If) and len(node.body) == 1 and len(node.orelse) == 1 and all(
                isinstance(b, ast.Assign) and len(b.targets) == 1 and isinstance(b.targets[0], ast.Name) and b.targets[0].id == "step" for b in (node.body[0], node.orelse[0])):
            forms.append((node, node.test, node.body[0].value, node.orelse[0].value))
    # the pairs (step_k, value_k) come from the two solves
    pairs = {}
    for node in ast.walk(g.node):
        if isinstance(node, ast.Assign) and isinstance(node.targets[0], ast.Tuple) and len(node.targets[0].elts) == 2 and all(isinstance(x, ast.Name) for x in node.targets[0].elts) and isinstance(node.value, ast.Call):
            pairs[node.targets[0].elts[1].id] = node.targets[0].elts[0].id
    for node, test, b_, o_ in forms:
        if True:
            p = _cmp_parts(test)
            va = vb = None
            if p and _short(p[0]) == "abs" and _short(p[2]) == "abs" and isinstance(p[0].args[0], ast.Name) and isinstance(p[2].args[0], ast.Name):
                va, vb = p[0].args[0].id, p[2].args[0].id
            if va in pairs and vb in pairs and va != vb:
                if p[1] in (">=", ">") and norm(b_) == pairs[va] and norm(o_) == pairs[vb]:
                    ok = True
                elif p[1] in ("<=", "<") and norm(b_) == pairs[vb] and norm(o_) == pairs[va]:
                    ok = True
            if ok:
                rep.ok("R16.2", f"{g.local}:{node.lineno} picks the larger |value| of the +/- problems")
            else:
                rep.bad("R16.2", "cauchy selection")
                rep.finding("R16.2", g, norm(node)[:100], node.lineno, "the better of the two Cauchy steps (maximising q and -q) is not selected by the larger magnitude")
                ok = True
    if not ok:
        raise AnalysisError("cauchy_geometry: selection of the +/- solution not found")
    # (step1, q_val1) and (step2, q_val2) come from the same helper calls
    pairs = 0
    for node in ast.walk(g.node):
        if isinstance(node, ast.Assign) and isinstance(node.targets[0], (ast.Tuple, ast.List)) and len(node.targets[0].elts) == 2 and isinstance(node.value, ast.Call):
            a, b = [norm(x) for x in node.targets[0].elts]
            is_helper = any(t.kind == "repo" and t.name == HELPERS[0] for t in ctx.res.call_targets(node.value, g))
            if is_helper:
                pairs += 1
                from ..valueflow import arg_for
                hh = ctx.func(HELPERS[0])
                raw0 = arg_for(node.value, hh, hh.params[0], "plain")
                # the second problem is the one solved for the negated quadratic: as soon as
                # one of the three coefficients is negated all three must be
                raw_all = [arg_for(node.value, hh, pn, "plain") for pn in hh.params[:3]]
                some_neg = any(isinstance(x, ast.UnaryOp) and isinstance(x.op, ast.USub) for x in raw_all[:2]) or isinstance(raw_all[2], ast.Lambda) \
                    or (isinstance(raw_all[2], ast.Name) and raw_all[2].id != hh.params[2])
                if some_neg:
                    raw = raw_all
                    args = [norm(x) if isinstance(x, ast.AST) else "?" for x in raw]
                    third = raw[2] if isinstance(raw[2], ast.AST) else None
                    if isinstance(third, ast.Name):
                        # a nested function `def neg(x): return -curv(x)`
                        for d_ in ast.walk(g.node):
                            if isinstance(d_, ast.FunctionDef) and d_ is not g.node and d_.name == third.id and len(d_.body) >= 1 and isinstance(d_.body[-1], ast.Return) and d_.body[-1].value is not None \
                                    and all(isinstance(b_, ast.Expr) and isinstance(b_.value, ast.Constant) for b_ in d_.body[:-1]):
                                third = d_.body[-1].value
                    elif isinstance(third, ast.Lambda):
                        third = third.body
                    neg_curv_ok = isinstance(third, ast.UnaryOp) and isinstance(third.op, ast.USub) and isinstance(third.operand, ast.Call) and norm(third.operand.func) == "curv"
                    if args[:2] == ["-const", "-grad"] and neg_curv_ok:
                        rep.ok("R16.2", f"{g.local}:{node.lineno} second problem is the negated quadratic (-const, -grad, -curv)")
                    else:
                        rep.bad("R16.2", "negated problem")
                        rep.finding("R16.2", g, norm(node)[:120], node.lineno, "the second Cauchy problem is not the negation of the first in all three coefficients (const, grad, curv)")
    if pairs != 2:
        rep.bad("R16.2", "helper pairs")
        rep.finding("R16.2", g, "(step, q_val) pairs", g.node.lineno, "the two helper results are not unpacked as (step1, q_val1), (step2, q_val2)")
    # helper: q_val formula consistent with the step
    h = ctx.func(HELPERS[0])
    for node in ast.walk(h.node):
        if isinstance(node, ast.Assign) and any(isinstance(t, ast.Name) and t.id == "q_val" for t in node.targets):
            v = norm(node.value).replace(" ", "")
            if v == "const":
                rep.ok("R16.2", f"{h.local}:{node.lineno} zero step paired with const")
            elif v == "const+alpha*grad_step+0.5*alpha**2.0*curv_step":
                rep.ok("R16.2", f"{h.local}:{node.lineno} value of the quadratic at alpha * cauchy_step")
            else:
                rep.bad("R16.2", "helper value")
                rep.finding("R16.2", h, norm(node), node.lineno, "the value returned with the Cauchy step is not const + alpha*g's + 0.5*alpha^2*s'Hs")


def atoms(e):
    """(x op 0) atoms of a mask expression joined by | or &: -> (connective, [(name, op)])"""
    conn = None
    parts = [e]
    if isinstance(e, ast.BinOp) and isinstance(e.op, (ast.BitOr, ast.BitAnd)):
        conn = "|" if isinstance(e.op, ast.BitOr) else "&"
        parts = [e.left, e.right]
    out = []
    for p in parts:
        c = _cmp_parts(p)
        if not c or const_value(c[2]) not in (0, 0.0):
            return None
        out.append((norm(c[0]), c[1]))
    return conn, out


def r163(ctx, rep):
    # minimisers
    found = 0
    for q in PUBLIC[:3]:
        f = ctx.func(q)
        masks = {}
        for node in ast.walk(f.node):
            if isinstance(node, ast.Assign) and len(node.targets) == 1 and isinstance(node.targets[0], ast.Name) and node.targets[0].id in ("free_xl", "free_xu", "free_bd", "free_ub"):
                if node.targets[0].id not in masks:
                    masks[node.targets[0].id] = node
        exprs = {}

        def expand1(e):
            if isinstance(e, ast.Name):
                ds = [n2 for n2 in ast.walk(f.node) if isinstance(n2, ast.Assign) and len(n2.targets) == 1 and isinstance(n2.targets[0], ast.Name) and n2.targets[0].id == e.id]
                if len(ds) == 1:
                    return ds[0].value
            return e

        if "free_bd" in masks and "free_xl" not in masks:
            v = masks["free_bd"].value
            if isinstance(v, ast.BinOp) and isinstance(v.op, ast.BitAnd):
                sides = [expand1(v.left), expand1(v.right)]
                for sd_ in sides:
                    if mentions(sd_, "xl"):
                        exprs["free_xl"] = sd_
                    elif mentions(sd_, "xu"):
                        exprs["free_xu"] = sd_
            node0 = masks["free_bd"]
        else:
            for k in ("free_xl", "free_xu"):
                if k in masks:
                    exprs[k] = masks[k].value
        for k, bound, bop, gop in (("free_xl", "xl", "<", "<"), ("free_xu", "xu", ">", ">")):
            desc = f"{f.local}: initial {k}"
            e = exprs.get(k)
            a = atoms(e) if e is not None else None
            if a is None:
                rep.bad("R16.3", desc)
                rep.finding("R16.3", f, norm(e)[:80] if e is not None else k, f.node.lineno, f"the initial free set `{k}` is not of the form (bound inactive) | (direction points inward)")
                continue
            found += 1
            conn, at = a
            bnd = [x for x in at if x[0] == bound]
            grd = [x for x in at if x[0] != bound]
            good = conn == "|" and len(bnd) == 1 and len(grd) == 1 and bnd[0][1] == bop and grd[0][1] == gop and grd[0][0].startswith("grad")
            if good:
                rep.ok("R16.3", desc + f" = {norm(e)[:60]} (descent direction -grad points inward)")
            else:
                rep.bad("R16.3", desc)
                rep.finding("R16.3", f, norm(e)[:100], (masks.get(k) or masks.get("free_bd")).lineno,
                            f"a variable sitting on its {'lower' if bound == 'xl' else 'upper'} bound must be free iff the descent direction -grad points inward "
                            f"(({bound} {bop} 0) | (grad {gop} 0)); found `{norm(e)}`: the step either freezes a variable that should move or pushes against an active bound")
        if "free_ub" in masks:
            e = masks["free_ub"].value
            a = atoms(e)
            good = a is not None and a[0] == "|" and any(x[0] == "bub" and x[1] == ">" for x in a[1]) and any(x[0] != "bub" and x[1] == ">" for x in a[1])
            if good:
                rep.ok("R16.3", f"{f.local}: initial free_ub = {norm(e)[:60]}")
            else:
                rep.bad("R16.3", "free_ub")
                rep.finding("R16.3", f, norm(e)[:100], masks["free_ub"].lineno, "the initial working set of the linear inequalities is not (slack > 0) | (A grad > 0)")
    if found < 6:
        raise AnalysisError(f"only {found} initial active-set masks found in the three minimisers (floor 6)")
    # maximiser
    h = ctx.func(HELPERS[0])
    # the helper and the private functions it calls in its module
    hs = [h]
    for ev in ctx.events(h):
        for t in ev.targets:
            if t.kind == "repo" and t.func.module is h.module and t.func not in hs:
                hs.append(t.func)
    fixed = {}
    owner = {}
    for hh in hs:
        for node in ast.walk(hh.node):
            if isinstance(node, ast.Assign) and len(node.targets) == 1 and isinstance(node.targets[0], ast.Name) and node.targets[0].id in ("fixed_xl", "fixed_xu"):
                if node.targets[0].id not in fixed:
                    fixed[node.targets[0].id] = node
                    owner[node.targets[0].id] = hh
    # guard of the branch that uses the step: grad @ step >= 0  => direction +grad
    guard = None
    for node in ast.walk(h.node):
        if isinstance(node, ast.If):
            t_ = node.test
            if isinstance(t_, ast.UnaryOp) and isinstance(t_.op, ast.Not):
                t_ = t_.operand      # `if not g >= 0: zero step else: use the step` - the same guard, branches swapped
            p = _cmp_parts(t_)
            if p and norm(p[0]) == "grad_step" and p[1] in (">=", ">") and const_value(p[2]) in (0, 0.0):
                guard = node
            if p and norm(p[0]) == "grad_step" and p[1] in ("<",) and const_value(p[2]) in (0, 0.0) and node.orelse:
                guard = node         # `if g < 0: zero step else: use the step`
    if guard is None:
        raise AnalysisError("_cauchy_geom: guard `grad_step >= 0` not found")
    for k, bound, bop, want_g in (("fixed_xl", "xl", "<", "<"), ("fixed_xu", "xu", ">", ">")):
        desc = f"{h.local}: initial {k}"
        node = fixed.get(k)
        a = atoms(node.value) if node is not None else None
        if a is None:
            rep.bad("R16.3", desc)
            rep.finding("R16.3", h, k, h.node.lineno, f"the initial set `{k}` of the Cauchy geometry step was not found in the form (bound inactive) & (gradient sign)")
            continue
        conn, at = a
        bnd = [x for x in at if x[0] == bound]
        grd = [x for x in at if x[0] != bound]
        # sign reasoning: the component is set to `bound` (xl <= 0, xu >= 0); the
        # result is used only if grad @ step >= 0, and the second phase sets
        # mu * grad with mu >= 0: the product grad_i * step_i must be >= 0
        good = conn == "&" and len(bnd) == 1 and len(grd) == 1 and bnd[0][1] == bop and grd[0][0] == "grad" and grd[0][1] == want_g
        if good:
            rep.ok("R16.3", desc + f" = {norm(node.value)} (component goes to the bound the gradient points to: grad_i * step_i >= 0)")
        else:
            rep.bad("R16.3", desc)
            rep.finding("R16.3", h, norm(node.value), node.lineno,
                        f"the helper maximises along +grad (its result is only used when grad @ step >= 0 and its second phase sets mu * grad), "
                        f"so a component may be sent to its {'lower' if bound == 'xl' else 'upper'} bound ({bound} {'<=' if bound == 'xl' else '>='} 0) only where grad {want_g} 0; "
                        f"found `{norm(node.value)}`: grad_i * step_i <= 0 there, the guard fails and the zero step is returned whenever the box fits in the trust region")
    # the stores use the matching bound
    for node in [x for hh in hs for x in ast.walk(hh.node)]:
        if isinstance(node, ast.Assign) and isinstance(node.targets[0], ast.Subscript) and norm(node.targets[0].value) == "cauchy_step" and isinstance(node.value, ast.Subscript):
            m, src, sm = norm(node.targets[0].slice), norm(node.value.value), norm(node.value.slice)
            if m in ("fixed_xl", "fixed_xu"):
                if src == m.replace("fixed_", "") and sm == m:
                    rep.ok("R16.3", f"{h.local}:{node.lineno} {norm(node)}")
                else:
                    rep.bad("R16.3", "fixed store")
                    rep.finding("R16.3", h, norm(node), node.lineno, "a component fixed at its lower (upper) bound is not set to that bound")


def r164(ctx, rep):
    for q in PUBLIC[:3]:
        f = ctx.func(q)
        ok_red = False
        for node in ast.walk(f.node):
            if isinstance(node, ast.If):
                p = _cmp_parts(node.test)
                if p and norm(p[0]) == "alpha" and p[1] == ">" and const_value(p[2]) in (0, 0.0):
                    has_step = any(isinstance(s, ast.Assign) and norm(s.targets[0]).startswith("step") for s in node.body)
                    red = [s for s in node.body if isinstance(s, ast.AugAssign) and norm(s.target) == "reduct"]
                    grad_upd = [s for s in node.body if isinstance(s, ast.AugAssign) and norm(s.target) == "grad"]
                    if has_step and red and grad_upd:
                        v = norm(red[0].value).replace(" ", "")
                        if isinstance(red[0].op, ast.Sub) and v == "alpha*(grad_sd+0.5*alpha*curv_sd)":
                            ok_red = True
                    if q in (PUBLIC[1], PUBLIC[2]):
                        rs = [s for s in node.body if isinstance(s, ast.Assign) and norm(s.targets[0]) == "resid"]
                        desc = f"{f.local}:{node.lineno} residual update"
                        if rs and norm(rs[0].value).replace(" ", "") == "np.maximum(0.0,resid-alpha*aub_sd)":
                            rep.ok("R16.4", desc + " from the current residuals")
                        else:
                            rep.bad("R16.4", desc)
                            rep.finding("R16.4", f, norm(rs[0])[:100] if rs else "no residual update", node.lineno,
                                        "the residuals of the linear inequalities must be updated as max(0, resid - alpha * A sd) from the current residuals; otherwise later step lengths ignore the distance already travelled")
        desc = f"{f.local}: reduct -= alpha*(g'd + 0.5 alpha d'Hd) with the step and gradient update"
        if ok_red:
            rep.ok("R16.4", desc)
        else:
            rep.bad("R16.4", desc)
            rep.finding("R16.4", f, "reduct update", f.node.lineno, "the achieved reduction is not accumulated together with the step (the early-exit tests compare against it)")
    # the stopping tests are evaluated with the unconstrained step length, before the
    # bound step length is applied (a zero-length move that only extends the working
    # set must not end the iteration)
    for q in PUBLIC[:3]:
        f = ctx.func(q)
        cfg = ctx.cfg(f)
        small = []
        for n in cfg.nodes:
            if n.kind == "test" and isinstance(n.ast, ast.If):
                t = norm(n.ast.test).replace(" ", "")
                if t == "-alpha*(grad_sd+0.5*alpha*curv_sd)<=1e-08*reduct":
                    small.append(n)
        bd = [n for n in cfg.nodes if n.kind == "stmt" and isinstance(n.ast, ast.Assign) and norm(n.ast.targets[0]) == "alpha_bd"]
        desc = f"{f.local}: small-reduction test precedes the bound step length"
        if not small or not bd:
            rep.bad("R16.4", desc)
            rep.finding("R16.4", f, "small-reduction test", f.node.lineno, "the test `-alpha*(g'd + 0.5 alpha d'Hd) <= 1e-8*reduct` on the unconstrained step length was not found")
        elif cfg.dominates(small[0].id, bd[0].id):
            rep.ok("R16.4", desc)
        else:
            rep.bad("R16.4", desc)
            rep.finding("R16.4", f, norm(small[0].ast.test), small[0].line,
                        "the small-reduction test is evaluated after the step length has been cut by the bounds: a zero-length move that only adds a bound to the working set ends the iteration, and the step loses the projected-gradient (Cauchy) decrease")
