"""C17 - two-sided user constraints are translated faithfully into the
internal inequality/equality form (structural clauses; the tolerance
arithmetic is not decided).

R17.1 paired-array recipes of LinearConstraints.__init__: rows of the matrix
      and entries of the right-hand side are built from the same masks with
      matching signs (+A <-> +ub, -A <-> -lb, equality: A <-> midpoint); the
      inequality and the equality block are each built whenever a component of
      that kind exists (independent guards); undefined rows are dropped from
      both members of a pair with the same mask; NaN coefficients become 0.
R17.2 slack orientation in NonlinearConstraints.__call__: lower slack is
      bound - value under `bound > -inf`, upper slack value - bound under
      `bound < inf` (both drop NaN), equality residual is value - midpoint;
      equality / inequality index sets are complementary.
R17.3 NaN bounds mean no bound: xl[isnan] = -inf, xu[isnan] = +inf.
R17.4 equality detection is `abs(ub - lb) <= get_arrays_tol(lb, ub)` at the
      linear and the nonlinear site; limits are broadcast as (lb, ub).
"""
from __future__ import annotations

import ast

from ..astutil import norm, dotted, cmp_op_str, const_value
from ..loader import AnalysisError
from .c07 import mentions, enclosing_context, _cmp_parts
from ..inline import expander

LIN_INIT = "cobyqa.problem:LinearConstraints.__init__"
NLC_CALL = "cobyqa.problem:NonlinearConstraints.__call__"
BND_INIT = "cobyqa.problem:BoundConstraints.__init__"


def _short(e):
    if isinstance(e, ast.Call):
        d = dotted(e.func)
        return d.split(".")[-1] if d else None
    return None


def parse_row(e):
    """-> (sign, source, mask) for expressions like  -constraint.A[~is_equality]
    and ('mid', mask) for 0.5 * (lb[M] + ub[M])"""
    sign = "+"
    if isinstance(e, ast.UnaryOp) and isinstance(e.op, ast.USub):
        sign = "-"
        e = e.operand
    if isinstance(e, ast.Subscript):
        src = e.value.attr if isinstance(e.value, ast.Attribute) else (e.value.id if isinstance(e.value, ast.Name) else norm(e.value))
        sl = e.slice
        if isinstance(sl, ast.Tuple):
            sl = sl.elts[0]
        return (sign, src, norm(sl))
    if isinstance(e, ast.BinOp) and isinstance(e.op, ast.Mult):
        c, other = (e.left, e.right) if const_value(e.left) is not None else (e.right, e.left)
        if const_value(c) == 0.5 and isinstance(other, ast.BinOp) and isinstance(other.op, ast.Add):
            a, b = parse_row(other.left), parse_row(other.right)
            if a and b and a[0] == b[0] == "+" and {a[1], b[1]} == {"lb", "ub"} and a[2] == b[2]:
                return (sign, "mid", a[2])
    return None


def stack_recipe(call):
    """np.vstack((acc, r1, r2, ..)) / np.concatenate((acc, r1, ..)) -> rows"""
    if not (isinstance(call, ast.Call) and _short(call) in ("vstack", "concatenate", "block", "hstack", "r_") and call.args):
        return None
    ops = call.args[0].elts if isinstance(call.args[0], (ast.Tuple, ast.List)) else list(call.args)
    rows = []
    for o in ops[1:]:
        rows.append((parse_row(o), o))
    return ops[0], rows


def run(ctx, rep):
    rep.rule("R17.1", "matrix rows and right-hand sides of LinearConstraints are built from the same masks with matching signs and limits; independent guards for the two blocks; undefined rows dropped from both with one mask; NaN coefficients -> 0")
    rep.rule("R17.2", "nonlinear slacks: (bound - value) under bound > -inf, (value - bound) under bound < inf, residual value - midpoint; complementary index sets")
    rep.rule("R17.3", "NaN bounds are replaced by -inf (lower) / +inf (upper)")
    rep.rule("R17.4", "equality detection abs(ub - lb) <= get_arrays_tol(lb, ub) at both sites; limits broadcast in (lb, ub) order")
    r171(ctx, rep)
    r172(ctx, rep)
    r173(ctx, rep)
    r174(ctx, rep)
    from . import c10
    c10.run(ctx, rep, r1="R17.5", only_transform=True)


def r171(ctx, rep):
    f = ctx.func(LIN_INIT)
    inl = expander(ctx, f, stop=("is_equality",))
    stores = {}
    FIELDS4 = ("_a_ub", "_b_ub", "_a_eq", "_b_eq")
    # local accumulators that end up in one of the four fields
    local_field = {}
    for node in ast.walk(f.node):
        if isinstance(node, ast.Assign) and len(node.targets) == 1 and isinstance(node.targets[0], ast.Attribute) and node.targets[0].attr in FIELDS4:
            for x in ast.walk(node.value):
                if isinstance(x, ast.Name) and x.id not in ("np", "n", "numpy") and x.id.lstrip("_") == node.targets[0].attr.lstrip("_"):
                    local_field[x.id] = node.targets[0].attr
            if isinstance(node.value, ast.Subscript) and isinstance(node.value.value, ast.Name):
                local_field.setdefault(node.value.value.id, node.targets[0].attr)
            if isinstance(node.value, ast.Name):
                local_field.setdefault(node.value.id, node.targets[0].attr)
    for node in ast.walk(f.node):
        if not (isinstance(node, ast.Assign) and len(node.targets) == 1):
            continue
        t0 = node.targets[0]
        fld = t0.attr if isinstance(t0, ast.Attribute) and t0.attr in FIELDS4 else (local_field.get(t0.id) if isinstance(t0, ast.Name) else None)
        if fld is not None:
            rec = stack_recipe(inl.expand(node.value, node) if isinstance(t0, ast.Attribute) else node.value)
            if rec is not None:
                stores.setdefault(fld, []).append((node, rec))
    for a, b, kind in (("_a_ub", "_b_ub", "inequality"), ("_a_eq", "_b_eq", "equality")):
        if a not in stores or b not in stores:
            rep.bad("R17.1", f"{kind} block")
            rep.finding("R17.1", f, f"{a}/{b} stacking", f.node.lineno, f"the {kind} block (matrix and right-hand side built by stacking) was not found")
            continue
        (na, (acc_a, rows_a)), (nb, (acc_b, rows_b)) = stores[a][0], stores[b][0]
        desc = f"{f.local}:{na.lineno} {kind} recipe A:{[r[0] for r in rows_a]} b:{[r[0] for r in rows_b]}"
        probs = []
        if any(r[0] is None for r in rows_a + rows_b):
            bad = [norm(r[1])[:40] for r in rows_a + rows_b if r[0] is None]
            probs.append(f"row expression(s) {bad} are not of the form (+/-)source[mask]")
        elif len(rows_a) != len(rows_b):
            probs.append(f"{len(rows_a)} matrix blocks but {len(rows_b)} right-hand-side blocks")
        else:
            for (ra, _), (rb, _) in zip(rows_a, rows_b):
                if ra[1] != "A":
                    probs.append(f"matrix block taken from `{ra[1]}`")
                if ra[2] != rb[2]:
                    probs.append(f"matrix rows use mask `{ra[2]}` but the right-hand side uses `{rb[2]}`")
                if kind == "inequality":
                    if ra[0] != rb[0]:
                        probs.append(f"sign mismatch: {ra[0]}A paired with {rb[0]}{rb[1]}")
                    want = "ub" if ra[0] == "+" else "lb"
                    if rb[1] != want:
                        probs.append(f"{ra[0]}A must be paired with {ra[0]}{want} (A x <= ub, -A x <= -lb) but is paired with {rb[0]}{rb[1]}")
                    if not ra[2].startswith("~"):
                        probs.append(f"inequality rows must use the complement of the equality mask, not `{ra[2]}`")
                else:
                    if ra[0] != "+" or rb[1] != "mid" or rb[0] != "+":
                        probs.append(f"equality rows must be +A with the midpoint 0.5*(lb+ub); found {ra[0]}A with {rb[0]}{rb[1]}")
                    if ra[2].startswith("~"):
                        probs.append(f"equality rows must use the equality mask, not `{ra[2]}`")
            if kind == "inequality":
                signs = sorted(r[0][0] for r in rows_a)
                if signs != ["+", "-"]:
                    probs.append(f"a two-sided component must contribute +A and -A rows; found signs {signs}")
        # accumulators
        if not (mentions(acc_a, a.lstrip("_")) and mentions(acc_b, b.lstrip("_"))):
            probs.append("the stacking does not extend the rows accumulated so far")
        # guards
        for node, lbl in ((na, a), (nb, b)):
            ctxs = [c for c in enclosing_context(node, f.node) if c[0] in ("if-true", "if-false")]
            for k, test, _ in ctxs:
                t = norm(inl.expand(test, test))
                ok_guard = False
                if kind == "inequality":
                    ok_guard = (k == "if-true" and (t.replace(" ", "") in ("notnp.all(is_equality)", "np.any(~is_equality)")))
                else:
                    ok_guard = (k == "if-true" and t.replace(" ", "") == "np.any(is_equality)")
                if not ok_guard:
                    probs.append(f"the {kind} block is built under `{k.replace('if-', '')} branch of {t}`: "
                                 f"it must be built whenever some component is {'not ' if kind == 'inequality' else ''}an equality, independently of the other block")
        if probs:
            rep.bad("R17.1", desc)
            rep.finding("R17.1", f, f"{kind} block: " + "; ".join(sorted(set(probs)))[:150], na.lineno, "; ".join(sorted(set(probs))))
        else:
            rep.ok("R17.1", desc)
    # the two blocks are siblings in the loop over constraints (same loop)
    # filters
    filt = {}
    for node in ast.walk(f.node):
        if isinstance(node, ast.Assign) and len(node.targets) == 1 and isinstance(node.targets[0], ast.Attribute) and node.targets[0].attr in ("_a_ub", "_b_ub", "_a_eq", "_b_eq") and isinstance(node.value, ast.Subscript):
            sl = node.value.slice
            if isinstance(sl, ast.Tuple):
                sl = sl.elts[0]
            filt[node.targets[0].attr] = (norm(sl), node)
    undef = {}
    for node in ast.walk(f.node):
        if isinstance(node, ast.Assign) and len(node.targets) == 1 and isinstance(node.targets[0], ast.Name) and node.targets[0].id.startswith("undef"):
            undef[node.targets[0].id] = node.value
    for a, b, kind in (("_a_ub", "_b_ub", "inequality"), ("_a_eq", "_b_eq", "equality")):
        desc = f"{f.local}: undefined {kind} rows dropped from both arrays"
        if a in filt and b in filt and filt[a][0] == filt[b][0] and not (filt[a][0].startswith("~") and filt[a][0][1:] in undef):
            # the mask is written in place: ~np.isnan(b) / np.isfinite(b) / ~(np.isnan(b) | np.isinf(b))
            rhs = "b_ub" if kind == "inequality" else "b_eq"
            txt = filt[a][0].replace(" ", "")
            for alt in ["self._" + rhs, "self." + rhs] + [nm for nm, fl in local_field.items() if fl == "_" + rhs]:
                txt = txt.replace("(" + alt + ")", "(B)")
            ok_txt = ("np.isfinite(B)", "~(np.isnan(B)|np.isinf(B))", "~(np.isinf(B)|np.isnan(B))") if kind == "inequality" else ("~np.isnan(B)", "~(np.isnan(B))")
            if txt in ok_txt:
                rep.ok("R17.1", desc + f" with mask {filt[a][0][:50]}")
            else:
                rep.bad("R17.1", desc)
                rep.finding("R17.1", f, f"mask {filt[a][0][:80]}", filt[a][1].lineno,
                            f"undefined {kind} right-hand sides are not detected as documented ({'NaN or infinite' if kind == 'inequality' else 'NaN'} entries of {rhs})")
        elif a in filt and b in filt and filt[a][0] == filt[b][0] and filt[a][0].startswith("~"):
            name = filt[a][0][1:]
            v = undef.get(name)
            txt = norm(v).replace(" ", "") if v is not None else ""
            rhs = "b_ub" if kind == "inequality" else "b_eq"
            # spellings of the right-hand side: the property, the field, a local accumulator
            for alt in ["self._" + rhs] + [nm for nm, fl in local_field.items() if fl == "_" + rhs]:
                txt = txt.replace("(" + alt + ")", "(self." + rhs + ")")
            if kind == "inequality":
                good = "isnan(self." + rhs + ")" in txt and "isinf(self." + rhs + ")" in txt and "|" in txt
                good = good or ("isfinite(self." + rhs + ")" in txt and txt.startswith("~"))
            else:
                good = "isnan(self." + rhs + ")" in txt and "isinf" not in txt.replace("isinf(self.b_eq)", "isinf") or "isnan(self." + rhs + ")" in txt
            if good:
                rep.ok("R17.1", desc + f" with mask {filt[a][0]} = ~({norm(v)[:50]})")
            else:
                rep.bad("R17.1", desc)
                rep.finding("R17.1", f, f"{name} = {norm(v)[:80] if v is not None else '?'}", filt[a][1].lineno,
                            f"undefined {kind} right-hand sides are not detected as documented ({'NaN or infinite' if kind == 'inequality' else 'NaN'} entries of {rhs})")
        else:
            rep.bad("R17.1", desc)
            rep.finding("R17.1", f, f"filters {filt.get(a, ('?',))[0]} / {filt.get(b, ('?',))[0]}", f.node.lineno,
                        f"the rows of the {kind} matrix and the entries of its right-hand side are not filtered with one and the same mask")
    # NaN coefficients -> 0
    for arr in ("a_ub", "a_eq"):
        ok = False
        for node in ast.walk(f.node):
            if isinstance(node, ast.Assign) and isinstance(node.targets[0], ast.Subscript) and mentions(node.targets[0].value, arr, "_" + arr):
                sl = node.targets[0].slice
                if _short(sl) == "isnan" and mentions(sl, arr, "_" + arr) and const_value(node.value) in (0, 0.0):
                    ok = True
        if ok:
            rep.ok("R17.1", f"{f.local}: NaN coefficients of {arr} count as 0")
        else:
            rep.bad("R17.1", f"NaN coefficients {arr}")
            rep.finding("R17.1", f, f"{arr}[isnan({arr})] = 0.0", f.node.lineno, f"NaN coefficients of {arr} are no longer replaced by 0")


def r172(ctx, rep):
    f = ctx.func(NLC_CALL)
    # bound variables: xl = pc.bounds[0][ub_idx] ; xu = pc.bounds[1][ub_idx]
    bound_side = {}

    def side_of_expr(v):
        out = set()
        for sub in ast.walk(v):
            if isinstance(sub, ast.Subscript) and isinstance(sub.value, ast.Attribute) and sub.value.attr == "bounds" and const_value(sub.slice) in (0, 1):
                out.add("lo" if const_value(sub.slice) == 0 else "hi")
            # a name that holds one side of the limits (lb, ub = pc.bounds ; xl = lb[idx])
            if isinstance(sub, ast.Name) and sub.id in whole_side:
                out |= whole_side[sub.id]
        return out
    whole_side = {}
    for node in ast.walk(f.node):
        # lb, ub = pc.bounds
        if isinstance(node, ast.Assign) and isinstance(node.targets[0], (ast.Tuple, ast.List)) and len(node.targets[0].elts) == 2 and isinstance(node.value, ast.Attribute) and node.value.attr == "bounds" \
                and all(isinstance(t, ast.Name) for t in node.targets[0].elts):
            whole_side.setdefault(node.targets[0].elts[0].id, set()).add("lo")
            whole_side.setdefault(node.targets[0].elts[1].id, set()).add("hi")
        if isinstance(node, ast.Assign) and isinstance(node.targets[0], (ast.Tuple, ast.List)) and isinstance(node.value, (ast.Tuple, ast.List)) and len(node.targets[0].elts) == len(node.value.elts):
            for t, v in zip(node.targets[0].elts, node.value.elts):
                if isinstance(t, ast.Name) and isinstance(v, ast.Subscript) and isinstance(v.value, ast.Attribute) and v.value.attr == "bounds" and const_value(v.slice) in (0, 1):
                    whole_side.setdefault(t.id, set()).add("lo" if const_value(v.slice) == 0 else "hi")
    whole_side = {k: v for k, v in whole_side.items() if len(v) == 1}
    for node in ast.walk(f.node):
        if isinstance(node, ast.Assign) and len(node.targets) == 1 and isinstance(node.targets[0], ast.Name):
            sd = side_of_expr(node.value)
            if sd:
                bound_side.setdefault(node.targets[0].id, set()).update(sd)
        if isinstance(node, ast.Assign) and isinstance(node.targets[0], (ast.Tuple, ast.List)) and isinstance(node.value, (ast.Tuple, ast.List)) and len(node.targets[0].elts) == len(node.value.elts):
            for t, v in zip(node.targets[0].elts, node.value.elts):
                if isinstance(t, ast.Name) and side_of_expr(v):
                    bound_side.setdefault(t.id, set()).update(side_of_expr(v))
    for k_, v_ in whole_side.items():
        bound_side.setdefault(k_, set()).update(v_)

    def side_of(e):
        """side of a bound operand: a name defined from pc.bounds[k] or such an expression"""
        if isinstance(e, ast.Name):
            return bound_side.get(e.id)
        sd = side_of_expr(e)
        return sd or None

    def mask_info(v):
        """(side, ok) for a mask expression `lower > -inf` / `upper < inf` / isfinite(bound)"""
        p = _cmp_parts(v)
        if p:
            l, op, r = p
            sd = side_of(l)
            rt = norm(r).replace(" ", "")
            if sd == {"lo"} and op == ">" and rt in ("-np.inf", "-numpy.inf", "-inf"):
                return sd, True
            if sd == {"hi"} and op == "<" and rt in ("np.inf", "numpy.inf", "inf"):
                return sd, True
            if sd:
                return sd, False
        if _short(v) == "isfinite" and v.args and side_of(v.args[0]):
            return side_of(v.args[0]), True
        return None
    # the masks are the index sets of the slack-shaped expressions B[m] - V[m] / V[m] - B[m]
    mask_names = set()
    for node in ast.walk(f.node):
        if isinstance(node, ast.BinOp) and isinstance(node.op, ast.Sub):
            l, r = node.left, node.right
            if isinstance(l, ast.Subscript) and isinstance(r, ast.Subscript) and isinstance(l.slice, ast.Name) and norm(l.slice) == norm(r.slice) and (side_of(l.value) or side_of(r.value)):
                mask_names.add(l.slice.id)
    masks = {}
    for node in ast.walk(f.node):
        if isinstance(node, ast.Assign) and len(node.targets) == 1 and isinstance(node.targets[0], ast.Name) and node.targets[0].id in mask_names:
            mi_ = mask_info(node.value)
            if mi_ is None:
                # a mask of another shape: which limit does it look at?
                sd_ = set()
                for x in ast.walk(node.value):
                    if isinstance(x, ast.Name) and bound_side.get(x.id):
                        sd_ |= bound_side[x.id]
                mi_ = (sd_ or None, False)
            masks[node.targets[0].id] = (node, mi_)
    if len(masks) < 2:
        raise AnalysisError("NonlinearConstraints.__call__: finite-limit masks not found")
    for name, (node, (sd, good)) in masks.items():
        desc = f"{f.local}:{node.lineno} {name} = {norm(node.value)}"
        if good:
            rep.ok("R17.2", desc + " (NaN and infinite limits dropped)")
        else:
            rep.bad("R17.2", desc)
            rep.finding("R17.2", f, norm(node), node.lineno,
                        "the mask of usable limits must be `lower > -inf` / `upper < inf` (or isfinite): only these drop NaN limits as documented; "
                        f"found `{norm(node.value)}`")
    # slack expressions, wherever they are written: B[m] - V[m] / V[m] - B[m]
    slacks = []
    for node in ast.walk(f.node):
        if isinstance(node, ast.BinOp) and isinstance(node.op, ast.Sub):
            l, r = node.left, node.right
            if isinstance(l, ast.Subscript) and isinstance(r, ast.Subscript) and norm(l.slice) == norm(r.slice) and norm(l.slice) in masks:
                slacks.append((node, l, r, norm(l.slice)))
    if len(slacks) < 2:
        rep.bad("R17.2", "slack expressions")
        rep.finding("R17.2", f, "slack expressions", f.node.lineno, "the lower/upper slack expressions `bound[mask] - value[mask]` / `value[mask] - bound[mask]` were not found (masks of both operands must agree)")
    kinds = set()
    for node, l, r, m in slacks:
        mside = masks[m][1][0]
        ls, rs = side_of(l.value), side_of(r.value)
        desc = f"{f.local}:{node.lineno} `{norm(node)}`"
        if ls == {"lo"} and mside == {"lo"} and not rs:
            rep.ok("R17.2", desc + " = lower bound - value under the finite-lower mask")
            kinds.add("lo")
        elif rs == {"hi"} and mside == {"hi"} and not ls:
            rep.ok("R17.2", desc + " = value - upper bound under the finite-upper mask")
            kinds.add("hi")
        else:
            rep.bad("R17.2", desc)
            rep.finding("R17.2", f, norm(node), node.lineno,
                        "slack orientation: the internal inequality must be (lower - value) under the finite-lower mask and (value - upper) under the finite-upper mask; "
                        f"found `{norm(node)}` with mask on the {'lower' if mside == {'lo'} else 'upper' if mside == {'hi'} else '?'} limit")
    # both slacks are appended to the inequality list
    def feeds_append(expr):
        st = expr
        while getattr(st, "_parent", None) is not None and not isinstance(st, ast.stmt):
            st = st._parent
        if isinstance(st, ast.Expr) and isinstance(st.value, ast.Call) and isinstance(st.value.func, ast.Attribute) and st.value.func.attr == "append":
            return norm(st.value.func.value)
        if isinstance(st, ast.Assign) and len(st.targets) == 1 and isinstance(st.targets[0], ast.Name):
            nm = st.targets[0].id
            for n2 in ast.walk(f.node):
                if isinstance(n2, ast.Call) and isinstance(n2.func, ast.Attribute) and n2.func.attr == "append" and n2.args and isinstance(n2.args[0], ast.Name) and n2.args[0].id == nm and getattr(n2, "lineno", 0) >= st.lineno:
                    return norm(n2.func.value)
        return None
    lists = [feeds_append(node) for node, _, _, _ in slacks]
    n_app = len([x for x in lists if x is not None])
    if n_app >= 2 and len(set(x for x in lists if x)) == 1 and kinds == {"lo", "hi"}:
        rep.ok("R17.2", f"{f.local}: both slacks are appended to the inequality values")
    else:
        rep.bad("R17.2", "slack appends")
        rep.finding("R17.2", f, f"{n_app} slack append(s) to {sorted(set(x for x in lists if x))}", f.node.lineno, "a two-sided component must contribute two inequalities (lower and upper slack) to the same list")
    # equality residual: value - 0.5 * (lower + upper)
    def is_mid(v):
        if isinstance(v, ast.BinOp) and isinstance(v.op, ast.Mult):
            c, other = (v.left, v.right) if const_value(v.left) is not None else (v.right, v.left)
            if const_value(c) == 0.5 and isinstance(other, ast.BinOp) and isinstance(other.op, ast.Add):
                return side_of_expr(other.left) | side_of_expr(other.right) == {"lo", "hi"} and len(side_of_expr(other.left)) == 1 and len(side_of_expr(other.right)) == 1
        return False
    mids = set()
    for node in ast.walk(f.node):
        if isinstance(node, ast.Assign) and len(node.targets) == 1 and isinstance(node.targets[0], ast.Name) and is_mid(node.value):
            mids.add(node.targets[0].id)

    def is_mid_ref(e):
        return (isinstance(e, ast.Name) and e.id in mids) or is_mid(e)
    ok = False
    for node in ast.walk(f.node):
        if isinstance(node, ast.AugAssign) and isinstance(node.op, ast.Sub) and is_mid_ref(node.value):
            ok = True
        if isinstance(node, ast.BinOp) and isinstance(node.op, ast.Sub) and is_mid_ref(node.right):
            ok = True
    # the two kinds are handled independently: the equality residual must not be
    # conditioned on the inequality components of the same object (and vice versa)
    def idx_names(exprs):
        out = set()
        for e_ in exprs:
            for sub in ast.walk(e_):
                if isinstance(sub, ast.Subscript) and isinstance(sub.value, ast.Subscript) and isinstance(sub.value.value, ast.Attribute) and sub.value.value.attr == "bounds" and isinstance(sub.slice, ast.Name):
                    out.add(sub.slice.id)
        return out
    ineq_names = set()
    for node in ast.walk(f.node):
        if isinstance(node, ast.Assign) and len(node.targets) == 1 and isinstance(node.targets[0], ast.Name) and node.targets[0].id in bound_side and not is_mid(node.value):
            ineq_names |= idx_names([node.value])
    eq_names = set()
    for node in ast.walk(f.node):
        if isinstance(node, ast.BinOp) and is_mid(node):
            eq_names |= idx_names([node])
    ineq_names -= eq_names
    res_stmts = []
    for node in ast.walk(f.node):
        if isinstance(node, ast.AugAssign) and isinstance(node.op, ast.Sub) and is_mid_ref(node.value):
            res_stmts.append(node)
        if isinstance(node, ast.Assign) and isinstance(node.value, ast.BinOp) and isinstance(node.value.op, ast.Sub) and is_mid_ref(node.value.right):
            res_stmts.append(node)
    for st in res_stmts:
        for kind, test, _n in enclosing_context(st, f.node):
            if kind in ("if-true", "if-false") and ineq_names and mentions(test, *ineq_names):
                ok = False
                rep.bad("R17.2", "equality residual independent of the inequality components")
                rep.finding("R17.2", f, norm(st), st.lineno,
                            f"the equality residual (value - midpoint) is only formed under `{'not ' if kind == 'if-false' else ''}{norm(test)}`: in a constraint object that mixes equality and "
                            "inequality components the level is not subtracted and the internal equality becomes fun(x) = 0 instead of fun(x) = lb")
                return
    for node, l, r, m in slacks:
        for kind, test, _n in enclosing_context(node, f.node):
            if kind == "if-false" and eq_names and mentions(test, *eq_names):
                rep.bad("R17.2", "slacks independent of the equality components")
                rep.finding("R17.2", f, norm(node), node.lineno, f"the inequality slack is only formed when `{norm(test)}` fails: mixed objects lose their inequalities")
                return
    if ok:
        rep.ok("R17.2", f"{f.local}: equality residual = value - 0.5*(lb + ub)")
    else:
        rep.bad("R17.2", "equality residual")
        rep.finding("R17.2", f, "eq_val -= midpoint", f.node.lineno, "the equality residual is not value - midpoint with midpoint = 0.5*(lower + upper)")
    # complementary index sets
    eq = ub = None
    for node in ast.walk(f.node):
        if isinstance(node, ast.Call) and isinstance(node.func, ast.Attribute) and node.func.attr == "append" and node.args and isinstance(node.args[0], ast.Subscript):
            tgt = norm(node.func.value)
            if tgt.endswith("_map_eq"):
                eq = norm(node.args[0].slice)
            if tgt.endswith("_map_ub"):
                ub = norm(node.args[0].slice)
    if eq and ub and (ub == "~" + eq or eq == "~" + ub):
        rep.ok("R17.2", f"{f.local}: index sets idx[{eq}] / idx[{ub}] are complementary")
    else:
        rep.bad("R17.2", "index sets")
        rep.finding("R17.2", f, f"_map_eq idx[{eq}] / _map_ub idx[{ub}]", f.node.lineno, "the equality and inequality index sets of a constraint do not partition its components")


def r173(ctx, rep):
    f = ctx.func(BND_INIT)
    inl = expander(ctx, f)
    found = {}

    def role(arr):
        """'lo' / 'hi' of the array that is NaN-repaired: by the field it is or
        flows into, or by the user attribute it is copied from."""
        t = norm(arr)
        if t.endswith("xl"):
            return "lo"
        if t.endswith("xu"):
            return "hi"
        if isinstance(arr, ast.Name):
            for node in ast.walk(f.node):
                if isinstance(node, ast.Assign) and isinstance(node.value, ast.Name) and node.value.id == arr.id:
                    for tg in node.targets:
                        if isinstance(tg, ast.Attribute) and tg.attr in ("_xl", "xl"):
                            return "lo"
                        if isinstance(tg, ast.Attribute) and tg.attr in ("_xu", "xu"):
                            return "hi"
            for node in ast.walk(f.node):
                if isinstance(node, ast.Assign) and any(isinstance(tg, ast.Name) and tg.id == arr.id for tg in node.targets):
                    if mentions(node.value, "lb") and not mentions(node.value, "ub"):
                        return "lo"
                    if mentions(node.value, "ub") and not mentions(node.value, "lb"):
                        return "hi"
        return None

    for node in ast.walk(f.node):
        if isinstance(node, ast.Assign) and isinstance(node.targets[0], ast.Subscript) and _short(node.targets[0].slice) == "isnan":
            arr = node.targets[0].value
            arg = node.targets[0].slice.args[0] if node.targets[0].slice.args else None
            val = norm(node.value).replace(" ", "")
            which = role(arr)
            if which is None:
                raise AnalysisError(f"{f.local}:{node.lineno} cannot tell whether `{norm(arr)}` is the lower or the upper bound array")
            found[which] = (norm(arr), norm(arg) if arg is not None else "", val, node)
    for which, want in (("lo", ("-np.inf", "-numpy.inf")), ("hi", ("np.inf", "numpy.inf"))):
        desc = f"{f.local}: NaN {'lower' if which == 'lo' else 'upper'} bound -> {want[0]}"
        if which in found and found[which][2] in want and found[which][0] == found[which][1]:
            rep.ok("R17.3", desc)
        else:
            got = found.get(which)
            rep.bad("R17.3", desc)
            rep.finding("R17.3", f, norm(got[3]) if got else f"no NaN repair of the {which} bound", got[3].lineno if got else f.node.lineno,
                        f"a NaN {'lower' if which == 'lo' else 'upper'} bound must mean 'no bound' ({want[0]})")


def r174(ctx, rep):
    sites = []
    for q in (LIN_INIT, NLC_CALL):
        f = ctx.func(q)
        for node in ast.walk(f.node):
            if isinstance(node, ast.Assign) and any(isinstance(t, ast.Name) and t.id == "is_equality" for t in node.targets):
                sites.append((f, node))
    if len(sites) < 2:
        raise AnalysisError("equality detection sites not found (floor 2)")
    for f, node in sites:
        inl = expander(ctx, f)
        v = inl.expand(node.value, node)
        p = _cmp_parts(v)
        desc = f"{f.local}:{node.lineno} is_equality = {norm(v)[:70]}"
        if not p or not (_short(p[0]) in ("abs", "absolute") or _short(p[2]) in ("abs", "absolute")):
            raise AnalysisError(f"{desc}: shape of the equality detection not understood")
        l, op, r = p
        if _short(r) in ("abs", "absolute"):
            from ..astutil import FLIP
            l, op, r = r, FLIP[op], l
        good = False
        if op == "<=" and isinstance(l.args[0], ast.BinOp) and isinstance(l.args[0].op, ast.Sub):
            a, b = norm(l.args[0].left), norm(l.args[0].right)
            if _short(r) == "get_arrays_tol" and {norm(x) for x in r.args} == {a, b}:
                good = True
        if good:
            rep.ok("R17.4", desc)
        else:
            rep.bad("R17.4", desc)
            rep.finding("R17.4", f, norm(node)[:120], node.lineno, "equality detection must be abs(ub - lb) <= get_arrays_tol(lb, ub) (same rule for linear and nonlinear constraints)")
    # the normalised constraint objects get (lower, upper) limits derived from the
    # user's (lb, ub) in this order
    g = ctx.func("cobyqa.main:_get_constraints")
    inl = expander(ctx, g)
    n = 0
    for node in ast.walk(g.node):
        if isinstance(node, ast.Call) and _short(node) in ("LinearConstraint", "NonlinearConstraint"):
            args = []
            for a in node.args[1:]:
                if isinstance(a, ast.Starred):
                    inner = inl.expand(a.value, node)
                    if _short(inner) == "broadcast_arrays":
                        args += list(inner.args)
                    elif isinstance(inner, (ast.Tuple, ast.List)):
                        args += list(inner.elts)
                    else:
                        raise AnalysisError(f"{g.local}:{node.lineno} starred limits `{norm(a)[:40]}` not understood")
                else:
                    args.append(inl.expand(a, node))
            if len(args) != 2:
                continue
            lo, hi = args
            if isinstance(lo, ast.Constant) or isinstance(hi, ast.Constant) or not (mentions(lo, "lb", "ub") or mentions(hi, "lb", "ub")):
                continue  # dict constraints: constant limits
            n += 1
            desc = f"{g.local}:{node.lineno} {_short(node)}(.., {norm(lo)[:30]}, {norm(hi)[:30]})"
            if mentions(lo, "lb") and not mentions(lo, "ub") and mentions(hi, "ub") and not mentions(hi, "lb"):
                rep.ok("R17.4", desc + " limits in (lb, ub) order")
            else:
                rep.bad("R17.4", desc)
                rep.finding("R17.4", g, norm(node)[:100], node.lineno, "the lower limit of the normalised constraint is not derived from the user's lb and the upper one from ub: limits swapped or mixed")
    if n < 2:
        raise AnalysisError("_get_constraints: construction of the normalised LinearConstraint/NonlinearConstraint with (lb, ub) not found")


# ---------------------------------------------------------------------------
def r176(ctx, rep):
    """The values collected per constraint object are assembled under a gate
    (`if self._m_eq: c_eq = np.concatenate(c_eq)`); a gate that is a counter
    written in the per-constraint loop must *accumulate* over all constraint
    objects - a plain assignment makes it describe the last object only and
    the values of all the others are dropped."""
    f = ctx.func(NLC_CALL)
    gates = []
    for node in ast.walk(f.node):
        if not isinstance(node, ast.If):
            continue
        for s in node.body:
            if isinstance(s, ast.Assign) and len(s.targets) == 1 and isinstance(s.targets[0], ast.Name) and _short(s.value) in ("concatenate", "hstack") and s.value.args and isinstance(s.value.args[0], ast.Name):
                gates.append((node, s.value.args[0].id))
    class _G:   # conditional-expression form of the same gate
        def __init__(self, test, lineno):
            self.test, self.lineno = test, lineno
    for node in ast.walk(f.node):
        if isinstance(node, ast.Assign) and len(node.targets) == 1 and isinstance(node.targets[0], ast.Name) and isinstance(node.value, ast.IfExp):
            v = node.value
            for br, neg in ((v.body, False), (v.orelse, True)):
                if _short(br) in ("concatenate", "hstack") and br.args and isinstance(br.args[0], ast.Name):
                    gates.append((_G(v.test, node.lineno), br.args[0].id))
    if len(gates) < 2:
        # the assembly may be unconditional - then nothing gates it
        uncond = [s for s in ast.walk(f.node) if isinstance(s, ast.Assign) and _short(s.value) in ("concatenate", "hstack")]
        if len(uncond) >= 2:
            rep.ok("R17.6", f"{f.local}: the collected values are assembled unconditionally")
            return
        raise AnalysisError("NonlinearConstraints.__call__: assembly of the collected constraint values not found")
    for gate, lst in gates:
        refs = [x for x in ast.walk(gate.test) if isinstance(x, (ast.Attribute, ast.Name)) and isinstance(getattr(x, "ctx", None), ast.Load)]
        counters = []
        for x in refs:
            t = norm(x)
            if isinstance(x, ast.Name) and x.id in ("len", "np", "self", lst):
                continue
            if isinstance(x, ast.Attribute) and not (isinstance(x.value, ast.Name) and x.value.id == "self"):
                continue
            counters.append(t)
        desc = f"{f.local}:{gate.lineno} `{lst}` assembled under `{norm(gate.test)}`"
        if not counters:
            if mentions(gate.test, lst):
                rep.ok("R17.6", desc + " (gate derived from the list itself)")
                continue
            raise AnalysisError(f"{f.local}:{gate.lineno} gate `{norm(gate.test)}` of the assembly has an unknown shape")
        for c in counters:
            stores = []
            for node in ast.walk(f.node):
                if getattr(node, "lineno", 10**9) >= gate.lineno:
                    continue
                if isinstance(node, ast.Assign) and any(norm(t) == c for t in node.targets):
                    stores.append((node, "="))
                elif isinstance(node, ast.AugAssign) and norm(node.target) == c:
                    stores.append((node, "aug"))
            in_loop = []
            for node, kind in stores:
                cur = getattr(node, "_parent", None)
                while cur is not None and cur is not f.node:
                    if isinstance(cur, (ast.For, ast.While)):
                        in_loop.append((node, kind))
                        break
                    cur = getattr(cur, "_parent", None)
            if not in_loop:
                raise AnalysisError(f"{f.local}: the gate counter `{c}` is not written in the per-constraint loop (unknown bookkeeping)")
            bad = [n for n, k in in_loop if k == "=" or not isinstance(n.op, ast.Add)]
            if bad:
                rep.bad("R17.6", desc)
                rep.finding("R17.6", f, norm(bad[0])[:100], bad[0].lineno,
                            f"the counter `{c}` that gates the assembly of `{lst}` is assigned, not accumulated, in the loop over the constraint objects: it only describes the last object, "
                            "so the components of all other objects are silently dropped (and the loss is made permanent by the size stored afterwards)")
            else:
                rep.ok("R17.6", desc + f": `{c}` accumulates over all constraint objects")


_old_run17 = run


def run(ctx, rep):  # noqa: F811
    _old_run17(ctx, rep)
    rep.rule("R17.6", "the counters that gate the assembly of the collected nonlinear constraint values accumulate over all constraint objects")
    r176(ctx, rep)


# ---------------------------------------------------------------------------
def r177(ctx, rep):
    """The tolerance of the equality test lb == ub must be a finite number for
    any limits: the magnitudes entering it are restricted to the *finite*
    entries (isfinite drops NaN as well as +-inf; a NaN limit means "no limit"
    and must not turn the tolerance into NaN, which would make every equal pair
    fail the test and be emitted as two inequalities)."""
    f = ctx.func("cobyqa.utils.math:get_arrays_tol")
    n = 0
    for node in ast.walk(f.node):
        if isinstance(node, ast.Call) and _short(node) in ("max", "nanmax", "amax") and node.args:
            for sub in ast.walk(node.args[0]):
                if isinstance(sub, ast.Subscript) and isinstance(sub.value, ast.Name):
                    n += 1
                    m = sub.slice
                    desc = f"{f.local}:{node.lineno} magnitude over `{norm(sub)}`"
                    if _short(m) == "isfinite" and m.args and norm(m.args[0]) == sub.value.id:
                        rep.ok("R17.7", desc + " (finite entries only)")
                    else:
                        rep.bad("R17.7", desc)
                        rep.finding("R17.7", f, norm(node)[:100], node.lineno,
                                    f"the magnitude that scales the tolerance is taken over `{norm(m)}`, which does not exclude NaN (and/or infinite) entries: one NaN limit makes the tolerance NaN, "
                                    "`abs(ub - lb) <= tol` is then false for every component and lb == ub pairs are no longer recognised as equalities")
    if n < 1:
        # the reduction may be written with nan-aware functions over the whole array
        if any(isinstance(x, ast.Call) and _short(x) in ("nanmax",) for x in ast.walk(f.node)) and any(isinstance(x, ast.Call) and _short(x) == "isfinite" for x in ast.walk(f.node)):
            rep.ok("R17.7", f"{f.local}: nan-aware magnitude")
            return
        raise AnalysisError("get_arrays_tol: the magnitude of the finite entries (max |a[isfinite(a)]|) was not found")


_old_run17b = run


def run(ctx, rep):  # noqa: F811
    _old_run17b(ctx, rep)
    rep.rule("R17.7", "the tolerance of the equality test only depends on the finite entries of the limits")
    r177(ctx, rep)
