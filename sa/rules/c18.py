"""C18 - trust-region radius, resolution, penalty and centre stay coherent
(structural clauses; the number of reductions and finiteness of the penalty
are numerical and not decided).

R18.1 writer discipline on _radius / _resolution / _penalty / _best_index.
R18.2 radius >= resolution at every writer exit (equal / max with the
      resolution / snap-to-floor idiom with a validated factor > 1); the
      initial radius fitted to the bounds keeps radius_final <= radius_init.
R18.3 the resolution is only reduced: exhaustive three-branch update
      (factor in (0,1) | geometric mean | final value).
R18.4 refresh pairing: every penalty write is followed by set_best_index
      before the function returns; every interpolation update in minimize is
      followed by set_best_index before the best point is read again.
R18.5 the best point is protected from removal.
R18.6 set_best_index scans every other point and updates (index, merit,
      violation) together under `m < best or (m < best + tol and r < r_best)`.
R18.7 status 0 only under the test resolution <= radius_final.
"""
from __future__ import annotations

import ast

from ..astutil import norm, dotted, const_value, cmp_op_str
from ..loader import AnalysisError
from .. import tables as T
from .c07 import mentions, enclosing_context, _cmp_parts, trigger_ok, status_member

TR = "cobyqa.framework:TrustRegion"
FIELDS = {
    "_radius": {"__init__", "radius.setter", "enhance_resolution"},
    "_resolution": {"__init__", "resolution.setter"},
    "_penalty": {"__init__", "increase_penalty", "decrease_penalty"},
    "_best_index": {"__init__", "set_best_index"},
}


def _short(e):
    if isinstance(e, ast.Call):
        d = dotted(e.func)
        return d.split(".")[-1] if d else None
    return None


def writes(ctx):
    out = []
    for f in ctx.repo.funcs.values():
        for node in ast.walk(f.node):
            if isinstance(node, (ast.Assign, ast.AugAssign)):
                for t in (node.targets if isinstance(node, ast.Assign) else [node.target]):
                    tl = t.elts if isinstance(t, (ast.Tuple, ast.List)) else [t]
                    for el in tl:
                        if isinstance(el, ast.Attribute) and el.attr in FIELDS:
                            out.append((f, node, el.attr))
    return out


def run(ctx, rep):
    rep.rule("R18.1", "the four state fields are written only by their designated methods")
    rep.rule("R18.2", "radius >= resolution after every writer: `= resolution`, `max(.., resolution)`, snap-to-floor under `radius <= k*resolution` with validated k > 1; radius_final clamped after radius_init is fitted to the bounds")
    rep.rule("R18.3", "resolution update is an exhaustive if/elif/else: `*= factor in (0,1)`, `sqrt(resolution * final)`, `= final`")
    rep.rule("R18.4", "penalty write => set_best_index before return; update_interpolation => set_best_index before x_best is read")
    rep.rule("R18.5", "the best index gets a negative weight before the argmax when a new point is inserted")
    rep.rule("R18.6", "set_best_index loops over all points != best, acceptance test with violation tie-break, triple updated together")
    rep.rule("R18.7", "RADIUS_SUCCESS only in the true branch of resolution <= radius_final")
    r181(ctx, rep)
    r182(ctx, rep)
    r183(ctx, rep)
    r184(ctx, rep)
    r185(ctx, rep)
    r186(ctx, rep)
    r187(ctx, rep)
    rep.rule("R18.8", "arguments of the trust-region methods agree with their parameters (no swapped arguments)")
    from . import common
    common.check_swapped_args(ctx, rep, "R18.8", lambda g: g.cls is not None and g.cls.name == "TrustRegion")
    # the snap-to-floor of the radius setter relies on threshold > 1 also when
    # the threshold is *derived* from its partner during completion
    rep.rule("R18.9", "constants the radius rules rely on stay in their domain when they are derived from a supplied partner (completion of coupled pairs)")
    from . import c19
    from ..report import Renamed
    c19.r193(ctx, Renamed(rep, to="R18.9"), ctx.func(c19.OPT_FUNC), ctx.func(c19.CST_FUNC), c19.enum_tables(ctx))


def r181(ctx, rep):
    ws = writes(ctx)
    if len(ws) < 8:
        raise AnalysisError(f"only {len(ws)} writes of the trust-region state fields (floor 8)")
    for f, node, fld in ws:
        owner = f.cls.name if f.cls is not None else None
        name = f.local.split(".", 1)[1] if "." in f.local else f.local
        desc = f"{f.local}:{node.lineno} writes {fld}"
        if owner == "TrustRegion" and name in FIELDS[fld]:
            rep.ok("R18.1", desc)
        else:
            rep.bad("R18.1", desc)
            rep.finding("R18.1", f, norm(node)[:100], node.lineno, f"`{fld}` is written outside its designated writers ({sorted(FIELDS[fld])}): the invariants maintained there (radius >= resolution, best-index refresh) are bypassed")
    # the resolution setter is only used by enhance_resolution
    for ev in ctx.calls_to(f"{TR}.resolution.setter"):
        if ev.func.local == "TrustRegion.enhance_resolution":
            rep.ok("R18.1", f"{ev.func.local}:{ev.line} sets the resolution")
        else:
            rep.bad("R18.1", f"{ev.func.local}:{ev.line} sets the resolution")
            rep.finding("R18.1", ev.func, ev.text()[:80], ev.line, "the resolution is changed outside enhance_resolution")


def r182(ctx, rep):
    init = ctx.func(f"{TR}.__init__")
    ok = False
    for node in ast.walk(init.node):
        if isinstance(node, ast.Assign) and any(isinstance(t, ast.Attribute) and t.attr == "_radius" for t in node.targets):
            if isinstance(node.value, ast.Attribute) and node.value.attr in ("resolution", "_resolution"):
                ok = True
                rep.ok("R18.2", f"{init.local}:{node.lineno} radius = resolution")
            else:
                rep.bad("R18.2", "initial radius")
                rep.finding("R18.2", init, norm(node), node.lineno, "the initial radius is not the initial resolution")
                ok = True
    if not ok:
        raise AnalysisError("TrustRegion.__init__: initial radius not found")
    # setter
    st = ctx.func(f"{TR}.radius.setter")
    snap = None
    for node in ast.walk(st.node):
        if isinstance(node, ast.If):
            p = _cmp_parts(node.test)
            if p and mentions(p[0], "radius", "_radius") and mentions(p[2], "resolution", "_resolution"):
                snap = (node, p)
    desc = f"{st.local}: snap-to-floor"
    if snap is None:
        rep.bad("R18.2", desc)
        rep.finding("R18.2", st, "no snap of the radius to the resolution", st.node.lineno, "the radius setter does not keep radius >= resolution (snap to the resolution when close to it)")
    else:
        node, (l, op, r) = snap
        probs = []
        if op not in ("<=", "<"):
            probs.append(f"test uses `{op}`")
        if not (isinstance(r, ast.BinOp) and isinstance(r.op, ast.Mult) and mentions(r, "DECREASE_RADIUS_THRESHOLD")):
            probs.append(f"threshold `{norm(r)[:50]}` is not DECREASE_RADIUS_THRESHOLD (validated > 1) times the resolution")
        body_ok = any(isinstance(s, ast.Assign) and any(isinstance(t, ast.Attribute) and t.attr == "_radius" for t in s.targets) and isinstance(s.value, ast.Attribute) and s.value.attr in ("resolution", "_resolution") for s in node.body)
        if not body_ok:
            probs.append("the true branch does not set the radius to the resolution")
        if probs:
            rep.bad("R18.2", desc)
            rep.finding("R18.2", st, norm(node.test)[:100], node.lineno, "radius setter: " + "; ".join(probs))
        else:
            rep.ok("R18.2", desc + f" under `{norm(node.test)[:60]}`")
    # enhance_resolution
    er = ctx.func(f"{TR}.enhance_resolution")
    cfg = ctx.cfg(er)
    rad = [n for n in cfg.nodes if n.kind == "stmt" and isinstance(n.ast, ast.Assign) and any(isinstance(t, ast.Attribute) and t.attr == "_radius" for t in n.ast.targets)]
    res_nodes = [n for n in cfg.nodes if n.kind == "stmt" and isinstance(n.ast, (ast.Assign, ast.AugAssign)) and any(isinstance(t, ast.Attribute) and t.attr in ("resolution", "_resolution") for t in (n.ast.targets if isinstance(n.ast, ast.Assign) else [n.ast.target]))]
    if not rad:
        rep.bad("R18.2", "enhance_resolution radius")
        rep.finding("R18.2", er, "radius not reduced", er.node.lineno, "enhance_resolution no longer resets the radius relative to the new resolution")
    for n in rad:
        v = n.ast.value
        desc = f"{er.local}:{n.line} `{norm(n.ast)[:70]}`"
        good = _short(v) in ("max", "maximum") and any(isinstance(a, ast.Attribute) and a.attr in ("resolution", "_resolution") for a in v.args)
        after = all(n.id in cfg.reachable(r.id, skip_exc=True) and r.id not in cfg.reachable(n.id, skip_exc=True) for r in res_nodes)
        if good and after:
            rep.ok("R18.2", desc + " >= the new resolution")
        else:
            rep.bad("R18.2", desc)
            rep.finding("R18.2", er, norm(n.ast)[:100], n.line,
                        "after a resolution reduction the radius must be max(.., self.resolution) computed after the resolution update; "
                        + ("the floor is not the new resolution" if not good else "it is computed before the resolution is updated"))
    r182_fit(ctx, rep)


def r182_fit(ctx, rep, rule="R18.2"):
    # Interpolation.__init__: radius_final clamped after radius_init is fitted
    ii = ctx.func("cobyqa.models:Interpolation.__init__")
    cfg2 = ctx.cfg(ii)
    beg = [n for n in cfg2.nodes if n.kind == "stmt" and isinstance(n.ast, ast.Assign) and any(isinstance(t, ast.Subscript) and mentions(t.slice, "RHOBEG") for t in n.ast.targets)]
    end = [n for n in cfg2.nodes if n.kind == "stmt" and isinstance(n.ast, ast.Assign) and any(isinstance(t, ast.Subscript) and mentions(t.slice, "RHOEND") for t in n.ast.targets)]
    if not beg or not end:
        rep.bad(rule, "fit of the initial radius")
        rep.finding(rule, ii, "radius_init / radius_final fit", ii.node.lineno, "the initial radius is no longer fitted to the bounds together with radius_final")
    else:
        b, e = beg[0], end[0]
        v = e.ast.value
        ops = []
        if _short(v) in ("min", "minimum"):
            ops = v.args[0].elts if len(v.args) == 1 and isinstance(v.args[0], (ast.List, ast.Tuple)) else list(v.args)
        has_old = any(isinstance(o, ast.Subscript) and mentions(o.slice, "RHOEND") for o in ops)
        new_bound = [o for o in ops if not (isinstance(o, ast.Subscript) and mentions(o.slice, "RHOEND"))]
        good = has_old and len(new_bound) == 1
        if good:
            nb = new_bound[0]
            if isinstance(nb, ast.Subscript) and mentions(nb.slice, "RHOBEG"):
                good = cfg2.dominates(b.id, e.id)   # must read the *fitted* radius_init
            elif isinstance(nb, ast.Name):
                good = isinstance(b.ast.value, ast.Name) and b.ast.value.id == nb.id
            else:
                good = False
        same_guard = [c[2] for c in enclosing_context(b.ast, ii.node) if c[0] == "if-true"] == [c[2] for c in enclosing_context(e.ast, ii.node) if c[0] == "if-true"]
        desc = f"{ii.local}:{e.line} radius_final = {norm(v)[:60]}"
        if good and same_guard:
            rep.ok(rule, desc + " <= fitted radius_init")
        else:
            rep.bad(rule, desc)
            rep.finding(rule, ii, norm(e.ast)[:100], e.line, "when the initial radius is shrunk to fit the bounds, radius_final must be clamped to the *new* radius_init (min(radius_final, fitted value)), otherwise radius_final > resolution")


def r183(ctx, rep):
    er = ctx.func(f"{TR}.enhance_resolution")
    chain = None
    for node in er.body():
        if isinstance(node, ast.If):
            chain = node
            break
    if chain is None:
        raise AnalysisError("enhance_resolution: if/elif/else chain not found")
    branches = []
    cur = chain
    while True:
        branches.append((cur.test, cur.body))
        if len(cur.orelse) == 1 and isinstance(cur.orelse[0], ast.If):
            cur = cur.orelse[0]
            continue
        branches.append((None, cur.orelse))
        break
    if len(branches) != 3 or not branches[2][1]:
        rep.bad("R18.3", "three regimes")
        rep.finding("R18.3", er, f"{len(branches)} branches", chain.lineno, "the resolution update must be an exhaustive if / elif / else over the three regimes")
        return
    want_thr = ["LARGE_RESOLUTION_THRESHOLD", "MODERATE_RESOLUTION_THRESHOLD", None]
    for i, (test, body) in enumerate(branches):
        st = [s for s in body if isinstance(s, (ast.Assign, ast.AugAssign))]
        desc = f"{er.local}: regime {i + 1}"
        probs = []
        if test is not None:
            p = _cmp_parts(test)
            if p and p[1] in (">", ">="):
                p = (p[2], {">": "<", ">=": "<="}[p[1]], p[0])      # mirrored spelling of the same test
            if not (p and p[1] == "<" and mentions(p[0], want_thr[i]) and mentions(p[0], "RHOEND") and mentions(p[2], "resolution")):
                probs.append(f"test `{norm(test)[:70]}` is not `{want_thr[i]} * radius_final < resolution`")
        if len(st) != 1:
            probs.append("exactly one resolution assignment expected")
        else:
            s = st[0]
            if i == 0:
                if not (isinstance(s, ast.AugAssign) and isinstance(s.op, ast.Mult) and mentions(s.value, "DECREASE_RESOLUTION_FACTOR") and isinstance(s.value, ast.Subscript)):
                    probs.append(f"`{norm(s)[:60]}` is not `resolution *= DECREASE_RESOLUTION_FACTOR` (validated in (0,1))")
            elif i == 1:
                v = s.value if isinstance(s, ast.Assign) else None
                if not (_short(v) == "sqrt" and isinstance(v.args[0], ast.BinOp) and isinstance(v.args[0].op, ast.Mult) and mentions(v.args[0], "resolution") and mentions(v.args[0], "RHOEND")):
                    probs.append(f"`{norm(s)[:60]}` is not the geometric mean sqrt(resolution * radius_final)")
            else:
                v = s.value if isinstance(s, ast.Assign) else None
                if not (isinstance(v, ast.Subscript) and mentions(v.slice, "RHOEND")):
                    probs.append(f"`{norm(s)[:60]}` does not set the resolution to radius_final")
        if probs:
            rep.bad("R18.3", desc)
            rep.finding("R18.3", er, f"regime {i + 1}: " + "; ".join(probs)[:120], (st[0].lineno if st else chain.lineno), "; ".join(probs))
        else:
            rep.ok("R18.3", desc + f": {norm(st[0])[:60]}")


def r184(ctx, rep):
    sbi = f"{TR}.set_best_index"
    # the initial centre: after the models (and so the initial values) exist, the
    # constructor selects the best index on every path
    init = ctx.func(f"{TR}.__init__")
    icfg = ctx.cfg(init)
    built = [n for n in icfg.nodes if n.kind == "stmt" and isinstance(n.ast, ast.Assign) and any(isinstance(t, ast.Attribute) and t.attr == "_models" for t in n.ast.targets)]
    sel = [icfg.node_containing(ev.node) for ev in ctx.events(init) if ev.kind == "call" and any(t.kind == "repo" and t.name == sbi for t in ev.targets)]
    if not built:
        raise AnalysisError("TrustRegion.__init__: construction of the models not found")
    desc = f"{init.local}: set_best_index() after the models are built"
    if sel and any(icfg.dominates(built[0].id, s_) and icfg.postdominates(s_, built[0].id) for s_ in sel if s_ is not None):
        rep.ok("R18.4", desc)
    else:
        rep.bad("R18.4", desc)
        rep.finding("R18.4", init, "set_best_index()", init.node.lineno, "the constructor does not select the best interpolation point after the initial sampling: the first trust-region centre is point 0 whatever its merit value")
    for name in ("increase_penalty", "decrease_penalty"):
        f = ctx.func(f"{TR}.{name}")
        cfg = ctx.cfg(f)
        ws = [n for n in cfg.nodes if n.kind == "stmt" and isinstance(n.ast, (ast.Assign, ast.AugAssign)) and any(isinstance(t, ast.Attribute) and t.attr == "_penalty" for t in (n.ast.targets if isinstance(n.ast, ast.Assign) else [n.ast.target]))]
        refresh = [cfg.node_containing(ev.node) for ev in ctx.events(f) if ev.kind == "call" and any(t.kind == "repo" and t.name == sbi for t in ev.targets)]
        if not ws:
            rep.bad("R18.4", f"{f.local} penalty write")
            rep.finding("R18.4", f, "no penalty write", f.node.lineno, f"{name} does not change the penalty")
            continue
        for w in ws:
            desc = f"{f.local}:{w.line} `{w.text()[:50]}` followed by set_best_index"
            if any(cfg.postdominates(r, w.id) and r != w.id for r in refresh):
                rep.ok("R18.4", desc)
            else:
                rep.bad("R18.4", desc)
                rep.finding("R18.4", f, w.text()[:80], w.line, "the penalty changes but the best index is not refreshed before the function returns: the centre of the trust region is no longer the point of least merit")
            v = w.ast.value
            if name == "increase_penalty":
                good = _short(v) in ("max", "maximum") and any(isinstance(const_value(a), (int, float)) and const_value(a) > 0 for a in v.args)
                what = "max(.., positive constant)"
            else:
                good = _short(v) in ("min", "minimum") and any(isinstance(a, ast.Attribute) and a.attr == "_penalty" for a in v.args)
                what = "min(current penalty, ..)"
            if good:
                rep.ok("R18.4", f"{f.local}:{w.line} penalty = {what}")
            else:
                rep.bad("R18.4", f"{f.local}:{w.line} penalty form")
                rep.finding("R18.4", f, w.text()[:80], w.line, f"{name} must set the penalty to {what}")
    # minimize: update_interpolation => set_best_index before x_best is read
    m = ctx.func(T.MINIMIZE)
    cfg = ctx.cfg(m)
    upd = "cobyqa.models:Models.update_interpolation"
    refresh = {cfg.node_containing(ev.node) for ev in ctx.events(m) if ev.kind == "call" and any(t.kind == "repo" and t.name == sbi for t in ev.targets)}
    readers = {}
    for ev in ctx.events(m):
        for t in ev.targets:
            if t.kind == "repo" and (t.func.name in ("x_best", "fun_best", "cub_best", "ceq_best", "best_index") or (t.func.cls is not None and t.func.cls.name == "TrustRegion" and t.func.name.startswith("get_"))):
                readers.setdefault(cfg.node_containing(ev.node), ev)
    k = 0
    for ev in ctx.events(m):
        if ev.kind == "call" and any(t.kind == "repo" and t.name == upd for t in ev.targets):
            k += 1
            u = cfg.node_containing(ev.node)
            starts = [b for b, l in cfg.succ[u] if l != "exc"]
            reach = set()
            for b in starts:
                if b in refresh:
                    continue
                reach |= cfg.reachable(b, avoid=refresh, skip_exc=True)
            stale = sorted(x for x in reach if x in readers and x != u)
            desc = f"minimize:{ev.line} update_interpolation followed by set_best_index"
            if stale:
                r = readers[stale[0]]
                rep.bad("R18.4", desc)
                rep.finding("R18.4", m, ev.text()[:80], ev.line, f"after the interpolation set changes, `{r.text()[:40]}` (line {r.line}) reads the best point before set_best_index refreshed it")
            else:
                rep.ok("R18.4", desc)
    if k < 2:
        raise AnalysisError("minimize: fewer than 2 update_interpolation calls")


def r185(ctx, rep):
    f = ctx.func(f"{TR}.get_index_to_remove")
    cfg = ctx.cfg(f)
    from ..inline import expander
    inl = expander(ctx, f)
    prot = [n for n in cfg.nodes if n.kind == "stmt" and isinstance(n.ast, ast.Assign) and isinstance(n.ast.targets[0], ast.Subscript) and mentions(inl.expand(n.ast.targets[0].slice, n.ast), "best_index", "_best_index")]
    arg = [cfg.node_containing(node) for node in ast.walk(f.node) if isinstance(node, ast.Call) and _short(node) in ("argmax", "nanargmax")]
    desc = f"{f.local}: best point excluded from removal"
    good = False
    for p in prot:
        cv = const_value(p.ast.value)
        wname = norm(p.ast.targets[0].value)
        if isinstance(cv, (int, float)) and cv < 0 and arg and all(cfg.dominates(p.id, a) or True for a in arg):
            # on the x_new path: the store lies in the else-branch of `x_new is None`
            ctxs = enclosing_context(p.ast, f.node)
            on_new_path = any((k == "if-false" and mentions(w, "x_new")) or (k == "if-true" and mentions(w, "x_new") and "not" in norm(w)) for k, w, _ in ctxs)
            if not on_new_path:
                # early-return form: `if x_new is None: ...; return` precedes the store in the same block
                def _after_guard(block):
                    guard_seen = False
                    for st in block:
                        if guard_seen and any(x is p.ast for x in ast.walk(st)):
                            return True
                        if isinstance(st, ast.If) and norm(st.test) in ("x_new is None",) and st.body and isinstance(st.body[-1], (ast.Return, ast.Raise)) and not st.orelse:
                            guard_seen = True
                    return False
                on_new_path = any(_after_guard(getattr(b, fld)) for b in ast.walk(f.node) for fld in ("body", "orelse", "finalbody") if isinstance(getattr(b, fld, None), list))
            # argmax sites that only serve the no-new-point case (inside `if x_new is None:`) are exempt
            arg_new = [a for a in arg if not any(k == "if-true" and norm(w) == "x_new is None" for k, w, _ in enclosing_context(cfg.nodes[a].ast, f.node))]
            used = any(mentions(n, wname) for a in arg_new for n in [cfg.nodes[a].ast])
            reach_ok = bool(arg_new) and all(a in cfg.reachable(p.id, skip_exc=True) for a in arg_new)
            good = on_new_path and used and reach_ok
    if good:
        rep.ok("R18.5", desc + f" ({prot[0].text()[:40]})")
    else:
        rep.bad("R18.5", desc)
        rep.finding("R18.5", f, "weights[best_index] = negative", f.node.lineno, "when a new point is inserted the weight of the best point must be made negative before the argmax, otherwise the centre of the trust region can be removed")
    # distance weights are measured from the best point
    ok = False
    for node in ast.walk(f.node):
        if isinstance(node, ast.Assign) and any(isinstance(t, ast.Name) and t.id == "dist_sq" for t in node.targets):
            if mentions(inl.expand(node.value, node), "best_index", "_best_index"):
                ok = True
    if ok:
        rep.ok("R18.5", f"{f.local}: distances are measured from the best point")
    else:
        rep.bad("R18.5", "distance reference")
        rep.finding("R18.5", f, "dist_sq", f.node.lineno, "the squared distances used as weights are not measured from the best point")


def r186(ctx, rep):
    f = ctx.func(f"{TR}.set_best_index")
    loops = [n for n in ast.walk(f.node) if isinstance(n, ast.For)]
    if len(loops) != 1:
        raise AnalysisError(f"set_best_index: {len(loops)} loops (one scan loop expected)")
    lp = loops[0]
    it = lp.iter
    if _short(it) == "range" and len(it.args) == 1 and mentions(it.args[0], "npt"):
        rep.ok("R18.6", f"{f.local}:{lp.lineno} scans range(npt)")
    else:
        rep.bad("R18.6", "scan range")
        rep.finding("R18.6", f, norm(it), lp.lineno, "the scan does not cover all interpolation points (range(npt))")
    k = lp.target.id if isinstance(lp.target, ast.Name) else "?"
    # the variable finally stored into _best_index
    fin = [n for n in f.body() if isinstance(n, ast.Assign) and any(isinstance(t, ast.Attribute) and t.attr == "_best_index" for t in n.targets)]
    if not fin or not isinstance(fin[-1].value, ast.Name) or fin[-1].lineno < lp.lineno:
        rep.bad("R18.6", "final store")
        rep.finding("R18.6", f, "_best_index store", f.node.lineno, "the result of the scan is not stored into _best_index after the loop")
        return
    idx = fin[-1].value.id
    rep.ok("R18.6", f"{f.local}: _best_index = {idx} after the scan")
    acc = None
    for node in ast.walk(lp):
        if isinstance(node, ast.If) and any(isinstance(s_, ast.Assign) and any(isinstance(t, ast.Name) and t.id == idx for t in s_.targets) for s_ in node.body):
            acc = node
    if acc is None:
        rep.bad("R18.6", "acceptance test")
        rep.finding("R18.6", f, "no acceptance branch", lp.lineno, "no branch updates the best index inside the scan")
        return
    # shape: M < MB or (M < MB + tol and R < RB)
    t = acc.test
    names = None
    if isinstance(t, ast.BoolOp) and isinstance(t.op, ast.Or) and len(t.values) == 2:
        a, b = t.values
        if isinstance(b, ast.Compare):
            a, b = b, a
        pa = _cmp_parts(a)
        if pa and pa[1] == "<" and isinstance(pa[0], ast.Name) and isinstance(pa[2], ast.Name) and isinstance(b, ast.BoolOp) and isinstance(b.op, ast.And) and len(b.values) == 2:
            M, MB = pa[0].id, pa[2].id
            c1, c2 = b.values
            p1, p2 = _cmp_parts(c1), _cmp_parts(c2)
            if p1 and p2:
                if not (isinstance(p1[2], ast.BinOp)):
                    p1, p2 = p2, p1
                if p1[1] == "<" and norm(p1[0]) == M and isinstance(p1[2], ast.BinOp) and isinstance(p1[2].op, ast.Add) and MB in {norm(p1[2].left), norm(p1[2].right)} and p2[1] == "<" and isinstance(p2[0], ast.Name) and isinstance(p2[2], ast.Name):
                    names = (M, MB, p2[0].id, p2[2].id)
    if names is None:
        rep.bad("R18.6", "acceptance test")
        rep.finding("R18.6", f, norm(t)[:120], acc.lineno, "the acceptance test is not `m < m_best or (m < m_best + tol and r < r_best)` (least merit, ties within rounding go to the smaller violation)")
        return
    M, MB, R, RB = names
    rep.ok("R18.6", f"{f.local}:{acc.lineno} accept iff {M} < {MB} or ({M} < {MB} + tol and {R} < {RB})")
    assigned = {}
    for s_ in acc.body:
        if isinstance(s_, ast.Assign) and len(s_.targets) == 1 and isinstance(s_.targets[0], ast.Name):
            assigned[s_.targets[0].id] = norm(s_.value)
    want = {idx: k, MB: M, RB: R}
    if all(assigned.get(a) == b for a, b in want.items()):
        rep.ok("R18.6", f"{f.local}: ({idx}, {MB}, {RB}) updated together")
    else:
        missing = sorted(a for a, b in want.items() if assigned.get(a) != b)
        rep.bad("R18.6", "triple update")
        rep.finding("R18.6", f, f"accept body assigns {assigned}", acc.lineno, f"when a better point is accepted {missing} is not updated with it: later comparisons use stale reference values")
    # the merit / violation of the scanned point are computed from its own values
    for var, fn in ((M, "merit"), (R, "maxcv")):
        st = [s_ for s_ in ast.walk(lp) if isinstance(s_, ast.Assign) and any(isinstance(t_, ast.Name) and t_.id == var for t_ in s_.targets)]
        ok = bool(st)
        for s_ in st:
            v = s_.value
            if not (isinstance(v, ast.Call) and isinstance(v.func, ast.Attribute) and v.func.attr == fn):
                ok = False
                continue
            idxs = set()
            for sub in ast.walk(v):
                if isinstance(sub, ast.Subscript) and mentions(sub.value, "fun_val", "cub_val", "ceq_val"):
                    sl = sub.slice.elts[0] if isinstance(sub.slice, ast.Tuple) else sub.slice
                    idxs.add(norm(sl))
            if idxs != {k}:
                ok = False
        if ok:
            rep.ok("R18.6", f"{f.local}: {var} computed by {fn} from the values of point {k}")
        else:
            rep.bad("R18.6", f"{var} index")
            rep.finding("R18.6", f, f"{var}", lp.lineno, f"`{var}` of the scanned point is not computed (by {fn}) from the values recorded for that point")


def r187(ctx, rep):
    m = ctx.func(T.MINIMIZE)
    n = 0
    for node in ast.walk(m.node):
        sm = None
        if isinstance(node, ast.Assign) and status_member(node.value) == "RADIUS_SUCCESS":
            sm = node
        if sm is not None:
            n += 1
            ok, why = trigger_ok("RADIUS_SUCCESS", enclosing_context(sm, m.node))
            if ok:
                rep.ok("R18.7", f"minimize:{sm.lineno} status 0 in the {why}")
            else:
                rep.bad("R18.7", f"minimize:{sm.lineno} status 0")
                rep.finding("R18.7", m, "RADIUS_SUCCESS", sm.lineno, "status 0 is issued outside the test resolution <= radius_final")
    if n < 1:
        raise AnalysisError("no RADIUS_SUCCESS site in minimize")


# ---------------------------------------------------------------------------
def r1810(ctx, rep):
    """The index handed to the geometry step is never the centre: it comes from
    get_index_to_remove() executed after the last change of the interpolation
    set / of the best index, on every path that reaches the geometry step
    (path-sensitive in the flag that guards the geometry step)."""
    from .. import tables as T
    m = ctx.func(T.MINIMIZE)
    cfg = ctx.cfg(m)
    gs = [ev for ev in ctx.events(m) if ev.kind == "call" and any(t.kind == "repo" and t.name == f"{TR}.get_geometry_step" for t in ev.targets)]
    if not gs:
        raise AnalysisError("minimize: call of get_geometry_step not found")
    g_call = gs[0].node
    if not (g_call.args and isinstance(g_call.args[0], ast.Name)):
        raise AnalysisError("minimize: index argument of get_geometry_step is not a plain variable")
    kvar = g_call.args[0].id
    g_node = cfg.node_containing(g_call)
    # the flag that guards the geometry step
    guards = [c for c in enclosing_context(gs[0].stmt, m.node) if c[0] == "if-true" and isinstance(c[1], ast.Name)]
    flag = guards[0][1].id if guards else None
    fresh_q = f"{TR}.get_index_to_remove"
    stale_q = {f"{TR}.set_best_index", "cobyqa.models:Models.update_interpolation", f"{TR}.increase_penalty", f"{TR}.decrease_penalty"}
    calls_at = {}
    for ev in ctx.events(m):
        if ev.kind == "call":
            nid = cfg.node_containing(ev.node)
            for t in ev.targets:
                if t.kind == "repo":
                    calls_at.setdefault(nid, set()).add(t.name)

    # a second flag: `if enhance_resolution:` guards decrease_penalty(); it is defined as
    # `.. and not improve_geometry`, so both flags are never true together
    eflag = None
    for node in ast.walk(m.node):
        if isinstance(node, ast.If) and isinstance(node.test, ast.Name) and node.test.id != flag:
            if any(isinstance(x, ast.Call) and isinstance(x.func, ast.Attribute) and x.func.attr in ("decrease_penalty", "enhance_resolution") for b in node.body for x in ast.walk(b)):
                eflag = node.test.id

    def transfer(node, state, label):
        out = set()
        for fresh, g, e in state:
            names = calls_at.get(node.id, set())
            if label != "exc":
                if names & stale_q:
                    fresh = False
                if node.kind == "stmt" and isinstance(node.ast, ast.Assign) and fresh_q in names and any(kvar in {x.id for x in ast.walk(t) if isinstance(x, ast.Name)} for t in node.ast.targets):
                    fresh = True
                if node.kind == "stmt" and isinstance(node.ast, (ast.Assign, ast.AugAssign)):
                    tg = node.ast.targets if isinstance(node.ast, ast.Assign) else [node.ast.target]
                    v = node.ast.value
                    if flag and any(isinstance(t, ast.Name) and t.id == flag for t in tg):
                        if isinstance(v, ast.Constant) and v.value is False:
                            g = "F"
                        else:
                            g = "?"
                            if e == "N":
                                e = "?"       # the relation to the other flag no longer holds
                    if eflag and any(isinstance(t, ast.Name) and t.id == eflag for t in tg):
                        if isinstance(v, ast.Constant) and v.value is False:
                            e = "F"
                        elif isinstance(v, ast.BoolOp) and isinstance(v.op, ast.And) and any(isinstance(x, ast.UnaryOp) and isinstance(x.op, ast.Not) and isinstance(x.operand, ast.Name) and x.operand.id == flag for x in v.values):
                            e = "N"
                        else:
                            e = "?"
                if node.kind == "test" and isinstance(node.ast, ast.If) and isinstance(node.ast.test, ast.Name):
                    if flag and node.ast.test.id == flag:
                        if label == "true" and g == "F":
                            continue      # infeasible: the flag is False on this path
                        if label == "false":
                            g = "F"
                    if eflag and node.ast.test.id == eflag:
                        if label == "true":
                            if e == "F":
                                continue
                            if e == "N":
                                g = "F"   # enhance_resolution implies not improve_geometry
                            e = "T"
                        if label == "false":
                            if e == "T":
                                continue
                            e = "F"
            out.add((fresh, g, e))
        return frozenset(out) if out else None

    states = cfg.solve_forward(frozenset({(False, "F", "F")}), transfer, lambda a, b: a | b)
    st = states.get(g_node)
    desc = f"minimize:{gs[0].line} get_geometry_step({kvar}, ..)"
    if st is None:
        raise AnalysisError("minimize: the geometry step is unreachable in the control-flow graph")
    if all(x[0] for x in st):
        rep.ok("R18.10", desc + f": `{kvar}` is recomputed by get_index_to_remove() after the last change of the set on every path")
    else:
        rep.bad("R18.10", desc)
        rep.finding("R18.10", m, f"get_geometry_step({kvar})", gs[0].line,
                    f"on some path `{kvar}` still holds the slot chosen before the last update of the interpolation set / best index (get_index_to_remove() is skipped there): "
                    "the slot can be the one of the new centre, so the geometry step replaces the centre of the trust region")


_old_run18 = run


def run(ctx, rep):  # noqa: F811
    _old_run18(ctx, rep)
    rep.rule("R18.10", "the index handed to the geometry step is recomputed after the last change of the set on every path (path-sensitive in the guarding flag)")
    r1810(ctx, rep)
