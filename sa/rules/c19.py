"""C19 - options and constants are validated and completed consistently.

R19.1 guard table: every documented restriction is enforced by an
      `if <member relation>: raise ValueError` guard with exactly the
      documented relation and bound, evaluated at the top level of its
      function (on every path on which the member is supplied) and before the
      member is used to derive a partner.
R19.2 code <=> message: the relation of each guard is the negation of the
      phrase of its own message (grammar of 7 phrases).
R19.3 definite keys: at the end of the completion functions every member is
      definitely stored on every path (must-analysis with branch refinement);
      derived partners of the 5 coupled pairs are min/max expressions oriented
      so that the pair relation holds (affine check).
R19.4 defaults: enum members = default-table keys = documented names; each
      default satisfies its own guards; documented default texts agree.
R19.5 unknown names only reach warnings.warn(.., RuntimeWarning, ..).
R19.6 the lower bound nb_points >= n + 1 is enforced by a ValueError.
"""
from __future__ import annotations

import ast
import math
import re
import sys

from ..astutil import norm, dotted, cmp_op_str, const_value, NEG, FLIP
from ..loader import AnalysisError
from ..affine import affine, NotAffine
from ..facts import exc_name
from .. import tables as T

OPT_FUNC = "cobyqa.main:_set_default_options"
CST_FUNC = "cobyqa.main:_set_default_constants"

INTERVAL01 = [("<=", 0.0), (">=", 1.0)]
# required guards: member -> list of (op, bound) meaning "raise if member op bound"
# (reason: documented domain in the docstring of minimize / property statement)
REQUIRED = {
    ("Options", "RHOBEG"): [("<=", 0.0)],            # radius_init positive
    ("Options", "RHOEND"): [("<", 0.0)],             # radius_final nonnegative
    ("Options", "NPT"): [("<=", 0.0), (">", "((n+1)*(n+2))//2")],  # 1..(n+1)(n+2)/2
    ("Options", "MAX_EVAL"): [("<=", 0.0)],          # maxfev positive
    ("Options", "MAX_ITER"): [("<=", 0.0)],          # maxiter positive
    ("Options", "HISTORY_SIZE"): [("<=", 0.0)],      # positive size
    ("Options", "FILTER_SIZE"): [("<=", 0.0)],       # positive size
    ("Constants", "DECREASE_RADIUS_FACTOR"): INTERVAL01,
    ("Constants", "INCREASE_RADIUS_THRESHOLD"): [("<=", 1.0)],
    ("Constants", "INCREASE_RADIUS_FACTOR"): [("<=", 1.0)],
    ("Constants", "DECREASE_RADIUS_THRESHOLD"): [("<=", 1.0)],
    ("Constants", "DECREASE_RESOLUTION_FACTOR"): INTERVAL01,
    ("Constants", "LARGE_RESOLUTION_THRESHOLD"): [("<=", 1.0)],
    ("Constants", "MODERATE_RESOLUTION_THRESHOLD"): [("<=", 1.0)],
    ("Constants", "LOW_RATIO"): INTERVAL01,
    ("Constants", "HIGH_RATIO"): INTERVAL01,
    ("Constants", "VERY_LOW_RATIO"): INTERVAL01,
    ("Constants", "PENALTY_INCREASE_THRESHOLD"): [("<", 1.0)],
    ("Constants", "PENALTY_INCREASE_FACTOR"): [("<=", 1.0)],
    ("Constants", "SHORT_STEP_THRESHOLD"): INTERVAL01,
    ("Constants", "LOW_RADIUS_FACTOR"): INTERVAL01,
    ("Constants", "BYRD_OMOJOKUN_FACTOR"): INTERVAL01,
    ("Constants", "THRESHOLD_RATIO_CONSTRAINTS"): [("<=", 1.0)],
    ("Constants", "LARGE_SHIFT_FACTOR"): [("<", 0.0)],
    ("Constants", "LARGE_GRADIENT_FACTOR"): [("<=", 1.0)],
    ("Constants", "RESOLUTION_FACTOR"): [("<=", 1.0)],
}
# coupled pairs: raise if A op B; completed settings must satisfy not(A op B)
PAIRS = [
    (("Options", "RHOBEG"), "<", ("Options", "RHOEND")),                       # radius_final <= radius_init
    (("Constants", "DECREASE_RADIUS_THRESHOLD"), ">=", ("Constants", "INCREASE_RADIUS_FACTOR")),  # threshold < factor
    (("Constants", "MODERATE_RESOLUTION_THRESHOLD"), ">", ("Constants", "LARGE_RESOLUTION_THRESHOLD")),
    (("Constants", "LOW_RATIO"), ">", ("Constants", "HIGH_RATIO")),
    (("Constants", "PENALTY_INCREASE_FACTOR"), "<", ("Constants", "PENALTY_INCREASE_THRESHOLD")),
]
# lower bound of the domain of a member when it is used to derive its partner
DOMAIN_LO = {
    "INCREASE_RADIUS_FACTOR": 1.0, "DECREASE_RADIUS_THRESHOLD": 1.0, "RHOBEG": 0.0, "RHOEND": 0.0,
    "LARGE_RESOLUTION_THRESHOLD": 1.0, "MODERATE_RESOLUTION_THRESHOLD": 1.0, "LOW_RATIO": 0.0, "HIGH_RATIO": 0.0,
    "PENALTY_INCREASE_THRESHOLD": 1.0, "PENALTY_INCREASE_FACTOR": 1.0,
}
EXEMPT = {"IMPROVE_TCG", "VERBOSE", "SCALE", "STORE_HISTORY", "DEBUG", "TARGET", "FEASIBILITY_TOL"}  # boolean / unrestricted in the documentation


def member_of(e):
    """Options.X / Constants.X / Options.X.value -> (enum, X)"""
    if isinstance(e, ast.Attribute) and e.attr == "value":
        e = e.value
    if isinstance(e, ast.Attribute) and isinstance(e.value, ast.Name) and e.value.id in ("Options", "Constants"):
        return (e.value.id, e.attr)
    return None


def sub_member(e, dnames):
    """D[Options.X] -> (enum, X)"""
    if isinstance(e, ast.Subscript) and isinstance(e.value, ast.Name) and e.value.id in dnames:
        return member_of(e.slice)
    return None


def bound_value(e):
    cv = const_value(e)
    if isinstance(cv, (int, float)) and not isinstance(cv, bool):
        return float(cv)
    return None


class Guard:
    def __init__(self, node, presence, comps, conn, message, nested_in):
        self.node = node
        self.presence = presence
        self.comps = comps      # [(lhs member, op, rhs)] rhs: float | member | text
        self.conn = conn
        self.message = message
        self.nested_in = nested_in

    def text(self):
        return " ".join(f"{m[1]} {op} {r if not isinstance(r, tuple) else r[1]}" for m, op, r in self.comps)


_EXPANDERS = {}


def set_expander(f, inl):
    _EXPANDERS["cur"] = inl


def parse_cond(test, dnames):
    """-> (presence set, comps list, connective) or None"""
    inl = _EXPANDERS.get("cur")
    if inl is not None and getattr(test, "_parent", "x") != "x" or (inl is not None and hasattr(test, "lineno")):
        try:
            test = inl.expand(test, test)
        except Exception:
            pass
    return _parse_cond(test, dnames)


def _parse_cond(test, dnames):
    presence = set()
    comps = []
    conn = None

    def comp_of(c):
        if isinstance(c, ast.Compare) and len(c.ops) == 1:
            op = cmp_op_str(c.ops[0])
            l, r = c.left, c.comparators[0]
            if op in ("in",):
                m = member_of(l)
                if m and isinstance(r, ast.Name) and r.id in dnames:
                    return ("presence", m)
                return None
            lm, rm = sub_member(l, dnames), sub_member(r, dnames)
            if lm and rm:
                # member-vs-member tests are kept in the orientation of the pair table
                if op in FLIP and any(a == rm and b == lm for a, _o, b in PAIRS):
                    return ("comp", (rm, FLIP[op], lm))
                return ("comp", (lm, op, rm))
            if lm:
                bv = bound_value(r)
                return ("comp", (lm, op, bv if bv is not None else norm(r).replace(" ", "")))
            if rm and op in FLIP:
                bv = bound_value(l)
                return ("comp", (rm, FLIP[op], bv if bv is not None else norm(l).replace(" ", "")))
        return None

    def walk(t, top=True):
        nonlocal conn
        if isinstance(t, ast.BoolOp):
            kind = "and" if isinstance(t.op, ast.And) else "or"
            parts = [comp_of(v) for v in t.values]
            if kind == "and":
                for v, p in zip(t.values, parts):
                    if p is None:
                        if isinstance(v, ast.BoolOp):
                            if not walk(v, False):
                                return False
                        else:
                            return False
                    elif p[0] == "presence":
                        presence.add(p[1])
                    else:
                        comps.append(p[1])
                        if sum(1 for q in parts if q and q[0] == "comp") > 1:
                            conn = "and"
                return True
            # or
            for v, p in zip(t.values, parts):
                if p is None or p[0] != "comp":
                    return False
                comps.append(p[1])
            conn = "or"
            return True
        p = comp_of(t)
        if p is None:
            return False
        if p[0] == "presence":
            presence.add(p[1])
        else:
            comps.append(p[1])
        return True

    if not walk(test):
        return None
    return presence, comps, conn


def raise_message(stmt):
    if isinstance(stmt, ast.Raise) and stmt.exc is not None and exc_name(stmt.exc) == "ValueError":
        if isinstance(stmt.exc, ast.Call) and stmt.exc.args:
            a = stmt.exc.args[0]
            if isinstance(a, ast.Constant) and isinstance(a.value, str):
                return a.value
            if isinstance(a, ast.JoinedStr):
                def piece(v):
                    if isinstance(v, ast.Constant):
                        return v.value
                    # {Constants.X.value}: the documented name of the member
                    fv = v.value if isinstance(v, ast.FormattedValue) else None
                    if isinstance(fv, ast.Attribute) and fv.attr == "value":
                        mm = member_of(fv.value)
                        ctx_ = _EXPANDERS.get("ctx")
                        if mm and ctx_ is not None:
                            try:
                                return enum_tables(ctx_)[mm[0]].get(mm[1], "{}")
                            except Exception:
                                return "{}"
                    return "{}"
                return "".join(piece(v) for v in a.values)
            return norm(a)
        return ""
    return None


def helper_key_effects(ctx, g):
    """(dict param, key param) pairs: the helper stores d[key] / d.setdefault(key)"""
    out = set()
    for node in ast.walk(g.node):
        d = k = None
        if isinstance(node, ast.Call) and isinstance(node.func, ast.Attribute) and node.func.attr == "setdefault" and isinstance(node.func.value, ast.Name) and node.args:
            d, k = node.func.value.id, node.args[0]
        if isinstance(node, ast.Assign):
            for t in node.targets:
                if isinstance(t, ast.Subscript) and isinstance(t.value, ast.Name):
                    d, k = t.value.id, t.slice
        if d is not None and d in g.params:
            if isinstance(k, ast.Attribute) and k.attr == "value":
                k = k.value
            if isinstance(k, ast.Name) and k.id in g.params:
                out.add((g.params.index(d), g.params.index(k.id)))
    return out


def call_completes(ctx, f, stmt, dnames):
    """members completed by a helper call statement"""
    out = set()
    if isinstance(stmt, ast.Expr) and isinstance(stmt.value, ast.Call):
        call = stmt.value
        for t in ctx.res.call_targets(call, f):
            if t.kind == "repo":
                for di, ki in helper_key_effects(ctx, t.func):
                    if di < len(call.args) and ki < len(call.args) and isinstance(call.args[di], ast.Name) and call.args[di].id in dnames:
                        mm = member_of(call.args[ki])
                        if mm:
                            out.add(mm)
    return out


def collect_guards(f, dnames):
    guards = []
    unknown = []

    def visit(body, nested_in, presence_ctx):
        for s in body:
            if isinstance(s, ast.If):
                msg = raise_message(s.body[0]) if s.body else None
                pc = parse_cond(s.test, dnames)
                if msg is not None:
                    if pc is None:
                        unknown.append(s)
                    else:
                        pres, comps, conn = pc
                        guards.append(Guard(s, pres | presence_ctx, comps, conn, msg, nested_in))
                    # orelse may contain elif chains
                    visit(s.orelse, nested_in, presence_ctx)
                else:
                    pres = pc[0] if pc and not pc[1] else set()
                    # `if K in options: if options[K] <= 0: raise` is the conjunction
                    # `K in options and options[K] <= 0`: a pure presence test does
                    # not count as nesting (the member is checked against it below)
                    visit(s.body, nested_in if pres else s, presence_ctx | pres)
                    visit(s.orelse, s, presence_ctx)
    visit(f.body(), None, set())
    return guards, unknown


def run(ctx, rep):
    rep.rule("R19.1", "required guard table (26 members, 5 pairs): each documented restriction has an `if rel: raise ValueError` guard with exactly that relation, at the top level of its function, before the member is used to derive a partner")
    rep.rule("R19.2", "the relation of each guard is the negation of the phrase in its message (7-phrase grammar) and constant messages name the constant")
    rep.rule("R19.3", "every member key is definitely stored at the end of the completion functions; derived partners are min/max expressions oriented so that the pair relation holds")
    rep.rule("R19.4", "enum members = default keys = documented names; defaults satisfy their guards; documented default texts agree")
    rep.rule("R19.5", "unknown option/constant names only reach warnings.warn(.., RuntimeWarning, ..)")
    rep.rule("R19.6", "nb_points >= n + 1 enforced by a ValueError reachable from minimize")
    fo = ctx.func(OPT_FUNC)
    fc = ctx.func(CST_FUNC)
    m = ctx.func(T.MINIMIZE)
    members = enum_tables(ctx)
    from ..inline import expander
    _EXPANDERS["ctx"] = ctx
    set_expander(fo, expander(ctx, fo, stop=("options", "constants", "kwargs")))
    go, uo = collect_guards(fo, {"options"})
    set_expander(fc, expander(ctx, fc, stop=("options", "constants", "kwargs")))
    gc, uc = collect_guards(fc, {"constants", "kwargs"})
    set_expander(m, expander(ctx, m, stop=("options", "constants", "kwargs")))
    gm, um = collect_guards(m, {"options"})
    _EXPANDERS.pop("cur", None)
    allg = [(fo, g) for g in go] + [(fc, g) for g in gc] + [(m, g) for g in gm]
    for f, s in [(fo, x) for x in uo] + [(fc, x) for x in uc]:
        raise AnalysisError(f"{f.local}:{s.lineno} guard condition `{norm(s.test)[:60]}` has a shape the extractor does not understand")
    if len(allg) < 30:
        raise AnalysisError(f"only {len(allg)} ValueError guards found (floor 30)")
    rep.analysed["guards"] = len(allg)
    r191(ctx, rep, allg, fo, fc, m)
    r192(ctx, rep, allg)
    r193(ctx, rep, fo, fc, members)
    r194(ctx, rep, members, allg, m)
    r195(ctx, rep, fo, fc)
    r196(ctx, rep)
    r197(ctx, rep, fo, m)
    r198(ctx, rep, fo, fc)
    r199(ctx, rep, m, members)
    rep.rule("R19.10", "the second completion of the radii (initial radius fitted to the bounds) keeps radius_final <= radius_init")
    from . import c18
    from ..report import Renamed
    c18.r182_fit(ctx, Renamed(rep, to="R19.10"), rule="R19.10")


def enum_tables(ctx):
    out = {}
    for en in ("Options", "Constants"):
        c = ctx.repo.cls(en)
        out[en] = {k: v.value for k, v in c.class_attrs.items() if isinstance(v, ast.Constant) and isinstance(v.value, str)}
        if len(out[en]) < 10:
            raise AnalysisError(f"enum {en} has only {len(out[en])} string members")
    return out


def _same_bound(a, b):
    if isinstance(a, float) and isinstance(b, float):
        return a == b
    if isinstance(a, str) and isinstance(b, str):
        return a.replace("(", "").replace(")", "") == b.replace("(", "").replace(")", "")
    return a == b


def r191(ctx, rep, allg, fo, fc, m):
    by_member = {}
    for f, g in allg:
        for (mem, op, rhs) in g.comps:
            by_member.setdefault(mem, []).append((f, g, op, rhs))
    for mem, reqs in REQUIRED.items():
        have = by_member.get(mem, [])
        for op, bound in reqs:
            desc = f"{mem[0]}.{mem[1]}: raise if value {op} {bound}"
            hit = [(f, g) for (f, g, o, r) in have if o == op and _same_bound(r, bound) and not isinstance(r, tuple)]
            if not hit:
                rep.bad("R19.1", desc)
                found = "; ".join(f"{o} {r}" for (_, _, o, r) in have if not isinstance(r, tuple)) or "none"
                f0 = have[0][0] if have else (fc if mem[0] == "Constants" else fo)
                line = have[0][1].node.lineno if have else f0.node.lineno
                rep.finding("R19.1", f0, f"guard {mem[1]} {op} {bound}", line,
                            f"the documented restriction on {mem[1]} (reject values {op} {bound}) is not enforced; guards found for this member: {found}")
                continue
            f, g = hit[0]
            probs = []
            if g.nested_in is not None:
                probs.append(f"the guard is nested under `{norm(g.nested_in.test)[:50]}` and is skipped on other paths")
            if len(reqs) == 2 and reqs is INTERVAL01 and g.conn != "or":
                probs.append("the two interval tests are not joined by `or`")
            if len(g.comps) == 1 and g.conn is not None:
                probs.append("unexpected connective")
            # supplied-only guards must test presence of the same member
            if g.presence and mem not in g.presence:
                probs.append(f"the guard is conditioned on the presence of {sorted(x[1] for x in g.presence)}, not of {mem[1]}")
            if not g.presence and not _is_completed_before(f, g, mem):
                probs.append("the member is read unconditionally before it has been completed with its default")
            if probs:
                rep.bad("R19.1", desc)
                rep.finding("R19.1", f, f"guard {mem[1]} {op} {bound}", g.node.lineno, "; ".join(probs))
            else:
                rep.ok("R19.1", desc + f" ({f.local}:{g.node.lineno})")
    # pairs
    for a, op, b in PAIRS:
        desc = f"pair: raise if {a[1]} {op} {b[1]}"
        hit = None
        for f, g in allg:
            for (mem, o, rhs) in g.comps:
                if isinstance(rhs, tuple):
                    if (mem, o, rhs) == (a, op, b) or (mem, o, rhs) == (b, FLIP[op], a):
                        hit = (f, g)
        if hit is None:
            found = [f"{mem[1]} {o} {rhs[1]}" for f, g in allg for (mem, o, rhs) in g.comps if isinstance(rhs, tuple) and {mem, rhs} == {a, b}]
            rep.bad("R19.1", desc)
            f0 = fc if a[0] == "Constants" else fo
            rep.finding("R19.1", f0, f"pair guard {a[1]} {op} {b[1]}", f0.node.lineno,
                        f"the documented order relation between {a[1]} and {b[1]} is not enforced when both are supplied (found: {found or 'none'})")
            continue
        f, g = hit
        if not ({a, b} <= g.presence):
            rep.bad("R19.1", desc)
            rep.finding("R19.1", f, f"pair guard {a[1]} {op} {b[1]}", g.node.lineno, "the pair guard is not conditioned on both members being supplied")
        else:
            rep.ok("R19.1", desc + f" ({f.local}:{g.node.lineno})")
    # single-member guards precede the coupling chains (value validated before
    # it is used to derive the partner)
    for f in (fo, fc):
        from ..inline import expander as _exp2
        set_expander(f, _exp2(ctx, f, stop=("options", "constants", "kwargs")))
        body = f.body()
        pos = {id(s): i for i, s in enumerate(body)}
        for a, op, b in PAIRS:
            chain = None
            for s in body:
                if isinstance(s, ast.If):
                    pc = parse_cond(s.test, {"options", "constants", "kwargs"})
                    if pc and {a, b} <= pc[0] and not pc[1]:
                        chain = s
            if chain is None:
                continue
            for mem in (a, b):
                for f2, g in allg:
                    if f2 is not f or g.nested_in is not None:
                        continue
                    if any(mm == mem and not isinstance(r, tuple) for (mm, o, r) in g.comps):
                        if pos.get(id(g.node), -1) > pos[id(chain)]:
                            rep.bad("R19.1", f"{mem[1]} validated before coupling")
                            rep.finding("R19.1", f, f"guard of {mem[1]} after the coupling chain", g.node.lineno,
                                        f"{mem[1]} is used to derive its partner before its own domain is checked")
                        else:
                            rep.ok("R19.1", f"{f.local}: {mem[1]} is validated before it is coupled with its partner")


def _is_completed_before(f, g, mem):
    """A guard that reads D[member] unconditionally must be preceded by a
    setdefault / store of that member."""
    ctx = _EXPANDERS.get("ctx")
    for s in f.body():
        if s is g.node:
            return False
        if ctx is not None and mem in call_completes(ctx, f, s, {"options", "constants", "kwargs"}):
            return True
        for node in ast.walk(s):
            if isinstance(node, ast.Call) and isinstance(node.func, ast.Attribute) and node.func.attr == "setdefault" and node.args and member_of(node.args[0]) == mem:
                return True
            if isinstance(node, ast.Assign):
                for t in node.targets:
                    if isinstance(t, ast.Subscript) and member_of(t.slice) == mem:
                        return True
    return False


# ---------------------------------------------------------------------------
PHRASES = [
    (re.compile(r"must be positive"), [("<=", 0.0)]),
    (re.compile(r"must be nonnegative"), [("<", 0.0)]),
    (re.compile(r"must be in the interval \((-?[\d.]+), (-?[\d.]+)\)"), "interval"),
    (re.compile(r"must be greater than or equal to (.+?)\.?$"), ("<",)),
    (re.compile(r"must be greater than (.+?)\.?$"), ("<=",)),
    (re.compile(r"must be less than (.+?)\.?$"), (">=",)),
    (re.compile(r"must be at most (.+?)\.?$"), (">",)),
]


def r192(ctx, rep, allg):
    members = enum_tables(ctx)
    for f, g in allg:
        msg = " ".join(g.message.split())
        desc = f"{f.local}:{g.node.lineno} `{g.text()}` vs message '{msg[:70]}'"
        want = None
        for pat, spec in PHRASES:
            mm = pat.search(msg)
            if not mm:
                continue
            if spec == "interval":
                want = [("<=", float(mm.group(1))), (">=", float(mm.group(2)))]
            elif isinstance(spec, list):
                want = spec
            else:
                want = [(spec[0], mm.group(1).strip())]
            break
        if want is None:
            raise AnalysisError(f"{f.local}:{g.node.lineno} message '{msg[:60]}' uses a phrase outside the grammar")
        got = [(op, rhs) for (_, op, rhs) in g.comps]
        ok = len(got) == len(want)
        if ok:
            for (op, rhs), (wop, wb) in zip(got, want):
                if op != wop:
                    ok = False
                elif isinstance(wb, float):
                    ok = ok and isinstance(rhs, float) and rhs == wb
                else:
                    # named bound: a number, a member name, or a formula placeholder
                    try:
                        wnum = float(wb)
                    except ValueError:
                        wnum = None
                    if wnum is not None:
                        ok = ok and isinstance(rhs, float) and rhs == wnum
                    else:
                        if isinstance(rhs, tuple):
                            en, name = rhs
                            val = members[en].get(name, "")
                            ok = ok and (val in wb or _descr(name) in wb.lower())
                        else:
                            ok = ok and isinstance(rhs, str)
        # the constant's own name appears in the message
        lhs = g.comps[0][0]
        if ok and lhs[0] == "Constants":
            ok = members["Constants"].get(lhs[1], "?") in msg
        if ok:
            rep.ok("R19.2", desc)
        else:
            rep.bad("R19.2", desc)
            rep.finding("R19.2", f, f"{g.text()} / {msg[:80]}", g.node.lineno,
                        f"the guard `{g.text()}` does not reject exactly what its message states ('{msg[:90]}')")


def _descr(name):
    return {"RHOEND": "final trust-region radius", "RHOBEG": "initial trust-region radius"}.get(name, name.lower())


# ---------------------------------------------------------------------------
def r193(ctx, rep, fo, fc, members):
    for f, en, dname in ((fo, "Options", "options"), (fc, "Constants", "constants")):
        cfg = ctx.cfg(f)
        dn = {dname, "kwargs"} if en == "Constants" else {dname}
        from ..inline import expander as _exp
        set_expander(f, _exp(ctx, f, stop=("options", "constants", "kwargs")))

        def keys_set(node):
            out = set()
            s = node.ast
            if node.kind == "stmt":
                out |= call_completes(ctx, f, s, dn)
                for sub in ast.walk(s):
                    if isinstance(sub, ast.Call) and isinstance(sub.func, ast.Attribute) and sub.func.attr == "setdefault" and isinstance(sub.func.value, ast.Name) and sub.func.value.id in dn and sub.args:
                        mm = member_of(sub.args[0])
                        if mm:
                            out.add(mm)
                if isinstance(s, ast.Assign):
                    for t in s.targets:
                        if isinstance(t, ast.Subscript) and isinstance(t.value, ast.Name) and t.value.id in dn:
                            mm = member_of(t.slice)
                            if mm:
                                out.add(mm)
            return out

        def transfer(node, state, label):
            if node.kind == "test":
                pc = parse_cond(node.ast.test, dn)
                if pc and label == "true" and not (isinstance(node.ast.test, ast.BoolOp) and isinstance(node.ast.test.op, ast.Or)):
                    return state | frozenset(pc[0])
                return state
            ks = keys_set(node)
            if ks:
                return state | frozenset(ks)
            return state

        states = cfg.solve_forward(frozenset(), transfer, lambda a, b: a & b)
        # state at the normal exit: join over predecessors
        final = None
        for a, l in cfg.pred[cfg.exit]:
            if a not in states:
                continue
            out = transfer(cfg.nodes[a], states[a], l)
            final = out if final is None else (final & out)
        final = final or frozenset()
        for name in members[en]:
            desc = f"{f.local}: key {name} definitely stored at exit"
            if (en, name) in final:
                rep.ok("R19.3", desc)
            else:
                rep.bad("R19.3", desc)
                rep.finding("R19.3", f, f"key {name}", f.node.lineno,
                            f"on some path the completed {dname} lacks `{members[en][name]}` (a later `{dname}[{name}]` raises KeyError or an undocumented default applies)")
    # derived partners
    for a, op, b in PAIRS:
        f = fo if a[0] == "Options" else fc
        from ..inline import expander as _exp3
        set_expander(f, _exp3(ctx, f, stop=("options", "constants", "kwargs")))
        dn = {"options"} if a[0] == "Options" else {"constants", "kwargs"}
        chain = None
        for s in f.body():
            if isinstance(s, ast.If):
                pc = parse_cond(s.test, dn)
                if pc and {a, b} <= pc[0] and not pc[1]:
                    chain = s
        if chain is None:
            rep.bad("R19.3", f"pair chain {a[1]}/{b[1]}")
            rep.finding("R19.3", f, f"pair {a[1]}/{b[1]}", f.node.lineno, "the four-way completion (both / only one / none supplied) of this coupled pair was not found")
            continue
        # walk the elif chain
        branches = []
        cur = chain
        while True:
            pc = parse_cond(cur.test, dn)
            branches.append((pc[0] if pc else None, cur.body))
            if len(cur.orelse) == 1 and isinstance(cur.orelse[0], ast.If):
                cur = cur.orelse[0]
                continue
            branches.append(("else", cur.orelse))
            break
        kinds = {}
        for pres, body in branches:
            if pres == "else":
                kinds["none"] = body
            elif pres is not None and {a, b} <= pres:
                kinds["both"] = body
            elif pres == {a}:
                kinds["onlyA"] = body
            elif pres == {b}:
                kinds["onlyB"] = body
        for k in ("both", "onlyA", "onlyB", "none"):
            if k not in kinds or (k != "both" and not kinds[k]):
                rep.bad("R19.3", f"pair {a[1]}/{b[1]} case {k}")
                rep.finding("R19.3", f, f"pair {a[1]}/{b[1]}: case {k}", chain.lineno, f"the case `{k}` of the coupled pair ({a[1]}, {b[1]}) is not handled")
        for k, supplied, derived in (("onlyA", a, b), ("onlyB", b, a)):
            body = kinds.get(k)
            if not body:
                continue
            ok, why = _derived_ok(body, supplied, derived, a, op, b, dn)
            desc = f"{f.local}: only {supplied[1]} supplied -> {derived[1]} derived"
            if ok:
                rep.ok("R19.3", desc + f" ({why})")
            else:
                rep.bad("R19.3", desc)
                rep.finding("R19.3", f, f"derive {derived[1]} from {supplied[1]}", body[0].lineno,
                            f"when only {supplied[1]} is supplied the derived {derived[1]} does not guarantee the documented relation ({why})")
        # the 'none' branch takes both defaults
        body = kinds.get("none") or []
        got = set()
        for s in body:
            if isinstance(s, ast.Assign):
                for t in s.targets:
                    if isinstance(t, ast.Subscript) and member_of(t.slice) in (a, b):
                        v = s.value
                        if isinstance(v, ast.Subscript) and isinstance(v.value, ast.Name) and v.value.id.startswith("DEFAULT_") and member_of(v.slice) == member_of(t.slice):
                            got.add(member_of(t.slice))
        if got == {a, b}:
            rep.ok("R19.3", f"{f.local}: neither {a[1]} nor {b[1]} supplied -> both defaults")
        else:
            rep.bad("R19.3", f"pair {a[1]}/{b[1]} defaults")
            rep.finding("R19.3", f, f"pair {a[1]}/{b[1]}: defaults", chain.lineno, "when neither member is supplied both must take their documented defaults")


def _derived_ok(body, supplied, derived, a, op, b, dn):
    """derived = min/max([DEFAULT[derived], e(supplied)]) oriented so that
    not(a op b) holds."""
    st = None
    for s in body:
        if isinstance(s, ast.Assign) and any(isinstance(t, ast.Subscript) and member_of(t.slice) == derived for t in s.targets):
            st = s
    if st is None:
        return False, f"{derived[1]} is not assigned"
    v = st.value
    fn = (dotted(v.func) or "").split(".")[-1] if isinstance(v, ast.Call) else None
    if fn not in ("min", "max", "minimum", "maximum"):
        return False, f"`{norm(v)[:50]}` is not a min/max of the default and a bound derived from {supplied[1]}"
    ops = v.args[0].elts if len(v.args) == 1 and isinstance(v.args[0], (ast.List, ast.Tuple)) else v.args
    dflt = [o for o in ops if isinstance(o, ast.Subscript) and isinstance(o.value, ast.Name) and o.value.id.startswith("DEFAULT_") and member_of(o.slice) == derived]
    other = [o for o in ops if o not in dflt]
    if len(dflt) != 1 or len(other) != 1:
        return False, f"`{norm(v)[:50]}` does not combine the documented default of {derived[1]} with a bound derived from {supplied[1]}"
    e = other[0]
    # required: relation between derived (D) and supplied (S)
    # not(a op b): with NEG
    rel = NEG[op]           # a rel b must hold
    if derived == a:
        need = rel          # D rel S
    else:
        need = FLIP[rel]    # D (flip rel) S
    want_fn = "min" if need in ("<", "<=") else "max"
    if not fn.startswith(want_fn):
        return False, f"{derived[1]} must be {'at most' if want_fn == 'min' else 'at least'} a bound derived from {supplied[1]} but `{fn}` is used"
    try:
        co = affine(e, lambda n: "S" if sub_member(n, dn) == supplied else None)
    except NotAffine as exc:
        return False, f"bound `{norm(e)}` is not affine in {supplied[1]} ({exc})"
    if set(co) - {"S", ""}:
        return False, f"bound `{norm(e)}` depends on something else than {supplied[1]}"
    al, be = co.get("S", 0.0), co.get("", 0.0)
    lo = DOMAIN_LO.get(supplied[1])
    # e(S) need S for all S > lo (or >= lo):  (al-1) S + be  need 0
    strict = need in ("<", ">")
    sgn = -1.0 if need in ("<", "<=") else 1.0   # want sgn*((al-1) S + be) >(=) 0
    slope = sgn * (al - 1.0)
    at_lo = sgn * ((al - 1.0) * (lo if lo is not None else 0.0) + be)
    if lo is None:
        ok = slope == 0 and (at_lo > 0 if strict else at_lo >= 0)
    else:
        # on the open/closed half line S > lo: slope >= 0 and value at lo >= 0
        # (strict: either slope > 0 with value >= 0 at the excluded endpoint, or value > 0)
        ok = slope >= 0 and at_lo >= 0 and (not strict or slope > 0 or at_lo > 0)
    # the derived value must also lie in its own documented domain (nothing re-validates it)
    lo_d = DOMAIN_LO.get(derived[1])
    if ok and want_fn == "min" and lo_d is not None and lo is not None:
        # min(default, al*S + be) > lo_d for every S > lo  <=>  al >= 0 and al*lo + be >= lo_d
        if not (al >= 0 and al * lo + be >= lo_d):
            return False, f"`{norm(e)}` can fall to or below {lo_d}, the lower end of the documented domain of {derived[1]}, for an admissible {supplied[1]}"
    if ok:
        return True, f"{derived[1]} = {fn}(default, {norm(e)}) {need} {supplied[1]} on its domain"
    return False, f"`{norm(e)}` is not {need} {supplied[1]} for every admissible {supplied[1]}"


# ---------------------------------------------------------------------------
def fold(e, n=3):
    """Constant folding of default expressions (numbers, np.sqrt, np.finfo
    eps, sys.maxsize, np.inf, lambda n: ...)."""
    if isinstance(e, ast.Lambda):
        return fold(e.body, n)
    if isinstance(e, ast.Constant):
        return e.value
    if isinstance(e, ast.Name):
        if e.id == "n":
            return n
        raise ValueError(e.id)
    if isinstance(e, ast.UnaryOp) and isinstance(e.op, ast.USub):
        return -fold(e.operand, n)
    if isinstance(e, ast.BinOp):
        a, b = fold(e.left, n), fold(e.right, n)
        if isinstance(e.op, ast.Add):
            return a + b
        if isinstance(e.op, ast.Sub):
            return a - b
        if isinstance(e.op, ast.Mult):
            return a * b
        if isinstance(e.op, ast.Div):
            return a / b
        if isinstance(e.op, ast.Pow):
            return a ** b
        if isinstance(e.op, ast.FloorDiv):
            return a // b
    if isinstance(e, ast.Attribute):
        d = dotted(e) or ""
        if d.endswith(".inf"):
            return math.inf
        if d == "sys.maxsize":
            return sys.maxsize
        if d.endswith("finfo(float).eps"):
            return sys.float_info.epsilon
        if isinstance(e.value, ast.Call) and (dotted(e.value.func) or "").endswith("finfo") and e.attr == "eps":
            return sys.float_info.epsilon
    if isinstance(e, ast.Call):
        d = (dotted(e.func) or "").split(".")[-1]
        if d == "sqrt":
            return math.sqrt(fold(e.args[0], n))
        if d in ("float", "int"):
            return fold(e.args[0], n)
    raise ValueError(norm(e))


def r194(ctx, rep, members, allg, m):
    smod = ctx.repo.modules.get("cobyqa.settings")
    if smod is None:
        raise AnalysisError("cobyqa.settings not found")
    tables = {}
    for en, tname in (("Options", "DEFAULT_OPTIONS"), ("Constants", "DEFAULT_CONSTANTS")):
        d = smod.globals.get(tname)
        if not isinstance(d, ast.Dict):
            raise AnalysisError(f"{tname} is not a dict literal")
        tab = {}
        for k, v in zip(d.keys, d.values):
            mm = member_of(k)
            if mm is None or mm[0] != en:
                raise AnalysisError(f"{tname}: key `{norm(k)}` is not a member of {en}")
            tab[mm[1]] = v
        tables[en] = tab
        for name in members[en]:
            if name in tab:
                rep.ok("R19.4", f"{tname} has a default for {name}")
            else:
                rep.bad("R19.4", f"{tname}[{name}]")
                rep.finding("R19.4", "settings", f"{tname} lacks {name}", d.lineno, f"no documented default for {en}.{name}", file=smod.relpath)
        for name in tab:
            if name not in members[en]:
                rep.bad("R19.4", f"{tname} extra {name}")
                rep.finding("R19.4", "settings", f"{tname} has {name}", d.lineno, f"default for a non-member {name}", file=smod.relpath)
    # defaults satisfy their guards
    for (en, name), reqs in REQUIRED.items():
        v = tables[en].get(name)
        if v is None:
            continue
        try:
            val = fold(v)
        except (ValueError, TypeError, ZeroDivisionError):
            raise AnalysisError(f"default of {name} (`{norm(v)}`) cannot be folded")
        for op, bound in reqs:
            if not isinstance(bound, float):
                b = (3 + 1) * (3 + 2) // 2
            else:
                b = bound
            viol = {"<=": val <= b, "<": val < b, ">=": val >= b, ">": val > b}[op]
            desc = f"default {name} = {val!r} passes `raise if {op} {bound}`"
            if viol:
                rep.bad("R19.4", desc)
                rep.finding("R19.4", "settings", f"default {name} = {norm(v)}", v.lineno, f"the default of {name} ({val!r}) is rejected by its own validation (value {op} {bound})", file=smod.relpath)
            else:
                rep.ok("R19.4", desc)
    for a, op, b in PAIRS:
        va, vb = fold(tables[a[0]][a[1]]), fold(tables[b[0]][b[1]])
        viol = {"<=": va <= vb, "<": va < vb, ">=": va >= vb, ">": va > vb}[op]
        desc = f"defaults satisfy not({a[1]} {op} {b[1]}): {va!r}, {vb!r}"
        if viol:
            rep.bad("R19.4", desc)
            rep.finding("R19.4", "settings", f"defaults {a[1]}/{b[1]}", tables[a[0]][a[1]].lineno, f"the defaults of {a[1]} and {b[1]} violate their documented order relation", file=smod.relpath)
        else:
            rep.ok("R19.4", desc)
    # documented names and default texts
    doc = m.docstring()
    for en in ("Options", "Constants"):
        for name, key in members[en].items():
            mm = re.search(r"^\s*" + re.escape(key) + r"\s*:\s*[^\n]*\n((?:\s+[^\n]*\n)+?)(?=\s*\w+ : |\s*$|\n)", doc, re.M)
            blk = re.search(r"^\s*" + re.escape(key) + r" : [^\n]*\n(.*?)(?=^\s*\w+ : |\Z)", doc, re.M | re.S)
            if not blk:
                rep.bad("R19.4", f"doc entry {key}")
                rep.finding("R19.4", m, f"docstring lacks {key}", m.node.lineno, f"{en}.{name} (`{key}`) is not documented in the docstring of minimize")
                continue
            text = " ".join(blk.group(1).split())
            dm = re.search(r"Default is\s+``([^`]+)``", text)
            if not dm:
                rep.bad("R19.4", f"doc default {key}")
                rep.finding("R19.4", m, f"docstring default of {key}", m.node.lineno, f"the documentation of `{key}` states no default")
                continue
            docdef = dm.group(1)
            code = norm(tables[en][name]) if name in tables[en] else "?"
            if _norm_default(docdef) == _norm_default(code):
                rep.ok("R19.4", f"documented default of {key}: {docdef}")
            else:
                rep.bad("R19.4", f"documented default of {key}")
                rep.finding("R19.4", "settings", f"default {name}: {code}", tables[en][name].lineno if name in tables[en] else 0,
                            f"the default of `{key}` is `{code}` but the documentation says `{docdef}`", file=smod.relpath)


def _norm_default(s):
    s = s.replace("lambda n:", "").replace("numpy.", "np.").replace(" ", "")
    try:
        return repr(float(s))
    except ValueError:
        return s


# ---------------------------------------------------------------------------
def r195(ctx, rep, fo, fc):
    for f, en in ((fo, "Options"), (fc, "Constants")):
        found = False
        from ..inline import expander as _exp5
        inl5 = _exp5(ctx, f, stop=("options", "constants", "kwargs"))
        for node in ast.walk(f.node):
            if isinstance(node, ast.If) and isinstance(node.test, ast.Compare) and len(node.test.ops) == 1 and isinstance(node.test.ops[0], ast.NotIn) and en in norm(inl5.expand(node.test.comparators[0], node)) and "__members__" in norm(inl5.expand(node.test.comparators[0], node)):
                found = True
                body_ok = True
                for s in node.body:
                    if not (isinstance(s, ast.Expr) and isinstance(s.value, ast.Call) and (dotted(s.value.func) or "").endswith("warn")):
                        body_ok = False
                    else:
                        cat = s.value.args[1] if len(s.value.args) > 1 else None
                        for kw in s.value.keywords:
                            if kw.arg == "category":
                                cat = kw.value
                        if not (isinstance(cat, ast.Name) and cat.id == "RuntimeWarning"):
                            body_ok = False
                loops = [a for a in _anc(node) if isinstance(a, ast.For)]
                iter_ok = bool(loops) and isinstance(loops[0].iter, ast.Name)
                desc = f"{f.local}:{node.lineno} unknown {en.lower()} only warn (RuntimeWarning)"
                if body_ok and iter_ok:
                    rep.ok("R19.5", desc)
                else:
                    rep.bad("R19.5", desc)
                    rep.finding("R19.5", f, norm(node)[:120], node.lineno, f"an unknown {en.lower()[:-1]} name must only produce a RuntimeWarning (no raise, no store)")
        if not found:
            rep.bad("R19.5", f"{f.local} unknown-name check")
            rep.finding("R19.5", f, "unknown-name loop", f.node.lineno, f"unknown {en.lower()} names are no longer reported by a RuntimeWarning")


def _anc(node):
    p = getattr(node, "_parent", None)
    while p is not None:
        yield p
        p = getattr(p, "_parent", None)


def r196(ctx, rep):
    q = ctx.func("cobyqa.models:Quadratic.__init__")
    found = False
    for node in ast.walk(q.node):
        if isinstance(node, ast.If) and node.body and raise_message(node.body[0]) is not None:
            t = node.test
            if isinstance(t, ast.Compare) and len(t.ops) == 1:
                l, op, r = t.left, cmp_op_str(t.ops[0]), t.comparators[0]
                if "npt" in norm(l) and "n" in norm(r):
                    found = True
                    good = (op == "<" and norm(r).replace(" ", "").endswith("n+1")) or (op == "<=" and norm(r).replace(" ", "").endswith(".n"))
                    if good:
                        rep.ok("R19.6", f"{q.local}:{node.lineno} raise ValueError if npt < n + 1")
                    else:
                        rep.bad("R19.6", "npt lower bound")
                        rep.finding("R19.6", q, norm(t), node.lineno, "the lower bound on the number of interpolation points is not `npt < n + 1 -> ValueError`")
    if not found:
        rep.bad("R19.6", "npt lower bound")
        rep.finding("R19.6", q, "no guard npt < n + 1", q.node.lineno, "nb_points below n + 1 is no longer rejected with a ValueError")
    from . import common
    reach = common.reachable_funcs(ctx, live=ctx.facts.live)
    if q.qual in reach:
        rep.ok("R19.6", "the guard is reachable from minimize")
    else:
        rep.bad("R19.6", "reachability")
        rep.finding("R19.6", q, "Quadratic.__init__ unreachable", q.node.lineno, "the nb_points lower-bound check is not reachable from minimize")


def r197(ctx, rep, fo, m):
    """the completion works on a private copy of the caller's dict, with the
    dimension of the reduced problem"""
    rep.rule("R19.7", "options are completed in a private copy (so completed entries never come back as user-supplied) and validated/defaulted with the dimension of the reduced problem (pb.n)")
    from ..ownership import Ownership
    own = Ownership(ctx)
    k = 0
    for ev in ctx.events(m):
        if ev.kind == "call" and any(t.kind == "repo" and t.name == fo.qual for t in ev.targets):
            k += 1
            a0 = ev.node.args[0] if ev.node.args else None
            a1 = ev.node.args[1] if len(ev.node.args) > 1 else None
            hit = own.expr_tainted(m, a0, at=a0) if a0 is not None else ["?"]
            if hit:
                rep.bad("R19.7", f"minimize:{ev.line} options copy")
                rep.finding("R19.7", m, ev.text()[:80], ev.line,
                            "the caller's options dict itself is completed: after one call it contains nb_points/maxfev/maxiter/... of that problem, which a second call takes for user-supplied values (wrong defaults, spurious ValueError)")
            else:
                rep.ok("R19.7", f"minimize:{ev.line} the completed dict is a private copy")
            good = isinstance(a1, ast.Attribute) and a1.attr == "n" and any(x == ("inst", "Problem") for x in ctx.type_of(a1.value, m))
            if good:
                rep.ok("R19.7", f"minimize:{ev.line} dimension argument is pb.n (reduced problem)")
            else:
                rep.bad("R19.7", f"minimize:{ev.line} dimension argument")
                rep.finding("R19.7", m, ev.text()[:80], ev.line,
                            f"nb_points is validated against (n+1)(n+2)/2 and the n-dependent defaults are computed with `{norm(a1) if a1 is not None else '?'}` instead of the dimension of the reduced problem (pb.n): with fixed variables too many points are accepted and the defaults are wrong")
    if k < 1:
        raise AnalysisError("call of _set_default_options in minimize not found")


def r198(ctx, rep, fo, fc):
    """supplied values are preserved: a member is (re)assigned only as a type
    coercion of itself, under a branch in which it is known to be absent, or
    through setdefault"""
    rep.rule("R19.8", "a supplied option/constant is never overwritten: stores are `D[K] = type(D[K])`, or lie in a branch where K is not supplied; defaults go through setdefault")
    for f, dn in ((fo, {"options"}), (fc, {"constants", "kwargs"})):
        cfg = ctx.cfg(f)
        from ..inline import expander as _exp4
        set_expander(f, _exp4(ctx, f, stop=("options", "constants", "kwargs")))

        def present_transfer(node, state, label):
            if node.kind == "test":
                pc = parse_cond(node.ast.test, dn)
                if pc and not pc[1] and not (isinstance(node.ast.test, ast.BoolOp) and isinstance(node.ast.test.op, ast.Or)):
                    if label == "true":
                        return state | frozenset(("in", m_) for m_ in pc[0])
                    if label == "false" and len(pc[0]) == 1:
                        return state | frozenset(("out", m_) for m_ in pc[0])
            return state
        states = cfg.solve_forward(frozenset(), present_transfer, lambda a, b: a & b)
        n = 0
        for node in cfg.nodes:
            if node.kind != "stmt" or not isinstance(node.ast, ast.Assign):
                continue
            for t in node.ast.targets:
                if isinstance(t, ast.Subscript) and isinstance(t.value, ast.Name) and t.value.id in dn:
                    mem = member_of(t.slice)
                    if mem is None:
                        continue
                    n += 1
                    v = node.ast.value
                    st = states.get(node.id, frozenset())
                    desc = f"{f.local}:{node.line} {mem[1]} = {norm(v)[:50]}"
                    coercion = isinstance(v, ast.Call) and isinstance(v.func, ast.Name) and v.func.id in ("float", "int", "bool") and len(v.args) == 1 and sub_member(v.args[0], dn) == mem
                    absent = ("out", mem) in st
                    # in the elif chains of the coupled pairs: `elif A in D:` after
                    # `if A in D and B in D` means B is absent
                    if not absent:
                        for kind, what, ifn in _ctxs(node.ast, f.node):
                            if kind == "if-false":
                                pc = parse_cond(what, dn)
                                if pc and not pc[1] and mem in pc[0]:
                                    others = pc[0] - {mem}
                                    if all(("in", o) in st for o in others):
                                        absent = True
                    if coercion or absent:
                        rep.ok("R19.8", desc + (" (coercion)" if coercion else " (member not supplied here)"))
                    else:
                        rep.bad("R19.8", desc)
                        rep.finding("R19.8", f, norm(node.ast)[:120], node.line,
                                    f"`{mem[1]}` is overwritten although it may have been supplied by the caller: the run would use another value than the one asked for (e.g. a small maxfev silently raised)")
        if n < 10:
            raise AnalysisError(f"{f.local}: only {n} member stores found")


def _ctxs(node, fnode):
    from .c07 import enclosing_context
    return enclosing_context(node, fnode)


def r199(ctx, rep, m, members, rule="R19.9"):
    """every early read of an option in minimize uses one key consistently and
    the local named like an option holds that option"""
    rep.rule(rule, "`name = conv(options.get(Options.K, DEFAULT_OPTIONS[Options.K]))`: one key K in both places, and a local named like an option value is read from that option")
    vals = {v: k for k, v in members["Options"].items()}
    n = 0
    for node in ast.walk(m.node):
        if not (isinstance(node, ast.Assign) and len(node.targets) == 1 and isinstance(node.targets[0], ast.Name)):
            continue
        keys = []
        for sub in ast.walk(node.value):
            if isinstance(sub, ast.Call) and isinstance(sub.func, ast.Attribute) and sub.func.attr == "get" and isinstance(sub.func.value, ast.Name) and sub.func.value.id == "options" and sub.args:
                k1 = member_of(sub.args[0])
                k2 = None
                if len(sub.args) > 1:
                    for s2 in ast.walk(sub.args[1]):
                        if isinstance(s2, ast.Subscript) and isinstance(s2.value, ast.Name) and s2.value.id.startswith("DEFAULT_"):
                            k2 = member_of(s2.slice)
                keys.append((k1, k2, sub))
            if isinstance(sub, ast.Subscript) and isinstance(sub.value, ast.Name) and sub.value.id == "options" and member_of(sub.slice):
                keys.append((member_of(sub.slice), None, sub))
        if not keys:
            continue
        name = node.targets[0].id
        for k1, k2, sub in keys:
            if k1 is None:
                continue
            n += 1
            desc = f"minimize:{node.lineno} {name} <- options[{k1[1]}]"
            probs = []
            if k2 is not None and k2 != k1:
                probs.append(f"the value is read with key {k1[1]} but defaults to the default of {k2[1]}")
            if name in vals and vals[name] != k1[1]:
                probs.append(f"the local `{name}` (the option `{name}`) is read from the option `{members['Options'][k1[1]]}`")
            if name == "verbose" and k1[1] != "VERBOSE":
                probs.append("`verbose` is not read from the option disp")
            if probs:
                rep.bad(rule, desc)
                rep.finding(rule, m, norm(node)[:140], node.lineno, "; ".join(probs) + ": the supplied value of one option is validated and completed but another one is used")
            else:
                rep.ok(rule, desc)
    if n < 6:
        raise AnalysisError(f"minimize: only {n} early option reads found (floor 6)")
    # the key of an option / constant look-up is the member (a str-Enum equal to
    # its value) or its .value - never its .name (the upper-case identifier)
    n2 = 0
    for f in ctx.repo.funcs.values():
        for node in ast.walk(f.node):
            key = None
            if isinstance(node, ast.Subscript) and isinstance(node.value, ast.Name) and node.value.id in ("options", "constants", "kwargs", "DEFAULT_OPTIONS", "DEFAULT_CONSTANTS"):
                key = node.slice
            elif isinstance(node, ast.Call) and isinstance(node.func, ast.Attribute) and node.func.attr in ("get", "setdefault", "pop") and isinstance(node.func.value, ast.Name) \
                    and node.func.value.id in ("options", "constants", "kwargs") and node.args:
                key = node.args[0]
            elif isinstance(node, ast.Compare) and len(node.ops) == 1 and isinstance(node.ops[0], (ast.In, ast.NotIn)) and isinstance(node.comparators[0], ast.Name) \
                    and node.comparators[0].id in ("options", "constants", "kwargs"):
                key = node.left
            if key is None:
                continue
            if isinstance(key, ast.Attribute) and key.attr == "name" and member_of(key.value):
                n2 += 1
                rep.bad(rule, f"{f.local}:{node.lineno} key `{norm(key)}`")
                rep.finding(rule, f, norm(node)[:120], node.lineno,
                            f"the look-up uses `{norm(key)}` (the upper-case member name) as key: the user's `{members.get(member_of(key.value)[0], {}).get(member_of(key.value)[1], '?')}` is never found, the default is used here while other places use the supplied value")
            elif member_of(key):
                n2 += 1
    rep.ok(rule, f"{n2} option/constant look-ups use the member or its value as key")


# ---------------------------------------------------------------------------
def r1911(ctx, rep, rule="R19.11"):
    """both completion / validation functions run before minimize can return:
    every return of minimize (the early exits included) is dominated by the
    calls of _set_default_options and _set_default_constants"""
    m = ctx.func(T.MINIMIZE)
    cfg = ctx.cfg(m)
    rets = [n for n in cfg.nodes if n.kind == "stmt" and isinstance(n.ast, ast.Return)]
    if not rets:
        raise AnalysisError("minimize has no return statement")
    for q in (OPT_FUNC, CST_FUNC):
        calls = [cfg.node_containing(ev.node) for ev in ctx.events(m) if ev.kind == "call" and any(t.kind == "repo" and t.name == q for t in ev.targets)]
        calls = [c for c in calls if c is not None]
        name = q.split(":")[-1]
        if not calls:
            rep.bad(rule, f"{name} called by minimize")
            rep.finding(rule, m, name, m.node.lineno, f"minimize no longer calls {name}: the documented restrictions are not enforced")
            continue
        for r in rets:
            desc = f"minimize:{r.line} return dominated by {name}()"
            if any(cfg.dominates(c, r.id) for c in calls):
                rep.ok(rule, desc)
            else:
                rep.bad(rule, desc)
                rep.finding(rule, m, norm(r.ast)[:80], r.line, f"this exit of minimize can be reached without {name}() having run: invalid or unknown settings are accepted silently on that path (no ValueError, no RuntimeWarning)")


_old_run19 = run


def run(ctx, rep):  # noqa: F811
    _old_run19(ctx, rep)
    rep.rule("R19.11", "every return of minimize is dominated by the validation/completion of the options and of the constants")
    r1911(ctx, rep)
