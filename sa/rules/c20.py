"""C20 - the callback sees, once per evaluation, the point minimize would
return.

R20.1 exactly once, after the filter update: when a callback is set, every
      normal path through the evaluation routine passes exactly one callback
      call; the calls are dominated by the filter update and no filter
      mutation follows them; nobody else calls the callback (C06 R6.1).
R20.2 same chain as the result: the point is build_x(best_eval(penalty)[0])
      and the value best_eval(penalty)[1] of the same call, with the penalty
      handed to the evaluation routine.
R20.3 the array handed out is a fresh allocation (build_x returns a new
      array on every path) and is not stored in a solver field.
R20.4 every evaluation made by solver code passes the penalty in force.
R20.5 the calling convention depends only on the callback's parameter names;
      the keyword form passes an OptimizeResult with x and fun.
"""
from __future__ import annotations

import ast

from ..astutil import norm, dotted, enclosing_loops
from ..loader import AnalysisError
from .. import tables as T
from . import common
from .c07 import mentions, enclosing_context
from .c03 import check_penalty_forwarding, FILTER


def run(ctx, rep):
    rep.rule("R20.1", "with a callback set, every normal path of the evaluation routine passes exactly one callback call, after the filter update; no filter mutation follows it")
    rep.rule("R20.2", "callback point = build_x(best_eval(penalty)[0]), fun = best_eval(penalty)[1] of the same call; penalty = the routine's penalty parameter")
    rep.rule("R20.3", "build_x returns a fresh array on every path; the array given to the callback is not stored in any field")
    rep.rule("R20.4", "every evaluation made by solver code passes the penalty in force")
    rep.rule("R20.5", "convention chosen from the parameter-name set of the callback's signature; keyword form passes OptimizeResult(x=, fun=)")
    E = ctx.func(T.EVAL)
    cfg = ctx.cfg(E)
    cbs = [ev for ev in ctx.events(E) if any(t.name == "UserCb" for t in ev.sink_targets())]
    if not cbs:
        rep.bad("R20.1", "callback call")
        rep.finding("R20.1", E, "no callback call", E.node.lineno, "the evaluation routine no longer calls the callback")
        return
    cb_nodes = {cfg.node_containing(ev.node): ev for ev in cbs}
    r201(ctx, rep, E, cfg, cbs, cb_nodes)
    r202(ctx, rep, E, cfg, cbs)
    r203(ctx, rep, E, cfg, cbs)
    n = check_penalty_forwarding(ctx, rep, "R20.4")
    if n < 2:
        raise AnalysisError("evaluation call sites with a penalty argument not found")
    r205(ctx, rep, E, cfg, cbs)
    rep.rule("R20.6", "the point shown to the callback lies within the user's bounds: build_x ends with the projection onto the original bounds")
    from . import c01
    from ..report import Renamed
    c01.r15(ctx, Renamed(rep, to="R20.6"))
    rep.rule("R20.7", "the point kept for the callback does not alias solver state that is later modified in place (see C02 R2.8)")
    from . import c02, c09
    c02.r28(ctx, Renamed(rep, to="R20.7"), rule="R20.7")
    rep.rule("R20.8", "a StopIteration of the callback ends the run at that evaluation: no user code is reachable after CallbackSuccess is caught (see C09 R9.1)")
    ucr, pruned = c09.user_code_reach(ctx)
    c09.r91(ctx, Renamed(rep, to="R20.8"), ucr, pruned)


def _cb_is_set_test(ctx, E, cfg):
    """CFG test node `self._callback is not None` (or truthiness)."""
    for n in cfg.nodes:
        if n.kind == "test" and isinstance(n.ast, ast.If):
            t = n.ast.test
            if isinstance(t, ast.Compare) and len(t.ops) == 1 and isinstance(t.ops[0], ast.IsNot) and isinstance(t.comparators[0], ast.Constant) and t.comparators[0].value is None and mentions(t.left, "_callback"):
                return n, "true"
            if isinstance(t, ast.Compare) and len(t.ops) == 1 and isinstance(t.ops[0], ast.Is) and isinstance(t.comparators[0], ast.Constant) and t.comparators[0].value is None and mentions(t.left, "_callback"):
                return n, "false"
            if isinstance(t, ast.Attribute) and t.attr == "_callback":
                return n, "true"
            if isinstance(t, ast.Call) and getattr(t.func, "id", None) == "callable" and mentions(t, "_callback"):
                return n, "true"
    return None, None


def r201(ctx, rep, E, cfg, cbs, cb_nodes):
    for ev in cbs:
        if enclosing_loops(ev.node, stop=E.node):
            rep.bad("R20.1", f"{E.local}:{ev.line} callback in a loop")
            rep.finding("R20.1", E, ev.text(), ev.line, "the callback is called inside a loop: more than once per evaluation")
    test, label = _cb_is_set_test(ctx, E, cfg)
    if test is None:
        rep.bad("R20.1", "callback-is-set test")
        rep.finding("R20.1", E, "no `callback is not None` test", E.node.lineno, "the callback calls are not under a test that a callback was supplied")
        return
    # exactly once: removing the callback nodes must disconnect the 'callback set'
    # edge from the normal exit (at least once) ...
    start = [b for b, l in cfg.succ[test.id] if l == label]
    reach = set()
    for b in start:
        if b in cb_nodes:
            continue
        reach |= cfg.reachable(b, avoid=set(cb_nodes), skip_exc=True)
    if cfg.exit in reach:
        rep.bad("R20.1", "callback on every path")
        rep.finding("R20.1", E, "path without callback call", test.line,
                    "with a callback set there is a normal path through the evaluation routine that does not call it (the callback must run once after every evaluation)")
    else:
        rep.ok("R20.1", "with a callback set every normal path passes a callback call")
    # ... and at most once: no callback node reaches another one
    for a in cb_nodes:
        others = set(cb_nodes) - {a}
        r = cfg.reachable(a, skip_exc=True) & others
        if r:
            rep.bad("R20.1", "callback twice")
            b = sorted(r)[0]
            rep.finding("R20.1", E, f"{cb_nodes[a].text()} ; {cb_nodes[b].text()}", cb_nodes[b].line, "two callback calls lie on one path of the evaluation routine")
        else:
            rep.ok("R20.1", f"{E.local}:{cb_nodes[a].line} callback call exclusive of the others")
    # after the filter update
    mut = []
    for node in ast.walk(E.node):
        if isinstance(node, ast.Call) and isinstance(node.func, ast.Attribute) and node.func.attr in common.MUTATORS:
            fld = common.field_of(node.func.value, E.self_name)
            if fld in FILTER:
                mut.append(node)
    if len(mut) < 3:
        raise AnalysisError("filter mutation sites not found in the evaluation routine")
    mut_nodes = {cfg.node_containing(n) for n in mut}
    appends = [cfg.node_containing(n) for n in mut if n.func.attr == "append"]
    # the `if include_point` test that guards the appends
    guard = None
    for a in appends:
        for kind, what, node in enclosing_context(cfg.nodes[a].ast, E.node):
            if kind == "if-true":
                guard = cfg.node_of(node)
    for nid, ev in cb_nodes.items():
        desc = f"{E.local}:{ev.line} callback after the filter update"
        after = cfg.reachable(nid, skip_exc=True) & mut_nodes
        dominated = guard is not None and cfg.dominates(guard, nid) and nid not in {x for a in appends for x in [a]}
        # the callback must not sit inside the update block before the appends
        before_append = any(a in cfg.reachable(nid, skip_exc=True) for a in appends)
        if after or before_append or not dominated:
            rep.bad("R20.1", desc)
            rep.finding("R20.1", E, ev.text(), ev.line,
                        "the callback runs before the filter has been updated with the current evaluation (the point it is shown could not be the one minimize would return)"
                        if (before_append or not dominated) else "the filter is modified after the callback has been shown the best point")
        else:
            rep.ok("R20.1", desc)


def _sole_def(cfg, rd, name, at):
    defs = rd.get(at, {}).get(name, frozenset())
    if len(defs) != 1:
        return None
    dn = next(iter(defs))
    if dn == cfg.entry:
        return None
    return cfg.nodes[dn]


def _unpack_of_call(node, name):
    """node: CFG node `a, b, c = call(..)` or `a = call(..)`; returns (call, index)."""
    s = node.ast
    if not isinstance(s, ast.Assign) or len(s.targets) != 1:
        return None
    t = s.targets[0]
    if isinstance(t, ast.Name) and t.id == name:
        return s.value, None
    if isinstance(t, (ast.Tuple, ast.List)):
        for i, el in enumerate(t.elts):
            if isinstance(el, ast.Name) and el.id == name:
                return s.value, i
    return None


def r202(ctx, rep, E, cfg, cbs):
    from ..spaces import resolve_point_expr, _result_field
    rd = cfg.reaching_defs()
    for ev in cbs:
        nid = cfg.node_containing(ev.node)
        e = resolve_point_expr(ctx, ev)
        desc = f"{E.local}:{ev.line} callback point `{norm(e) if e is not None else '?'}`"
        chain = _point_chain(ctx, E, cfg, rd, e, nid)
        if chain is None:
            rep.bad("R20.2", desc)
            rep.finding("R20.2", E, ev.text(), ev.line,
                        "the point handed to the callback is not build_x(best_eval(penalty)[0]) - the point minimize would return, in user variables")
            continue
        be_call, be_stmt = chain
        # the penalty argument
        a = be_call.args[0] if be_call.args else None
        for kw in be_call.keywords:
            if kw.arg == "penalty":
                a = kw.value
        pen_ok = isinstance(a, ast.Name) and a.id == "penalty" and "penalty" in E.params and rd.get(cfg.node_of(be_stmt), {}).get("penalty") == frozenset({cfg.entry})
        if pen_ok:
            rep.ok("R20.2", desc + " = build_x(best_eval(penalty)[0])")
        else:
            rep.bad("R20.2", desc)
            rep.finding("R20.2", E, norm(be_call), be_call.lineno, "the best point shown to the callback is not selected with the penalty handed to the evaluation routine")
        # the fun value of the keyword convention
        call = ev.node
        if not call.args:
            for kw in call.keywords:
                if kw.arg == "intermediate_result":
                    fe = _result_field(ctx, E, kw.value, "fun")
                    xs = _result_field(ctx, E, kw.value, "x")
                    d2 = f"{E.local}:{ev.line} intermediate_result.fun `{norm(fe) if fe is not None else '?'}`"
                    good = False
                    if isinstance(fe, ast.Name):
                        dn = _sole_def(cfg, rd, fe.id, nid)
                        if dn is not None and dn.ast is be_stmt:
                            u = _unpack_of_call(dn, fe.id)
                            good = u is not None and u[1] == 1
                    if good and xs is not None:
                        rep.ok("R20.2", d2 + " = best_eval(penalty)[1] of the same call")
                    else:
                        rep.bad("R20.2", d2)
                        rep.finding("R20.2", E, norm(kw.value)[:100], ev.line, "intermediate_result does not carry x and the objective value of the same best point")


def _point_chain(ctx, E, cfg, rd, e, nid):
    """e must be (a name defined as) build_x(<name defined from best_eval(..)[0]>)."""
    if e is None:
        return None
    bx = None
    at = nid
    if isinstance(e, ast.Name):
        dn = _sole_def(cfg, rd, e.id, nid)
        if dn is None:
            return None
        u = _unpack_of_call(dn, e.id)
        if u is None or u[1] is not None:
            return None
        bx = u[0]
        at = dn.id
    elif isinstance(e, ast.Call):
        bx = e
    if not (isinstance(bx, ast.Call) and any(t.kind == "repo" and t.name == T.BUILD_X for t in ctx.res.call_targets(bx, E))):
        return None
    if not bx.args:
        return None
    inner = bx.args[0]
    if isinstance(inner, ast.Subscript) and isinstance(inner.value, ast.Call):
        # build_x(self.best_eval(p)[0])
        from ..astutil import const_value
        if const_value(inner.slice) == 0 and any(t.kind == "repo" and t.name == T.BEST_EVAL for t in ctx.res.call_targets(inner.value, E)):
            return inner.value, cfg.nodes[at].ast
        return None
    if not isinstance(inner, ast.Name):
        return None
    dn = _sole_def(cfg, rd, inner.id, at)
    if dn is None:
        return None
    u = _unpack_of_call(dn, inner.id)
    if u is None or u[1] != 0:
        return None
    call = u[0]
    if not (isinstance(call, ast.Call) and any(t.kind == "repo" and t.name == T.BEST_EVAL for t in ctx.res.call_targets(call, E))):
        return None
    return call, dn.ast


def r203(ctx, rep, E, cfg, cbs):
    from ..alias import returns_fresh
    bx = ctx.func(T.BUILD_X)
    ok, why = returns_fresh(ctx, bx)
    if ok:
        rep.ok("R20.3", "build_x returns a fresh array on every path: " + why)
    else:
        rep.bad("R20.3", "build_x fresh")
        rep.finding("R20.3", bx, "return value of build_x", bx.node.lineno, f"build_x can return an array that is not freshly allocated ({why}): a callback overwriting it would modify solver state")
    # the name handed to the callback is not stored in a field / container afterwards or before
    from ..spaces import resolve_point_expr
    for ev in cbs:
        e = resolve_point_expr(ctx, ev)
        if not isinstance(e, ast.Name):
            continue
        stored = None
        for node in ast.walk(E.node):
            if isinstance(node, ast.Assign):
                for t in node.targets:
                    if isinstance(t, (ast.Attribute, ast.Subscript)) and isinstance(node.value, ast.Name) and node.value.id == e.id:
                        base = t
                        while isinstance(base, (ast.Subscript, ast.Attribute)):
                            base = base.value
                        if isinstance(base, ast.Name) and base.id == E.self_name:
                            stored = node
            if isinstance(node, ast.Call) and isinstance(node.func, ast.Attribute) and node.func.attr in ("append", "insert", "extend") and any(isinstance(a, ast.Name) and a.id == e.id for a in node.args):
                if common.field_of(node.func.value, E.self_name):
                    # appended under the same name? only relevant if it is the same definition
                    rdn = cfg.reaching_defs()
                    if rdn.get(cfg.node_containing(node), {}).get(e.id) == rdn.get(cfg.node_containing(ev.node), {}).get(e.id):
                        stored = node
        desc = f"{E.local}:{ev.line} `{e.id}` handed to the callback is not kept by the solver"
        if stored is None:
            rep.ok("R20.3", desc)
        else:
            rep.bad("R20.3", desc)
            rep.finding("R20.3", E, norm(stored)[:100], stored.lineno, "the array handed to the callback is also stored in solver state")


def r205(ctx, rep, E, cfg, cbs):
    kw_calls = [ev for ev in cbs if not ev.node.args and any(k.arg == "intermediate_result" for k in ev.node.keywords)]
    pos_calls = [ev for ev in cbs if ev.node.args]
    if not kw_calls or not pos_calls:
        rep.bad("R20.5", "both conventions")
        rep.finding("R20.5", E, f"{len(kw_calls)} keyword / {len(pos_calls)} positional callback calls", cbs[0].line,
                    "one of the two documented calling conventions (keyword intermediate_result / positional xk) is missing")
        return
    from ..inline import expander
    inl = expander(ctx, E)
    for ev in kw_calls + pos_calls:
        ctxs = enclosing_context(ev.stmt, E.node)
        # a named predicate (`use_result = set(sig.parameters) == {..}`) is seen through
        ctxs = [(k_, inl.expand(t_, n_), n_) if isinstance(t_, (ast.Name, ast.UnaryOp)) else (k_, t_, n_) for k_, t_, n_ in ctxs]
        sel = [c for c in ctxs if c[0] in ("if-true", "if-false") and mentions(c[1], "intermediate_result")]
        is_kw = ev in kw_calls
        desc = f"{E.local}:{ev.line} {'keyword' if is_kw else 'positional'} convention"
        good = False
        if sel:
            kind, test, node = sel[0]
            uses_sig = mentions(test, "parameters")
            eq = isinstance(test, ast.Compare) and len(test.ops) == 1 and isinstance(test.ops[0], (ast.Eq, ast.In))
            good = uses_sig and eq and ((kind == "if-true") == is_kw)
        if good:
            rep.ok("R20.5", desc + f" under `{norm(sel[0][1])[:60]}`")
        else:
            rep.bad("R20.5", desc)
            rep.finding("R20.5", E, ev.text(), ev.line, "the calling convention is not selected by the parameter names of the callback's signature (keyword form iff the only parameter is `intermediate_result`)")
    # the signature is the callback's
    ok = False
    for node in ast.walk(E.node):
        if isinstance(node, ast.Call) and (dotted(node.func) or "").split(".")[-1] == "signature" and node.args and mentions(node.args[0], "_callback"):
            ok = True
    if ok:
        rep.ok("R20.5", "signature(self._callback) is introspected")
    else:
        rep.bad("R20.5", "signature")
        rep.finding("R20.5", E, "signature(...)", E.node.lineno, "the signature that selects the convention is not the callback's")
