"""Helpers shared by rule modules."""
from __future__ import annotations

import ast

from ..astutil import norm
from ..callgraph import lam_key
from ..types import PREP_NL, PREP_UNK, USERNLC, USERDICT, VECFUN_NL, elem
from .. import tables as T

SINK_CLASS = {
    "UserFn": "objective",
    "UserCb": "callback",
    "UserConFn": "constraint",
    "VecFunNL.fun": "constraint",
    "VecFunNL.jac": "constraint",
    "VecFunNL.hess": "constraint",
    "PreparedNL.violation": "constraint",
    "PreparedUnknown.violation": "constraint",
    "PreparedConstraint(nonlinear)": "prepare",
}


def sink_class_of(ev):
    names = [t.name for t in ev.sink_targets()]
    for n in names:
        if n in SINK_CLASS:
            return SINK_CLASS[n]
    return "other"


def sink_classes(ctx, sinks):
    return {ev: sink_class_of(ev) for ev in sinks}


def sink_reach(ctx, sinks, classes, edge_ok):
    """call-graph node -> set of sink classes it can reach."""
    cg = ctx.cg
    reaches = {}
    for ev in sinks:
        holder = ev.func.qual if ev.lam is None else lam_key(ev.lam)
        reaches.setdefault(holder, set()).add(classes[ev])
    changed = True
    nodes = list(cg.events.keys()) + list(cg.lam_owner.keys())
    while changed:
        changed = False
        for u in nodes:
            cur = reaches.setdefault(u, set())
            for ev in cg.node_events(u):
                if not edge_ok(ev):
                    continue
                for t in ev.targets:
                    v = None
                    if t.kind == "repo":
                        v = t.name
                    elif t.kind == "lambda" and t.detail is not None:
                        v = lam_key(t.detail)
                    if v is not None:
                        add = reaches.get(v, set()) - cur
                        if add:
                            cur |= add
                            changed = True
    return reaches


def _is_constraint_container(ctx, f, it):
    t = ctx.type_of(it, f)
    flat = set()

    def flatten(tt, depth=0):
        for a in tt:
            if a[0] in ("list", "dict") and depth < 4:
                flatten(a[1], depth + 1)
            elif a[0] == "tuple" and depth < 4:
                for e in a[1]:
                    flatten(e, depth + 1)
            else:
                flat.add(a)

    flatten(t)
    return bool(flat & {PREP_NL, PREP_UNK, USERNLC, USERDICT, VECFUN_NL})


def is_constraint_object_loop(ctx, f, loop):
    if not isinstance(loop, (ast.For, ast.AsyncFor)):
        return False
    return _is_constraint_container(ctx, f, loop.iter)


def comp_over_constraints(ctx, f, node):
    cur = getattr(node, "_parent", None)
    while cur is not None and not isinstance(cur, ast.stmt):
        if isinstance(cur, (ast.ListComp, ast.SetComp, ast.GeneratorExp, ast.DictComp)):
            return all(_is_constraint_container(ctx, f, g.iter) for g in cur.generators)
        cur = getattr(cur, "_parent", None)
    return False


def point_arg(ev):
    """The expression carrying the evaluation point at a sink call."""
    names = [t.name for t in ev.sink_targets()]
    call = ev.node
    if not isinstance(call, ast.Call):
        return None
    if "PreparedConstraint(nonlinear)" in names:
        return call.args[1] if len(call.args) > 1 else None
    if call.args:
        a = call.args[0]
        return a.value if isinstance(a, ast.Starred) else a
    for kw in call.keywords:
        if kw.arg in ("x", "xk", "intermediate_result"):
            return kw.value
    return None


def same_point_cached_pair(ctx, f, a, b):
    """Two direct constraint sinks on the same prepared object with the same
    point variable (scipy's VectorFunction returns the cached value)."""
    if not (a.sink_targets() and b.sink_targets()):
        return False
    pa, pb = point_arg(a), point_arg(b)
    if not (isinstance(pa, ast.Name) and isinstance(pb, ast.Name) and pa.id == pb.id):
        return False

    def root(e):
        while isinstance(e, (ast.Attribute, ast.Call, ast.Subscript)):
            e = e.func if isinstance(e, ast.Call) else e.value
        return e.id if isinstance(e, ast.Name) else None

    if root(a.node.func) != root(b.node.func) or root(a.node.func) is None:
        return False
    cfg = ctx.cfg(f)
    rd = cfg.reaching_defs()
    na, nb = cfg.node_containing(a.node), cfg.node_containing(b.node)
    if na is None or nb is None:
        return False
    return rd.get(na, {}).get(pa.id) == rd.get(nb, {}).get(pb.id)


def reachable_funcs(ctx, root=T.MINIMIZE, live=None):
    def ok(ev):
        return live is None or not live.is_dead(ev)
    return ctx.cg.reach(root, ok)
