"""Helpers shared by rule modules."""
from __future__ import annotations

import ast

from ..astutil import norm
from ..callgraph import lam_key
from ..types import PREP_NL, PREP_UNK, USERNLC, USERDICT, VECFUN_NL, elem
from .. import tables as T

SINK_CLASS = {
    "UserFn": "objective",
    "UserCb": "callback",
    "UserConFn": "constraint",
    "VecFunNL.fun": "constraint",
    "VecFunNL.jac": "constraint",
    "VecFunNL.hess": "constraint",
    "PreparedNL.violation": "constraint",
    "PreparedUnknown.violation": "constraint",
    "PreparedConstraint(nonlinear)": "prepare",
}


def sink_class_of(ev):
    names = [t.name for t in ev.sink_targets()]
    for n in names:
        if n in SINK_CLASS:
            return SINK_CLASS[n]
    return "other"


def sink_classes(ctx, sinks):
    return {ev: sink_class_of(ev) for ev in sinks}


def sink_reach(ctx, sinks, classes, edge_ok):
    """call-graph node -> set of sink classes it can reach."""
    cg = ctx.cg
    reaches = {}
    for ev in sinks:
        holder = ev.func.qual if ev.lam is None else lam_key(ev.lam)
        reaches.setdefault(holder, set()).add(classes[ev])
    changed = True
    nodes = list(cg.events.keys()) + list(cg.lam_owner.keys())
    while changed:
        changed = False
        for u in nodes:
            cur = reaches.setdefault(u, set())
            for ev in cg.node_events(u):
                if not edge_ok(ev):
                    continue
                for t in ev.targets:
                    v = None
                    if t.kind == "repo":
                        v = t.name
                    elif t.kind == "lambda" and t.detail is not None:
                        v = lam_key(t.detail)
                    if v is not None:
                        add = reaches.get(v, set()) - cur
                        if add:
                            cur |= add
                            changed = True
    return reaches


def _is_constraint_container(ctx, f, it):
    t = ctx.type_of(it, f)
    flat = set()

    def flatten(tt, depth=0):
        for a in tt:
            if a[0] in ("list", "dict") and depth < 4:
                flatten(a[1], depth + 1)
            elif a[0] == "tuple" and depth < 4:
                for e in a[1]:
                    flatten(e, depth + 1)
            else:
                flat.add(a)

    flatten(t)
    return bool(flat & {PREP_NL, PREP_UNK, USERNLC, USERDICT, VECFUN_NL})


def is_constraint_object_loop(ctx, f, loop):
    if not isinstance(loop, (ast.For, ast.AsyncFor)):
        return False
    return _is_constraint_container(ctx, f, loop.iter)


def comp_over_constraints(ctx, f, node):
    cur = getattr(node, "_parent", None)
    while cur is not None and not isinstance(cur, ast.stmt):
        if isinstance(cur, (ast.ListComp, ast.SetComp, ast.GeneratorExp, ast.DictComp)):
            return all(_is_constraint_container(ctx, f, g.iter) for g in cur.generators)
        cur = getattr(cur, "_parent", None)
    return False


def point_arg(ev):
    """The expression carrying the evaluation point at a sink call."""
    names = [t.name for t in ev.sink_targets()]
    call = ev.node
    if not isinstance(call, ast.Call):
        return None
    if "PreparedConstraint(nonlinear)" in names:
        return call.args[1] if len(call.args) > 1 else None
    if call.args:
        a = call.args[0]
        return a.value if isinstance(a, ast.Starred) else a
    for kw in call.keywords:
        if kw.arg in ("x", "xk", "intermediate_result"):
            return kw.value
    return None


def same_point_cached_pair(ctx, f, a, b):
    """Two direct constraint sinks on the same prepared object with the same
    point variable (scipy's VectorFunction returns the cached value)."""
    if not (a.sink_targets() and b.sink_targets()):
        return False
    pa, pb = point_arg(a), point_arg(b)
    if not (isinstance(pa, ast.Name) and isinstance(pb, ast.Name) and pa.id == pb.id):
        return False

    def root(e):
        while isinstance(e, (ast.Attribute, ast.Call, ast.Subscript)):
            e = e.func if isinstance(e, ast.Call) else e.value
        return e.id if isinstance(e, ast.Name) else None

    if root(a.node.func) != root(b.node.func) or root(a.node.func) is None:
        return False
    cfg = ctx.cfg(f)
    rd = cfg.reaching_defs()
    na, nb = cfg.node_containing(a.node), cfg.node_containing(b.node)
    if na is None or nb is None:
        return False
    return rd.get(na, {}).get(pa.id) == rd.get(nb, {}).get(pb.id)


def reachable_funcs(ctx, root=T.MINIMIZE, live=None):
    def ok(ev):
        return live is None or not live.is_dead(ev)
    return ctx.cg.reach(root, ok)


# ---------------------------------------------------------------------------
# parallel lists (filter / history triples)
MUTATORS = {"append", "pop", "insert", "remove", "clear", "extend", "reverse", "sort"}


def field_of(expr, self_name):
    """self.F -> F"""
    if isinstance(expr, ast.Attribute) and isinstance(expr.value, ast.Name) and expr.value.id == self_name:
        return expr.attr
    return None


def list_ops(ctx, cls, fields):
    """All mutation sites of the given list fields in the class:
    list of (func, stmt, field, op, argtext, argnode)."""
    out = []
    for f in list(cls.methods.values()) + list(cls.getters.values()) + list(cls.setters.values()):
        sn = f.self_name
        if sn is None:
            continue
        for node in ast.walk(f.node):
            if isinstance(node, ast.Call) and isinstance(node.func, ast.Attribute) and node.func.attr in MUTATORS:
                fld = field_of(node.func.value, sn)
                if fld in fields:
                    from ..astutil import enclosing_stmt
                    out.append((f, enclosing_stmt(node), fld, node.func.attr, ", ".join(norm(a) for a in node.args), node))
            elif isinstance(node, (ast.Assign, ast.AugAssign, ast.Delete)):
                tgts = node.targets if isinstance(node, (ast.Assign, ast.Delete)) else [node.target]
                for t in tgts:
                    base = t
                    sub = False
                    while isinstance(base, ast.Subscript):
                        base = base.value
                        sub = True
                    fld = field_of(base, sn)
                    if fld in fields:
                        op = "del" if isinstance(node, ast.Delete) else ("setitem" if sub else ("augassign" if isinstance(node, ast.AugAssign) else "assign"))
                        out.append((f, node, fld, op, norm(node.value) if hasattr(node, "value") and node.value is not None else "", node))
    # writers outside the class
    for f in ctx.repo.funcs.values():
        if f.cls is cls:
            continue
        for node in ast.walk(f.node):
            if isinstance(node, ast.Attribute) and node.attr in fields:
                par = getattr(node, "_parent", None)
                if isinstance(node.ctx, (ast.Store, ast.Del)):
                    out.append((f, par, node.attr, "foreign-store", "", node))
                elif isinstance(par, ast.Attribute) and par.attr in MUTATORS and isinstance(getattr(par, "_parent", None), ast.Call):
                    out.append((f, par, node.attr, "foreign-" + par.attr, "", node))
    return out


def block_of(stmt):
    """(parent node, field name) identifying the statement list holding stmt."""
    par = getattr(stmt, "_parent", None)
    for field in ("body", "orelse", "finalbody"):
        lst = getattr(par, field, None)
        if isinstance(lst, list) and any(s is stmt for s in lst):
            return (id(par), field)
    return (id(par), "?")


def check_lockstep(ctx, rep, rule, cls, fields, what):
    """The lists `fields` are mutated in lock-step: in every statement block
    the sequences of (op, argument) applied to each list are identical."""
    ops = list_ops(ctx, cls, set(fields))
    blocks = {}
    for f, stmt, fld, op, arg, node in ops:
        if op.startswith("foreign"):
            rep.bad(rule, f"{f.local}:{getattr(node, 'lineno', 0)} {fld} {op}")
            rep.finding(rule, f, norm(stmt)[:100], getattr(node, "lineno", 0),
                        f"the {what} list `{fld}` is modified outside its owning class")
            continue
        if f.name == "__init__" and op == "assign":
            continue
        blocks.setdefault((f.qual, block_of(stmt)), []).append((getattr(stmt, "lineno", 0), fld, op, arg, f, stmt))
    n = 0
    for key, items in blocks.items():
        items.sort(key=lambda x: x[0])
        seqs = {fld: [(op, arg if op != "append" else "<v>") for _, fl, op, arg, _, _ in items if fl == fld] for fld in fields}
        f = items[0][4]
        ref = seqs[fields[0]]
        n += 1
        desc = f"{f.local}:{items[0][0]} block ops " + "; ".join(f"{fld}:{seqs[fld]}" for fld in fields)
        if all(seqs[fld] == ref for fld in fields):
            rep.ok(rule, desc)
        else:
            rep.bad(rule, desc)
            rep.finding(rule, f, "; ".join(f"{fld}:{[o for o, _ in seqs[fld]]}" for fld in fields), items[0][0],
                        f"the three {what} lists are not modified in lock-step in this block (an entry would pair a value with the wrong point)")
    return ops, n


# ---------------------------------------------------------------------------
def check_closure_capture(ctx, rep, rule, funcs=None):
    """A lambda / nested function created inside a loop must not read the loop
    variable (or a variable assigned in the loop body) freely: every closure
    would see the value of the last iteration (late binding)."""
    n = 0
    for f in ctx.repo.funcs.values():
        if funcs is not None and f.qual not in funcs:
            continue
        for loop in ast.walk(f.node):
            if not isinstance(loop, (ast.For, ast.While)):
                continue
            loop_vars = set()
            if isinstance(loop, ast.For):
                loop_vars |= {x.id for x in ast.walk(loop.target) if isinstance(x, ast.Name)}
            for s in loop.body:
                for node in ast.walk(s):
                    if isinstance(node, ast.Assign):
                        for t in node.targets:
                            loop_vars |= {x.id for x in ast.walk(t) if isinstance(x, ast.Name) and isinstance(x.ctx, ast.Store)}
            for s in loop.body:
                for lam in ast.walk(s):
                    if not isinstance(lam, (ast.Lambda, ast.FunctionDef)):
                        continue
                    a = lam.args
                    params = {x.arg for x in a.posonlyargs + a.args + a.kwonlyargs}
                    if a.vararg:
                        params.add(a.vararg.arg)
                    if a.kwarg:
                        params.add(a.kwarg.arg)
                    body_nodes = [lam.body] if isinstance(lam, ast.Lambda) else lam.body
                    free = set()
                    for b in body_nodes:
                        for x in ast.walk(b):
                            if isinstance(x, ast.Name) and isinstance(x.ctx, ast.Load) and x.id in loop_vars and x.id not in params:
                                free.add(x.id)
                    n += 1
                    # is the closure used after the iteration (stored / passed on)?
                    desc = f"{f.local}:{lam.lineno} closure created in a loop"
                    if free:
                        # immediately invoked closures are harmless: only flag when
                        # the closure escapes the statement (argument / stored)
                        rep.bad(rule, desc)
                        rep.finding(rule, f, norm(lam)[:120], lam.lineno,
                                    f"the closure reads the loop variable(s) {sorted(free)} when it is called, not when it is created: "
                                    f"every closure made by this loop sees the values of the last iteration")
                    else:
                        rep.ok(rule, desc + " binds what it needs at creation")
    return n


# ---------------------------------------------------------------------------
def check_duplicate_operands(ctx, rep, rule, quals):
    """`a and a` / `a or a` / `x & x`: the second operand was meant to test
    something else (copy/paste slip)."""
    n = 0
    for q in quals:
        f = ctx.func(q)
        for node in ast.walk(f.node):
            ops = None
            if isinstance(node, ast.BoolOp):
                ops = node.values
            elif isinstance(node, ast.BinOp) and isinstance(node.op, (ast.BitAnd, ast.BitOr)):
                ops = [node.left, node.right]
            if not ops:
                continue
            n += 1
            texts = [norm(o) for o in ops]
            dup = [t for t in set(texts) if texts.count(t) > 1]
            if dup:
                rep.bad(rule, f"{f.local}:{node.lineno} duplicated operand")
                rep.finding(rule, f, norm(node)[:140], node.lineno, f"the condition tests `{dup[0][:60]}` twice: one of the operands was meant to test something else")
    return n


# ---------------------------------------------------------------------------
def check_swapped_args(ctx, rep, rule, callee_pred):
    """Argument / parameter agreement: a positional argument that is a plain
    variable named like *another* parameter of the callee (while that
    parameter receives something else) is a swapped argument."""
    from ..valueflow import arg_for
    n = 0
    for q, evs in ctx.cg.events.items():
        for ev in evs:
            if ev.kind != "call":
                continue
            for t in ev.targets:
                if t.kind != "repo" or not callee_pred(t.func):
                    continue
                g = t.func
                params = g.params[1:] if t.detail in ("bound", "ctor", "call") and g.params else g.params
                call = ev.node
                if any(isinstance(a, ast.Starred) for a in call.args):
                    continue
                n += 1
                bound = {}
                for i, a in enumerate(call.args):
                    if i < len(params):
                        bound[params[i]] = a
                for kw in call.keywords:
                    if kw.arg:
                        bound[kw.arg] = kw.value
                bad = None

                def root_name(a):
                    """x / obj.x / obj.x[i, :] / x[mask] -> x"""
                    while isinstance(a, ast.Subscript):
                        a = a.value
                    return a.id if isinstance(a, ast.Name) else (a.attr if isinstance(a, ast.Attribute) else None)
                for p, a in bound.items():
                    nm = root_name(a)
                    if nm is None or nm == p or nm.lstrip("_") == p.lstrip("_"):
                        continue
                    if nm in params or nm.lstrip("_") in params:
                        other = nm if nm in params else nm.lstrip("_")
                        oa = bound.get(other)
                        onm = root_name(oa) if oa is not None else None
                        if oa is None or onm is None or (onm != other and onm.lstrip("_") != other):
                            bad = (p, nm, other)
                        elif norm(oa) == norm(a):
                            bad = (p, nm, other)      # the same expression is passed for both parameters
                desc = f"{ev.func.local}:{ev.line} {g.local}({', '.join(norm(a)[:14] for a in call.args)[:70]})"
                if bad:
                    rep.bad(rule, desc)
                    rep.finding(rule, ev.func, ev.text()[:140], ev.line,
                                f"argument `{bad[1]}` is passed for parameter `{bad[0]}` of {g.local} while parameter `{bad[2]}` receives something else: arguments swapped")
                else:
                    rep.ok(rule, desc + " arguments agree with the parameter names")
    return n
