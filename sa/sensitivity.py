"""Sensitivity run of the thorough tier: single-edit variants of the current
tree are produced *in memory* (AST edit + unparse, nothing is written under
/repo and nothing is executed) and re-analysed with the rules of one
property.  A variant whose edit is not reported is a SENSITIVITY-GAP: a
weakness of the check (or an edit that is irrelevant to / preserves the
property), never a violation.  The list goes into the evidence file."""
from __future__ import annotations

import ast
import copy
import importlib
import multiprocessing as mp
import os
import random

from .loader import Repo, AnalysisError
from . import tables as T

CMP_SWAP = {ast.Lt: [ast.LtE, ast.Gt], ast.LtE: [ast.Lt, ast.GtE], ast.Gt: [ast.GtE, ast.Lt], ast.GtE: [ast.Gt, ast.LtE], ast.Eq: [ast.NotEq], ast.NotEq: [ast.Eq], ast.Is: [ast.IsNot], ast.IsNot: [ast.Is], ast.In: [ast.NotIn], ast.NotIn: [ast.In]}
NAME_SWAP = [("xl", "xu"), ("lb", "ub"), ("cub_val", "ceq_val"), ("fun_val", "maxcv_val"), ("_fun_filter", "_maxcv_filter"), ("a_ub", "a_eq"), ("b_ub", "b_eq"), ("alpha_tr", "alpha_bd"), ("free_xl", "free_xu"), ("_cub", "_ceq"), ("step", "step_base")]


def _in_debug(node):
    cur = node
    while cur is not None:
        if isinstance(cur, ast.Assert):
            return True
        if isinstance(cur, ast.If) and any(isinstance(x, (ast.Name, ast.Attribute)) and (getattr(x, "id", None) == "debug" or getattr(x, "attr", None) in ("_debug", "DEBUG") or getattr(x, "id", None) == "verbose" or getattr(x, "attr", None) in ("_verbose", "VERBOSE")) for x in ast.walk(cur.test)):
            return True
        cur = getattr(cur, "_parent", None)
    return False


def enumerate_edits(fnode):
    """(kind, path-index) descriptors of the edits applicable inside a function."""
    edits = []
    nodes = list(ast.walk(fnode))
    for i, n in enumerate(nodes):
        if _in_debug(n):
            continue
        if isinstance(n, ast.Compare):
            for j, op in enumerate(n.ops):
                for new in CMP_SWAP.get(type(op), []):
                    edits.append(("cmp", i, j, new.__name__))
        elif isinstance(n, ast.BoolOp):
            edits.append(("boolop", i))
        elif isinstance(n, ast.stmt) and isinstance(n, (ast.Expr, ast.Assign, ast.AugAssign)) and not (isinstance(n, ast.Expr) and isinstance(n.value, ast.Constant)):
            edits.append(("delete", i))
        elif isinstance(n, ast.UnaryOp) and isinstance(n.op, (ast.USub, ast.Not, ast.Invert)):
            edits.append(("unary", i))
        elif isinstance(n, ast.Constant) and isinstance(n.value, (int, float)) and not isinstance(n.value, bool):
            edits.append(("const", i))
        elif isinstance(n, ast.BinOp) and isinstance(n.op, (ast.Add, ast.Sub)):
            edits.append(("addsub", i))
        elif isinstance(n, ast.ExceptHandler):
            edits.append(("handler", i))
        elif isinstance(n, (ast.Break, ast.Return, ast.Raise)) and not isinstance(getattr(n, "_parent", None), (ast.FunctionDef,)):
            if isinstance(n, (ast.Break, ast.Raise)):
                edits.append(("delete", i))
        if isinstance(n, (ast.Name, ast.Attribute)):
            nm = n.id if isinstance(n, ast.Name) else n.attr
            for a, b in NAME_SWAP:
                if nm == a or nm == b:
                    edits.append(("name", i, a, b))
    return edits


def apply_edit(fnode, edit):
    nodes = list(ast.walk(fnode))
    kind = edit[0]
    n = nodes[edit[1]]
    line = getattr(n, "lineno", 0)
    before = ast.unparse(n)[:70] if not isinstance(n, ast.ExceptHandler) else f"except {ast.unparse(n.type) if n.type else ''}"
    if kind == "cmp":
        n.ops[edit[2]] = getattr(ast, edit[3])()
    elif kind == "boolop":
        n.op = ast.Or() if isinstance(n.op, ast.And) else ast.And()
    elif kind == "delete":
        par = n._parent
        for fld in ("body", "orelse", "finalbody"):
            lst = getattr(par, fld, None)
            if isinstance(lst, list) and any(x is n for x in lst):
                k = [j for j, x in enumerate(lst) if x is n][0]
                lst[k] = ast.copy_location(ast.Pass(), n)
    elif kind == "unary":
        par = n._parent
        _replace_child(par, n, n.operand)
    elif kind == "const":
        v = n.value
        n.value = (v + 1) if v in (0, 0.0, -1) else (0 if isinstance(v, int) else 0.0) if v in (1, 1.0) else -v
    elif kind == "addsub":
        n.op = ast.Sub() if isinstance(n.op, ast.Add) else ast.Add()
    elif kind == "handler":
        par = n._parent
        if len(par.handlers) > 1:
            par.handlers = [h for h in par.handlers if h is not n]
        else:
            n.body = [ast.copy_location(ast.Raise(), n)]
    elif kind == "name":
        a, b = edit[2], edit[3]
        if isinstance(n, ast.Name):
            n.id = b if n.id == a else a
        else:
            n.attr = b if n.attr == a else a
    after = ast.unparse(n)[:70] if kind not in ("delete", "unary", "handler") else "<removed>"
    return line, f"{kind}: `{before}` -> `{after}`"


def _replace_child(par, old, new):
    for fld, val in ast.iter_fields(par):
        if val is old:
            setattr(par, fld, new)
        elif isinstance(val, list):
            for j, x in enumerate(val):
                if x is old:
                    val[j] = new


def _worker(args):
    prop, root, relpath, qual_local, edit, base_keys = args
    try:
        from .engine import Context
        from .report import Report
        from .loader import set_parents
        src = open(os.path.join(root, relpath)).read()
        tree = ast.parse(src)
        set_parents(tree)
        fnode = _find_func(tree, qual_local)
        if fnode is None:
            return (relpath, qual_local, 0, "function not found", "skipped")
        line, desc = apply_edit(fnode, edit)
        ast.fix_missing_locations(tree)
        new_src = ast.unparse(tree)
        ctx = Context(root, overlay={relpath: new_src})
        rep = Report(prop, "thorough", 0)
        mod = importlib.import_module(f"sa.rules.{prop.lower()}")
        mod.run(ctx, rep)
        new = [f for f in rep.findings if f.key not in base_keys]
        return (relpath, qual_local, line, desc, "detected" if new else "gap", new[0].rule if new else None)
    except AnalysisError as exc:
        return (relpath, qual_local, 0, str(edit), "analysis-error", str(exc)[:80])
    except Exception as exc:  # pragma: no cover
        return (relpath, qual_local, 0, str(edit), "checker-crash", repr(exc)[:120])


def _find_func(tree, local):
    parts = local.replace(".setter", "").split(".")
    setter = local.endswith(".setter")
    body = tree.body
    node = None
    for p in parts:
        found = None
        for x in body:
            if isinstance(x, (ast.FunctionDef, ast.ClassDef)) and x.name == p:
                if isinstance(x, ast.FunctionDef):
                    is_setter = any(isinstance(d, ast.Attribute) and d.attr == "setter" for d in x.decorator_list)
                    if is_setter != setter:
                        continue
                found = x
                break
        if found is None:
            return None
        node = found
        body = found.body
    return node


def run(ctx, rep, prop, max_variants=None, seed=0):
    quals = T.SENSITIVITY_FUNCS.get(prop, [])
    base_keys = {f.key for f in rep.findings}
    jobs = []
    for q in quals:
        f = ctx.repo.find_func(q)
        if f is None:
            continue
        edits = enumerate_edits(f.node)
        for e in edits:
            jobs.append((prop, str(ctx.root), f.relfile, f.local, e, base_keys))
    rnd = random.Random(seed)
    rnd.shuffle(jobs)
    limit = max_variants or int(os.environ.get("VERIF_MAX_VARIANTS", "400"))
    jobs = jobs[:limit]
    total = len(jobs)
    nproc = min(16, os.cpu_count() or 4)
    # wall-clock budget: on a slow or busy machine the run analyses fewer variants
    # instead of taking arbitrarily long (the number analysed is reported)
    import time
    budget = float(os.environ.get("VERIF_SENS_BUDGET_S", "120"))
    t0 = time.time()
    results = []
    with mp.Pool(nproc) as pool:
        for r in pool.imap_unordered(_worker, jobs, chunksize=2):
            results.append(r)
            if time.time() - t0 > budget:
                pool.terminate()
                break
    results.sort(key=lambda r: (r[0], r[1], r[2], str(r[3])))
    planned, total = total, len(results)
    stat = {"detected": 0, "gap": 0, "analysis-error": 0, "checker-crash": 0, "skipped": 0}
    gaps = []
    det_by_rule = {}
    for r in results:
        stat[r[4]] = stat.get(r[4], 0) + 1
        if r[4] == "gap":
            gaps.append({"file": r[0], "function": r[1], "line": r[2], "edit": r[3]})
        elif r[4] == "detected":
            det_by_rule[r[5]] = det_by_rule.get(r[5], 0) + 1
        elif r[4] == "checker-crash":
            gaps.append({"file": r[0], "function": r[1], "line": r[2], "edit": r[3], "crash": r[5]})
    rep.extra["sensitivity"] = {
        "variants": total,
        "functions_mutated": quals,
        "result": stat,
        "detected_by_rule": dict(sorted(det_by_rule.items())),
        "gaps_sample": sorted(gaps, key=lambda g: (g["file"], g["line"]))[:120],
        "note": "single in-memory AST edits (comparison/boolean/sign/constant/name swaps, statement or handler removal) of the functions the property is anchored in; a gap is an edit the rules do not report - many gaps are edits that do not affect this property (equivalent or irrelevant), they are listed so that a reader can judge the reach of the check",
    }
    rep.extra["sensitivity"]["variants_planned"] = planned
    rep.obl.note(f"sensitivity run: {total} of {planned} planned variants (time budget {budget:.0f}s), {stat['detected']} reported, {stat['analysis-error']} stopped with ANALYSIS-ERROR, {stat['gap']} not reported (listed as SENSITIVITY-GAP in the evidence), {stat['checker-crash']} checker crashes")
    if stat["checker-crash"]:
        raise AnalysisError(f"{stat['checker-crash']} sensitivity variants crashed the checker")
    return stat
