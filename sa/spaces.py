"""Two-space typing (DESIGN A.1): user-space (FULL) points are exactly the
results of Problem.build_x; everything the solver manipulates is in the
reduced / scaled space.  Implemented on top of the backward value-flow."""
from __future__ import annotations

import ast

from .astutil import norm
from .valueflow import ValueFlow
from . import tables as T
from .rules import common

FULL_OK_OPS = frozenset({"conv", "clip"})


def vf(ctx):
    v = getattr(ctx, "_vf_space", None)
    if v is None:
        v = ValueFlow(ctx, sources=(T.BUILD_X,), live=ctx.facts.live)
        ctx._vf_space = v
    return v


def fmt(origs):
    return ", ".join(sorted(f"{o.kind}:{str(o.detail).split(':')[-1]}{'+' + '+'.join(sorted(o.ops)) if o.ops else ''}" for o in origs))[:300]


def is_full(origs):
    return bool(origs) and all(o.kind == "src" and o.detail == T.BUILD_X and o.ops <= FULL_OK_OPS for o in origs)


def has_full(origs):
    return any(o.kind == "src" and o.detail == T.BUILD_X for o in origs)


def resolve_point_expr(ctx, ev):
    """Point expression of a sink; for the keyword convention of the callback
    follow the local variable to the OptimizeResult(x=...) construction."""
    e = common.point_arg(ev)
    if e is None:
        return None
    call = ev.node
    kwnames = {kw.arg for kw in call.keywords}
    if not call.args and "intermediate_result" in kwnames:
        return _result_field(ctx, ev.func, e, "x")
    return e


def _result_field(ctx, f, e, field):
    if isinstance(e, ast.Call):
        for kw in e.keywords:
            if kw.arg == field:
                return kw.value
        return None
    if isinstance(e, ast.Name):
        cfg = ctx.cfg(f)
        nid = cfg.node_containing(e)
        rd = cfg.reaching_defs()
        defs = rd.get(nid, {}).get(e.id, ())
        vals = []
        for dn in defs:
            s = cfg.nodes[dn].ast
            if isinstance(s, ast.Assign) and isinstance(s.value, ast.Call):
                for kw in s.value.keywords:
                    if kw.arg == field:
                        vals.append(kw.value)
        if len(vals) == 1:
            return vals[0]
    return None


def check_sink_spaces(ctx, rep, rule, sinks, classes, only=None):
    v = vf(ctx)
    reach = common.reachable_funcs(ctx, live=ctx.facts.live)
    for ev in sinks:
        c = classes[ev]
        if only is not None and c not in only:
            continue
        if ev.func.qual not in reach:
            continue
        e = resolve_point_expr(ctx, ev)
        desc = f"{ev.func.local}:{ev.line} {ev.text()[:60]} point argument"
        if e is None:
            rep.bad(rule, desc + " - no point argument found")
            rep.finding(rule, ev.func, ev.text(), ev.line,
                        f"{c} user code is called without a recognisable point argument")
            continue
        if ev.lam is not None and isinstance(e, ast.Name) and e.id in [a.arg for a in ev.lam.args.posonlyargs + ev.lam.args.args]:
            # wrapper lambda: the point is the lambda's own parameter, the
            # obligation is carried by whoever calls the wrapper
            idx = [a.arg for a in ev.lam.args.posonlyargs + ev.lam.args.args].index(e.id)
            callers = [c for evs in ctx.cg.events.values() for c in evs
                       if any(t.kind == "lambda" and t.detail is ev.lam for t in c.targets)]
            bad = False
            for c in callers:
                if isinstance(c.node, ast.Call) and len(c.node.args) > idx:
                    o2 = v.origins(c.node.args[idx], c.func)
                    if not is_full(o2):
                        bad = True
                        rep.bad(rule, desc)
                        rep.finding(rule, c.func, c.text(), c.line,
                                    f"wrapper around {c} user code is called with `{norm(c.node.args[idx])}` which is not a build_x result ({{{fmt(o2)}}})")
            if not bad:
                rep.ok(rule, desc + " - wrapper lambda; obligation carried by its call sites")
            continue
        origs = v.origins(e, ev.func)
        if is_full(origs):
            rep.ok(rule, desc + f" `{norm(e)}` <- build_x")
        else:
            rep.bad(rule, desc)
            rep.finding(rule, ev.func, ev.text(), ev.line,
                        f"the point handed to {c} user code is not (only) a build_x result: "
                        f"`{norm(e)}` originates from {{{fmt(origs)}}}; user code would see a point in the "
                        f"solver's reduced/scaled variables or one that was not projected onto the bounds")


REDUCED_METHODS = {
    # (class, method): index of the point argument (after self)
    ("Problem", "build_x"): 0,
    ("Problem", "__call__"): 0,
    ("Problem", "maxcv"): 0,
    ("Problem", "violation"): 0,
    ("BoundConstraints", "maxcv"): 0,
    ("BoundConstraints", "violation"): 0,
    ("BoundConstraints", "project"): 0,
    ("LinearConstraints", "maxcv"): 0,
    ("LinearConstraints", "violation"): 0,
}


def check_reduced_operands(ctx, rep, rule):
    """Operands of the reduced-space operations must not be build_x results
    (double transformation), except on the `_orig_bounds` object which lives
    in user space."""
    v = vf(ctx)
    live = ctx.facts.live
    reach = common.reachable_funcs(ctx, live=live)
    n = 0
    for q in reach:
        f = ctx.repo.funcs.get(q)
        if f is None:
            continue
        for ev in ctx.events(f):
            if ev.kind != "call" or live.is_dead(ev):
                continue
            for t in ev.targets:
                if t.kind != "repo" or t.func.cls is None:
                    continue
                key = (t.func.cls.name, t.func.name)
                if key not in REDUCED_METHODS:
                    continue
                idx = REDUCED_METHODS[key]
                call = ev.node
                if len(call.args) <= idx or isinstance(call.args[idx], ast.Starred):
                    continue
                arg = call.args[idx]
                recv = norm(call.func)
                user_space_obj = "_orig_bounds" in recv
                origs = v.origins(arg, f)
                n += 1
                desc = f"{f.local}:{ev.line} {ev.text()[:70]}"
                if user_space_obj:
                    if f.qual == T.BUILD_X:
                        rep.ok(rule, desc + " - projection inside build_x")
                        continue
                    if is_full(origs):
                        rep.ok(rule, desc + " - user-space operand on the user-space bounds")
                    else:
                        rep.bad(rule, desc)
                        rep.finding(rule, f, ev.text(), ev.line,
                                    f"the original (user-space) bounds are applied to `{norm(arg)}`, which is not a build_x result "
                                    f"(origins {{{fmt(origs)}}})")
                    continue
                if has_full(origs):
                    rep.bad(rule, desc)
                    rep.finding(rule, f, ev.text(), ev.line,
                                f"a user-space point (build_x result) is handed to the reduced-space operation "
                                f"{key[0]}.{key[1]}: `{norm(arg)}`")
                else:
                    rep.ok(rule, desc + " - reduced-space operand")
    return n
