"""Frozen tables: anchors, instance floors, reference orders.  Every entry has
a one-line reason.  These are the reference 'through time': a later change
that removes instances below a floor stops the check with ANALYSIS-ERROR."""

RESOLUTION_FLOOR = 0.95  # measured 0.997 on the pinned tree

# anchors (qualified names); a vanished anchor is an ANALYSIS-ERROR
MINIMIZE = "cobyqa.main:minimize"                 # public entry point
EVAL = "cobyqa.problem:Problem.__call__"          # the evaluation routine
OBJ_CALL = "cobyqa.problem:ObjectiveFunction.__call__"   # objective wrapper
NLC_CALL = "cobyqa.problem:NonlinearConstraints.__call__"  # constraint wrapper
BUILD_X = "cobyqa.problem:Problem.build_x"        # reduced -> user space
BEST_EVAL = "cobyqa.problem:Problem.best_eval"    # selection of the returned point
BUILD_RESULT = "cobyqa.main:_build_result"        # result assembly
EVAL_WRAPPER = "cobyqa.main:_eval"                # main-loop evaluation helper
MODELS_INIT = "cobyqa.models:Models.__init__"     # initial sampling
TR_INIT = "cobyqa.framework:TrustRegion.__init__"

# the designated call chain of one evaluation (C06): callee -> reason
EVAL_CHAIN = {
    EVAL: "evaluation routine",
    OBJ_CALL: "objective wrapper, called once by the evaluation routine",
    NLC_CALL: "constraint wrapper, called once by the evaluation routine",
}

INTERNAL_EXC = {
    "MaxEvalError": "budget exhausted (cobyqa.utils.exceptions)",
    "TargetSuccess": "target reached",
    "FeasibleSuccess": "feasibility problem solved",
    "CallbackSuccess": "callback asked to stop (subclass of StopIteration)",
    "LinAlgError": "ill-defined interpolation system (numpy.linalg.LinAlgError)",
    "ZeroDivisionError": "_alpha_tr degenerate step length",
    "StopIteration": "raised by user callbacks; translated to CallbackSuccess",
}
