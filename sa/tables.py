"""Frozen tables: anchors, instance floors, reference orders.  Every entry has
a one-line reason.  These are the reference 'through time': a later change
that removes instances below a floor stops the check with ANALYSIS-ERROR."""

RESOLUTION_FLOOR = 0.95  # measured 0.997 on the pinned tree

# anchors (qualified names); a vanished anchor is an ANALYSIS-ERROR
MINIMIZE = "cobyqa.main:minimize"                 # public entry point
EVAL = "cobyqa.problem:Problem.__call__"          # the evaluation routine
OBJ_CALL = "cobyqa.problem:ObjectiveFunction.__call__"   # objective wrapper
NLC_CALL = "cobyqa.problem:NonlinearConstraints.__call__"  # constraint wrapper
BUILD_X = "cobyqa.problem:Problem.build_x"        # reduced -> user space
BEST_EVAL = "cobyqa.problem:Problem.best_eval"    # selection of the returned point
BUILD_RESULT = "cobyqa.main:_build_result"        # result assembly
EVAL_WRAPPER = "cobyqa.main:_eval"                # main-loop evaluation helper
MODELS_INIT = "cobyqa.models:Models.__init__"     # initial sampling
TR_INIT = "cobyqa.framework:TrustRegion.__init__"

# the designated call chain of one evaluation (C06): callee -> reason
EVAL_CHAIN = {
    EVAL: "evaluation routine",
    OBJ_CALL: "objective wrapper, called once by the evaluation routine",
    NLC_CALL: "constraint wrapper, called once by the evaluation routine",
}

INTERNAL_EXC = {
    "MaxEvalError": "budget exhausted (cobyqa.utils.exceptions)",
    "TargetSuccess": "target reached",
    "FeasibleSuccess": "feasibility problem solved",
    "CallbackSuccess": "callback asked to stop (subclass of StopIteration)",
    "LinAlgError": "ill-defined interpolation system (numpy.linalg.LinAlgError)",
    "ZeroDivisionError": "_alpha_tr degenerate step length",
    "StopIteration": "raised by user callbacks; translated to CallbackSuccess",
}

# functions whose statements are mutated by the sensitivity run of the thorough
# tier (the code each property is anchored in)
_P = "cobyqa.problem:"
_M = "cobyqa.main:"
_F = "cobyqa.framework:TrustRegion."
_MO = "cobyqa.models:"
_O = "cobyqa.subsolvers.optim:"
_G = "cobyqa.subsolvers.geometry:"
SENSITIVITY_FUNCS = {
    "C01": [_P + "Problem.build_x", _P + "Problem.__call__", _P + "BoundConstraints.project", _F + "get_trust_region_step", _F + "get_geometry_step", _F + "get_second_order_correction_step", _M + "_eval", _MO + "Interpolation.__init__"],
    "C02": [_P + "Problem.__call__", _P + "Problem.best_eval", _P + "Problem.maxcv", _P + "Problem.violation", _P + "NonlinearConstraints.violation", _M + "_build_result"],
    "C03": [_P + "Problem.__call__", _P + "Problem.best_eval", _M + "_build_result"],
    "C05": [_M + "_eval", _MO + "Models.__init__", _P + "Problem.__call__", _P + "Problem.n_eval", _M + "_build_result"],
    "C06": [_P + "Problem.__call__", _P + "ObjectiveFunction.__call__", _P + "NonlinearConstraints.__call__", _P + "NonlinearConstraints.violation", _P + "Problem.violation", _F + "merit"],
    "C07": [_M + "minimize", _M + "_build_result", _M + "_eval"],
    "C08": [_P + "Problem.__call__", _M + "minimize", _M + "_build_result", _M + "_get_constraints", _P + "Problem.best_eval"],
    "C09": [_M + "_eval", _MO + "Models.__init__", _P + "Problem.__call__", _M + "minimize"],
    "C10": [_P + "Problem.__init__", _P + "Problem.build_x", _M + "_get_bounds", _M + "_get_constraints"],
    "C11": [_P + "BoundConstraints.__init__", _P + "LinearConstraints.__init__", _P + "Problem.__init__", _M + "minimize", _MO + "build_system", _MO + "Interpolation.__init__", "cobyqa.utils.math:exact_1d_array"],
    "C12": [_MO + "Models.update_interpolation", _MO + "Models.shift_x_base", _MO + "Models.reset_models", _MO + "Quadratic.update", _MO + "Quadratic.shift_x_base", _MO + "Models.__init__"],
    "C13": [_MO + "Quadratic.__call__", _MO + "Quadratic.grad", _MO + "Quadratic.hess", _MO + "Quadratic.hess_prod", _MO + "Quadratic.curv", _MO + "Quadratic._get_model", _MO + "build_system", _MO + "Quadratic.update"],
    "C15": [_O + "tangential_byrd_omojokun", _O + "constrained_tangential_byrd_omojokun", _O + "normal_byrd_omojokun", _G + "cauchy_geometry", _G + "spider_geometry", _G + "_cauchy_geom"],
    "C16": [_O + "tangential_byrd_omojokun", _O + "constrained_tangential_byrd_omojokun", _O + "normal_byrd_omojokun", _G + "cauchy_geometry", _G + "spider_geometry", _G + "_cauchy_geom"],
    "C17": [_P + "LinearConstraints.__init__", _P + "NonlinearConstraints.__call__", _P + "BoundConstraints.__init__", _M + "_get_constraints"],
    "C18": [_F + "radius.setter", _F + "enhance_resolution", _F + "update_radius", _F + "increase_penalty", _F + "decrease_penalty", _F + "set_best_index", _F + "get_index_to_remove", _F + "__init__"],
    "C19": [_M + "_set_default_options", _M + "_set_default_constants"],
    "C20": [_P + "Problem.__call__", _P + "Problem.build_x", _M + "_eval", _M + "_build_result"],
}
